"""C11 — index file round trip: writer/reader layout agreement.

R11.1 entry layout agrees: struct formats and field order of reader and writer (entry, cache time, header,
      extension header), read size == calcsize, padding expression, FLAG_EXTENDED => 2 bytes on both sides.
R11.2 bit-fields are bounded: operands OR-ed into the 16-bit flags and the 32-bit stat fields the statement
      names (dev, ino, size) are provably inside their masks; a saturating writer has a reader that scans to NUL.
R11.3 checksum: verified on read; written (or 20 zero bytes under skip_hash) on every normal path of Index.write.
R11.4 entries written sorted by path then stage; extensions read are the ones written back.
"""
from __future__ import annotations

import ast
import struct

from sa.cfg import EXC_LABELS, node_calls
from sa.common import cfg_of
from sa.consts import Folder, Unfoldable
from sa.flow import must_pass
from sa.load import AnalysisError, Program, callee_name, dotted, norm

IDX = "dulwich/index.py"


def struct_formats(fn_node, F: Folder, which: str) -> list[str]:
    out = []
    for c in sorted([c for c in ast.walk(fn_node) if isinstance(c, ast.Call) and dotted(c.func) == f"struct.{which}" and c.args],
                    key=lambda c: (c.lineno, c.col_offset)):
        try:
            v = F.fold(c.args[0])
        except Unfoldable:
            raise AnalysisError(f"struct.{which} with non-constant format at line {c.lineno}")
        out.append(v.decode() if isinstance(v, bytes) else v)
    return out


def bounded(e: ast.AST, limit: int, F: Folder) -> bool:
    """Is the value of e provably within [0, limit]?  Shapes: x & M, min(x, M), constants, a | b of bounded."""
    v = F.try_fold(e)
    if isinstance(v, int):
        return 0 <= v <= limit
    if isinstance(e, ast.BinOp) and isinstance(e.op, ast.BitAnd):
        for side in (e.left, e.right):
            m = F.try_fold(side)
            if isinstance(m, int) and 0 <= m <= limit:
                return True
            # x & ~MASK where MASK folds: the complement is negative; bounded only with the other side bounded
        return bounded(e.left, limit, F) or bounded(e.right, limit, F)
    if isinstance(e, ast.BinOp) and isinstance(e.op, ast.BitOr):
        return bounded(e.left, limit, F) and bounded(e.right, limit, F)
    if isinstance(e, ast.Call) and dotted(e.func) == "min":
        return any(isinstance(F.try_fold(a), int) and 0 <= F.try_fold(a) <= limit for a in e.args)
    return False


def r11_6(prog: Program, rep):
    """(seconds, nanoseconds) of an index entry are the quotient and the remainder of ONE integer (st_*_ns): seconds taken
    from the float field round up for nsec >= 999_999_881 and the pair then names a time one second later than stat."""
    m = prog.module(IDX)
    f = m.funcs.get("index_entry_from_stat")
    if f is None:
        raise AnalysisError("index_entry_from_stat not found")
    Fo = Folder(prog, m)
    n = 0
    for x in ast.walk(f.node):
        if isinstance(x, ast.Assign) and isinstance(x.targets[0], ast.Name) and x.targets[0].id in ("ctime", "mtime") and isinstance(x.value, ast.Tuple) \
                and len(x.value.elts) == 2:
            n += 1
            a, b = x.value.elts
            ok = isinstance(a, ast.BinOp) and isinstance(a.op, ast.FloorDiv) and isinstance(b, ast.BinOp) and isinstance(b.op, ast.Mod) \
                and norm(a.left) == norm(b.left) and Fo.try_fold(a.right) == Fo.try_fold(b.right) == 10 ** 9 and norm(a.left).endswith("_ns")
            rep.ob("R11.6", IDX, f.qual, f"{x.targets[0].id} = (ns // 10**9, ns % 10**9) of one integer nanosecond value", ok,
                   f"`{norm(x.value, 80)}`: seconds and nanoseconds come from different sources (the float field rounds): the entry records "
                   f"a time up to one second off, and git sees the file as modified", x.lineno)
    if n < 2:
        raise AnalysisError(f"index_entry_from_stat: expected 2 (sec, nsec) pairs, found {n}")


def r11_7(prog: Program, rep):
    """The acceptance predicate of the trailer check, decided over a FINITE abstraction of its inputs.  The stored trailer
    is only ever compared (with the digest, with 20 zero bytes, its length with 20), so four classes cover every value:
    equal to the digest / exactly 20 zero bytes / another 20 bytes / fewer than 20 bytes.  For each class x allow_empty in
    {False, True} the tests of SHA1Reader.check_sha are decided from a table of atoms (three-valued, short-circuit order)
    and the CFG is restricted to the consistent paths: it must reach `raise ChecksumMismatch` exactly when the trailer is
    not the digest and is not (allow_empty and the all-zero trailer), and the normal exit otherwise."""
    from sa.common import scenario_edge_filter
    from sa.flow import reach, reaching_defs
    m = prog.module("dulwich/pack.py")
    f = m.funcs.get("SHA1Reader.check_sha")
    if f is None:
        raise AnalysisError("pack.SHA1Reader.check_sha not found")
    stored = {s_.targets[0].id for s_ in ast.walk(f.node) if isinstance(s_, ast.Assign) and isinstance(s_.targets[0], ast.Name)
              and isinstance(s_.value, ast.Call) and callee_name(s_.value) == "read"}
    g = cfg_of(prog, f)
    rd = reaching_defs(g)
    raises = [i for i, n in g.nodes.items() if n.kind == "stmt" and isinstance(n.ast, ast.Raise) and "ChecksumMismatch" in norm(n.ast)]
    if not stored or not raises:
        raise AnalysisError("check_sha: `stored = self.f.read(..)` / `raise ChecksumMismatch` not found")
    F = Folder(prog, m)
    ZERO = b"\x00" * 20

    def is_stored(e):
        return isinstance(e, ast.Name) and e.id in stored

    def atoms_for(cls, allow):
        def atoms(e):
            if isinstance(e, ast.Name) and e.id == "allow_empty":
                return allow
            if is_stored(e):
                return True          # 'short' stands for 1..19 bytes (the empty read is the same class for every comparison below)
            if isinstance(e, ast.Compare) and len(e.ops) == 1 and isinstance(e.ops[0], (ast.Eq, ast.NotEq)):
                neg = isinstance(e.ops[0], ast.NotEq)
                l, r = e.left, e.comparators[0]
                for a, b in ((l, r), (r, l)):
                    if is_stored(a) and "digest()" in norm(b):
                        return (cls == "digest") != neg
                    if isinstance(a, ast.Call) and callee_name(a) == "len" and a.args and is_stored(a.args[0]) and F.try_fold(b) == 20:
                        return (cls != "short") != neg
                    kv = F.try_fold(b)
                    if is_stored(a) and kv == ZERO:
                        return (cls == "zero20") != neg
                    if isinstance(a, ast.Call) and callee_name(a) in ("sha_to_hex", "hexlify") and any(is_stored(z) for z in ast.walk(a)) and kv == b"0" * 40:
                        # for a short trailer sha_to_hex raises ValueError (an ordinary error): the comparison is never decided
                        return None if cls == "short" else ((cls == "zero20") != neg)
            return None
        return atoms
    names = {"digest": "the digest", "zero20": "20 zero bytes", "other20": "another 20 bytes", "short": "a trailer cut short (< 20 bytes)"}
    wrong, undecided = [], []
    for cls in names:
        for allow in (False, True):
            edge_ok, decided = scenario_edge_filter(g, rd, atoms_for(cls, allow))
            r = reach(g, [g.entry], include_srcs=True, edge_ok=edge_ok, skip_labels=frozenset(EXC_LABELS))
            hits_raise, hits_exit = any(x in r for x in raises), g.exit_normal in r
            want = cls != "digest" and not (allow and cls == "zero20")
            if hits_raise and hits_exit:
                undecided.append((cls, allow))
            elif hits_raise != want:
                wrong.append((cls, allow, hits_raise))
    if undecided and not wrong:
        # a test the table does not know: both outcomes stay possible for a case
        cls, allow = undecided[0]
        if cls == "short" and allow:
            # the only way to be undecided for a short trailer is the hex comparison reached WITHOUT a length test in front: it raises
            # ValueError there, which is a rejection by an ordinary error
            undecided = [u for u in undecided if u != (cls, allow)]
        if undecided:
            raise AnalysisError(f"check_sha: outcome for {names[undecided[0][0]]} with allow_empty={undecided[0][1]} is not decided by the known comparisons")
    rep.ob("R11.7", m.rel, f.qual, "trailer accepted iff it is the digest, or (allow_empty and exactly 20 zero bytes) - on all 4 value classes x allow_empty",
           not wrong, "; ".join(f"{names[c]} with allow_empty={a}: {'rejected' if g_ else 'ACCEPTED'}" for c, a, g_ in wrong) +
           " - damage inside the trailer of the index goes undetected", g.nodes[raises[0]].line)


def r11_8(prog: Program, rep):
    """(a) the two 32-bit fields of a cache time are masked like dev/ino/size (struct.pack(">LL") raises for a time before 1970 or
    after 2106 otherwise, and the whole index write is lost); (b) the extension loop never steps back over bytes that the
    checksumming reader has already consumed: every signature read is either taken as an extension or refused by raising."""
    m = prog.module(IDX)
    f = m.funcs.get("write_cache_time")
    if f is None:
        raise AnalysisError("index.write_cache_time not found")
    F = Folder(prog, m)
    packs = [c for c in ast.walk(f.node) if isinstance(c, ast.Call) and dotted(c.func) == "struct.pack" and c.args]
    ok = bool(packs) and all(len(c.args) >= 3 and all(bounded(a, 0xFFFFFFFF, F) for a in c.args[1:]) and not any(isinstance(a, ast.Starred) for a in c.args) for c in packs)
    rep.ob("R11.8", IDX, f.qual, "seconds and nanoseconds are bounded to 32 bits before struct.pack('>LL')", ok,
           "an unmasked time: a ctime/mtime before 1970 or after 2106 makes struct.pack raise and Index.write abort - the whole staging operation is lost; git "
           "stores the low 32 bits", (packs or [f.node])[0].lineno)
    r = m.funcs.get("read_index_dict_with_version")
    if r is None:
        raise AnalysisError("index.read_index_dict_with_version not found")
    back = [c for c in ast.walk(r.node) if isinstance(c, ast.Call) and isinstance(c.func, ast.Attribute) and c.func.attr == "seek" and c.args
            and isinstance(F.try_fold(c.args[0]), int) and F.try_fold(c.args[0]) < 0 and len(c.args) > 1 and F.try_fold(c.args[1]) == 1]
    rep.ob("R11.8", IDX, r.qual, "the extension loop never seeks back over bytes already fed to the checksum", not back,
           "a signature that is not four upper-case letters (git's `sdir` of a sparse index, `link` of a split index) is un-read with seek(-4, 1) after it went into "
           "the running SHA-1: an undamaged index fails with ChecksumMismatch", back[0].lineno if back else r.node.lineno)


def r11_9(prog: Program, rep):
    """THE LOADER STORES EXACT KEYS.  Index.__setitem__ (and update(), which goes through it) redirects a name to the key of an
    earlier entry with the same normalised form - a service for LOOKUPS under core.ignorecase / core.precomposeunicode.  While the
    file is being loaded that redirection merges two paths the file holds separately (README, readme): Index.read therefore never
    hands the parsed entries to a redirecting mutator; it stores them under their own names."""
    m = prog.module(IDX)
    rd_ = m.funcs.get("Index.read")
    si = m.funcs.get("Index.__setitem__")
    if rd_ is None or si is None:
        raise AnalysisError("Index.read / Index.__setitem__ not found")
    redirecting = {"__setitem__"} if any(isinstance(c, ast.Call) and callee_name(c) == "canonical_path" for c in ast.walk(si.node)) else set()
    # methods of Index that store through a redirecting mutator (self[...] = v, self.__setitem__, or another such method)
    changed = bool(redirecting)
    while changed:
        changed = False
        for q, f in m.funcs.items():
            if not q.startswith("Index.") or "#" in q or f.name in redirecting or f.name == "read":
                continue
            uses = any((isinstance(x, ast.Subscript) and isinstance(x.ctx, ast.Store) and isinstance(x.value, ast.Name) and x.value.id == "self")
                       or (isinstance(x, ast.Call) and isinstance(x.func, ast.Attribute) and isinstance(x.func.value, ast.Name) and x.func.value.id == "self"
                           and x.func.attr in redirecting) for x in ast.walk(f.node))
            if uses:
                redirecting.add(f.name)
                changed = True
    parsed = {t.id for x in ast.walk(rd_.node) if isinstance(x, ast.Assign) and isinstance(x.value, ast.Call) and "read_index" in (callee_name(x.value) or "")
              for tt in x.targets for t in (tt.elts if isinstance(tt, ast.Tuple) else [tt]) if isinstance(t, ast.Name)}
    if not parsed:
        raise AnalysisError("Index.read: the parsed entries not found")
    bad = [x for x in ast.walk(rd_.node) if
           (isinstance(x, ast.Call) and isinstance(x.func, ast.Attribute) and isinstance(x.func.value, ast.Name) and x.func.value.id == "self"
            and x.func.attr in redirecting) or
           (redirecting and isinstance(x, ast.Subscript) and isinstance(x.ctx, ast.Store) and isinstance(x.value, ast.Name) and x.value.id == "self")]
    rep.ob("R11.9", IDX, rd_.qual, "parsed entries are stored under their own names, not through a mutator that redirects to a normalised key", not bad,
           f"`{norm(bad[0], 60)}` goes through canonical_path: with core.ignorecase / core.precomposeunicode the second of two paths with the same "
           "normalised form overwrites the first while the file is loaded - one entry vanishes, the other carries its blob, and the next write "
           "records that" if bad else "", bad[0].lineno if bad else rd_.node.lineno)


def run(prog: Program, rep, tier="quick"):
    rep.rule("R11.6", "SAME-SOURCE: (sec, nsec) of ctime/mtime are quotient and remainder of one integer nanosecond value")
    rep.rule("R11.1", "TABLE-AGREE: reader and writer struct formats, read sizes, padding and extended-flag handling agree")
    rep.rule("R11.2", "bit-fields bounded: flags operands within 16 bits, name length within FLAG_NAMEMASK, dev/ino/size within 32 bits")
    rep.rule("R11.7", "trailer acceptance predicate of SHA1Reader.check_sha evaluated over a finite abstraction (4 trailer classes x allow_empty)")
    r11_7(prog, rep)
    r11_8(prog, rep)
    r11_9(prog, rep)
    rep.rule("R11.9", "the index loader stores exact keys: parsed entries never pass the mutator that redirects to a normalised key")
    rep.rule("R11.8", "cache times masked to 32 bits; the extension loop never un-reads checksummed bytes")
    rep.rule("R11.3", "checksum verified on read, written (or zeroed under skipHash) on every normal path")
    rep.rule("R11.5", "SIBLINGS-AGREE: index v4 prefix-length varint codec == pack OFS_DELTA offset varint codec (git's varint.c)")
    rep.rule("R11.4", "entries sorted by path then stage; extensions preserved through self._extensions")
    rep.not_decided += ["v4 prefix-compression arithmetic", "agreement with C git"]
    m = prog.module(IDX)
    F = Folder(prog, m)

    def fn(name):
        f = m.funcs.get(name)
        if f is None:
            raise AnalysisError(f"{IDX}:{name} not found")
        return f
    rd, wr = fn("read_cache_entry"), fn("write_cache_entry")
    rf, wf = struct_formats(rd.node, F, "unpack"), struct_formats(wr.node, F, "pack")
    rep.ob("R11.1", IDX, "read_cache_entry / write_cache_entry", "entry struct formats agree, in order", rf == wf and len(rf) >= 2,
           f"reader {rf} writer {wf}", rd.node.lineno)
    # read size equals calcsize of the entry format
    for c in ast.walk(rd.node):
        if isinstance(c, ast.Call) and dotted(c.func) == "struct.unpack" and len(c.args) == 2:
            fmt = F.fold(c.args[0])
            fmt = fmt.decode() if isinstance(fmt, bytes) else fmt
            a = c.args[1]
            if isinstance(a, ast.Call) and dotted(a.func) == "f.read" and a.args:
                n = F.try_fold(a.args[0])
                rep.ob("R11.1", IDX, rd.qual, f"bytes read for {fmt!r} equal its size", n == struct.calcsize(fmt),
                       f"reads {n}, format needs {struct.calcsize(fmt)}", c.lineno)
    rt, wt = fn("read_cache_time"), fn("write_cache_time")
    a, b = struct_formats(rt.node, F, "unpack"), struct_formats(wt.node, F, "pack")
    rep.ob("R11.1", IDX, "read_cache_time / write_cache_time", "time struct formats agree", a == b and a == [">LL"], f"{a} vs {b}", rt.node.lineno)
    rh, wi = fn("read_index_header"), fn("write_index")
    a, b = struct_formats(rh.node, F, "unpack"), struct_formats(wi.node, F, "pack")
    rep.ob("R11.1", IDX, "read_index_header / write_index", "header struct formats agree", a == b and a == [">LL"], f"{a} vs {b}", rh.node.lineno)
    sig_r = [c.value for c in ast.walk(rh.node) if isinstance(c, ast.Constant) and c.value == b"DIRC"]
    sig_w = [c.value for c in ast.walk(wi.node) if isinstance(c, ast.Constant) and c.value == b"DIRC"]
    rep.ob("R11.1", IDX, "read_index_header / write_index", "signature DIRC on both sides", bool(sig_r) and bool(sig_w), "", rh.node.lineno)
    we, rdv = fn("write_index_extension"), fn("read_index_dict_with_version")
    a = struct_formats(we.node, F, "pack")
    b = [x for x in struct_formats(rdv.node, F, "unpack")]
    rep.ob("R11.1", IDX, "write_index_extension / read_index_dict_with_version", "extension length format agrees", a == [">I"] and ">I" in b,
           f"{a} vs {b}", we.node.lineno)
    # padding
    def padding_expr(f):
        out = []
        for x in ast.walk(f.node):
            if isinstance(x, ast.BinOp) and isinstance(x.op, ast.BitAnd) and "~7" in norm(x.right):
                out.append(norm(x).replace(" ", ""))
        return out
    pr, pw = padding_expr(rd), padding_expr(wr)
    def padding_shape(s):
        return s.endswith("+8&~7")
    rep.ob("R11.1", IDX, "read_cache_entry / write_cache_entry", "padding is (entry length + 8) & ~7 on both sides",
           len(pr) == 1 and len(pw) == 1 and padding_shape(pr[0]) and padding_shape(pw[0]), f"reader {pr} writer {pw}", rd.node.lineno)
    for f in (rd, wr):
        guards = [x for x in ast.walk(f.node) if isinstance(x, ast.If) and "version" in norm(x.test) and "4" in norm(x.test)
                  and any("~7" in norm(s, 10000) for s in x.body + x.orelse)]
        rep.ob("R11.1", IDX, f.qual, "padding only for versions < 4", bool(guards), "", f.node.lineno)
        ext = [x for x in ast.walk(f.node) if isinstance(x, ast.If) and "FLAG_EXTENDED" in norm(x.test)
               and any(">H" in norm(s, 10000) for s in x.body)]
        rep.ob("R11.1", IDX, f.qual, "FLAG_EXTENDED => two more bytes", bool(ext), "", f.node.lineno)
    # ---- R11.2
    namemask = F.fold(m.consts["FLAG_NAMEMASK"]) if "FLAG_NAMEMASK" in m.consts else None
    if namemask != 0x0FFF:
        rep.ob("R11.2", IDX, "FLAG_NAMEMASK", "name mask is 0x0fff", False, f"{namemask}", 0)
    flag_defs = [s for s in ast.walk(wr.node) if isinstance(s, (ast.Assign, ast.AugAssign))
                 and isinstance(s.targets[0] if isinstance(s, ast.Assign) else s.target, ast.Name)
                 and (s.targets[0] if isinstance(s, ast.Assign) else s.target).id == "flags"]
    if not flag_defs:
        raise AnalysisError("write_cache_entry: definition of `flags` not found")
    for s in flag_defs:
        val = s.value
        operands = []

        def split(e):
            if isinstance(e, ast.BinOp) and isinstance(e.op, ast.BitOr):
                split(e.left)
                split(e.right)
            else:
                operands.append(e)
        split(val)
        for op in operands:
            txt = norm(op)
            if "len(" in txt:
                ok = bounded(op, namemask, F)
                rep.ob("R11.2", IDX, wr.qual, f"name length operand `{txt}` is within FLAG_NAMEMASK", ok,
                       "the name length is OR-ed into the 16-bit flags unbounded: a name of 4096 bytes or more overwrites "
                       "the stage and flag bits (and 65536 or more breaks struct.pack)", s.lineno)
            elif "~FLAG_NAMEMASK" in txt.replace(" ", "") or "& ~" in txt:
                rep.ob("R11.2", IDX, wr.qual, f"flag operand `{txt}` excludes the length bits", True, "", s.lineno)
            else:
                ok = bounded(op, 0xFFFF, F)
                rep.ob("R11.2", IDX, wr.qual, f"flag operand `{txt}` is within 16 bits", ok, "", s.lineno)
    # reader handles the saturated length
    saturates = any("min(" in norm(s.value) and "FLAG_NAMEMASK" in norm(s.value) for s in flag_defs)
    scans = any(isinstance(x, ast.Compare) and "FLAG_NAMEMASK" in norm(x) and isinstance(x.ops[0], (ast.Eq, ast.GtE)) for x in ast.walk(rd.node))
    rep.ob("R11.2", IDX, rd.qual, "a saturated name length is read up to the NUL terminator", (not saturates) or scans,
           "the writer saturates the 12-bit length but the reader reads exactly that many bytes", rd.node.lineno)
    # 32-bit stat operands
    packs = [c for c in ast.walk(wr.node) if isinstance(c, ast.Call) and dotted(c.func) == "struct.pack" and len(c.args) > 3]
    if not packs:
        raise AnalysisError("write_cache_entry: struct.pack of the entry not found")
    pk = packs[0]
    for a in pk.args[1:]:
        txt = norm(a)
        for field in ("dev", "ino", "size"):
            if txt.startswith(f"entry.{field}") or f".{field}" in txt.split("&")[0]:
                rep.ob("R11.2", IDX, wr.qual, f"32-bit field `{txt}` is masked", bounded(a, 0xFFFFFFFF, F) and isinstance(a, ast.BinOp) and isinstance(a.op, ast.BitAnd),
                       f"entry.{field} is packed as an unsigned 32-bit value without a mask (git keeps the LOW 32 bits of dev/ino/size, it does not "
                       f"saturate): a larger value raises struct.error or is recorded differently from git", a.lineno)
    # ---- bit-field algebra of the 16-bit flags word
    consts = {k: F.try_fold(v) for k, v in m.consts.items() if k.startswith("FLAG_")}
    masks = [consts.get(k) for k in ("FLAG_NAMEMASK", "FLAG_STAGEMASK", "FLAG_EXTENDED", "FLAG_VALID")]
    if any(not isinstance(x, int) for x in masks):
        raise AnalysisError(f"flag constants not foldable: {consts}")
    disjoint = all(masks[i] & masks[j] == 0 for i in range(4) for j in range(i + 1, 4))
    rep.ob("R11.2", IDX, "FLAG_*", "name/stage/extended/valid masks are disjoint and cover the 16-bit word",
           disjoint and (masks[0] | masks[1] | masks[2] | masks[3]) == 0xFFFF, f"{[hex(x) for x in masks]}", 0)
    rep.ob("R11.2", IDX, "FLAG_STAGEMASK", "stage mask is the two bits at FLAG_STAGESHIFT", consts.get("FLAG_STAGEMASK") == 3 << consts.get("FLAG_STAGESHIFT", 0),
           f"{consts.get('FLAG_STAGEMASK')} vs 3 << {consts.get('FLAG_STAGESHIFT')}", 0)

    def field_ok(mask, shift):
        return isinstance(mask, int) and isinstance(shift, int) and mask != 0 and (mask & -mask) == (1 << shift) and ((mask >> shift) & ((mask >> shift) + 1)) == 0
    n_fields = 0
    for q, f in m.funcs.items():
        if "#" in q:
            continue
        # insert: X = E & ~M ... X |= V << S   /   (V << S) | (E & ~M)
        cleared = {}
        for s_ in ast.walk(f.node):
            if isinstance(s_, ast.Assign) and isinstance(s_.targets[0], ast.Name) and isinstance(s_.value, ast.BinOp) and isinstance(s_.value.op, ast.BitAnd) \
                    and isinstance(s_.value.right, ast.UnaryOp) and isinstance(s_.value.right.op, ast.Invert):
                cleared[s_.targets[0].id] = (F.try_fold(s_.value.right.operand), s_)
        for s_ in ast.walk(f.node):
            if isinstance(s_, ast.AugAssign) and isinstance(s_.op, ast.BitOr) and isinstance(s_.target, ast.Name) and s_.target.id in cleared \
                    and isinstance(s_.value, ast.BinOp) and isinstance(s_.value.op, ast.LShift):
                mask, src_stmt = cleared[s_.target.id]
                shift = F.try_fold(s_.value.right)
                n_fields += 1
                rep.ob("R11.2", IDX, q, f"field inserted with `{norm(s_, 50)}` had exactly its own bits cleared (`{norm(src_stmt, 50)}`)", field_ok(mask, shift),
                       f"the bits cleared ({hex(mask) if isinstance(mask, int) else mask}) are not the bits of the field shifted by {shift}: old "
                       f"bits of the field survive and are OR-ed with the new value (a resolved conflict is written back at its old stage)",
                       s_.lineno)
        # extract: (E & M) >> S
        for x in ast.walk(f.node):
            if isinstance(x, ast.BinOp) and isinstance(x.op, ast.RShift) and isinstance(x.left, ast.BinOp) and isinstance(x.left.op, ast.BitAnd):
                mask, shift = F.try_fold(x.left.right), F.try_fold(x.right)
                if isinstance(mask, int) and isinstance(shift, int) and mask <= 0xFFFF and "flags" in norm(x.left.left):
                    n_fields += 1
                    rep.ob("R11.2", IDX, q, f"field extracted with `{norm(x, 50)}` uses the mask that belongs to its shift", field_ok(mask, shift),
                           f"mask {hex(mask)} does not start at bit {shift}", x.lineno)
    if n_fields < 3:
        raise AnalysisError(f"expected >= 3 flag field insert/extract sites, found {n_fields}")
    # ---- R11.5 the index v4 prefix-length varint is git's *offset* varint (varint.c): the same codec the pack code uses
    # for OFS_DELTA base offsets.  Siblings must agree on the two features that distinguish it from LEB128:
    # most-significant group first (the accumulator is shifted left by 7, no growing shift) and bias by one.
    pm = prog.module("dulwich/pack.py")

    def dec_features(fn_node):
        acc_shift = any((isinstance(x, ast.BinOp) and isinstance(x.op, ast.LShift) and F.try_fold(x.right) == 7 and not isinstance(x.left, ast.Constant)
                         and "0x7f" not in norm(x.left).lower() and "127" not in norm(x.left))
                        or (isinstance(x, ast.AugAssign) and isinstance(x.op, ast.LShift) and F.try_fold(x.value) == 7) for x in ast.walk(fn_node))
        growing = any(isinstance(x, ast.BinOp) and isinstance(x.op, ast.LShift) and isinstance(x.right, ast.Name) for x in ast.walk(fn_node))
        bias = any((isinstance(x, ast.AugAssign) and isinstance(x.op, ast.Add) and F.try_fold(x.value) == 1)
                   or (isinstance(x, ast.BinOp) and isinstance(x.op, ast.LShift) and isinstance(x.left, ast.BinOp) and isinstance(x.left.op, ast.Add)
                       and F.try_fold(x.left.right) == 1) for x in ast.walk(fn_node))
        return {"msb-first": acc_shift and not growing, "bias": bias}

    def enc_features(fn_node):
        src = norm(fn_node, 100000)
        bias = any(isinstance(x, ast.AugAssign) and isinstance(x.op, ast.Sub) and F.try_fold(x.value) == 1 for x in ast.walk(fn_node))
        msb = "reversed(" in src or ".insert(0," in src or "[::-1]" in src
        return {"msb-first": msb, "bias": bias}
    ref_dec = pm.funcs.get("_decode_delta_base_offset")
    if ref_dec is None:
        raise AnalysisError("pack._decode_delta_base_offset (reference offset-varint decoder) not found")
    # the reference is git's varint.c offset encoding; whether the pack decoder itself still has these features is C02's
    # obligation (R02.4) - a change there must not turn this check into an analysis error
    ref = {"msb-first": True, "bias": True}
    if dec_features(ref_dec.node) != ref:
        rep.note(f"pack._decode_delta_base_offset no longer shows the offset-varint features ({dec_features(ref_dec.node)}): see C02 R02.4")
    for name in ("_decode_varint", "_decompress_path_from_stream"):
        f = fn(name)
        got = dec_features(f.node)
        # precise form of the per-byte step, composed whatever way it is spelled: ((acc + 1) << 7) + (byte & 0x7F)
        from sa.common import compose_update, expr_key
        step_ok, step_txt = False, "no shift-by-7 step found"
        for blk in [getattr(x, fld) for x in ast.walk(f.node) for fld in ("body", "orelse") if isinstance(getattr(x, fld, None), list)]:
            accs = {t_.id for s_ in blk if isinstance(s_, (ast.Assign, ast.AugAssign)) for t_ in [s_.targets[0] if isinstance(s_, ast.Assign) else s_.target]
                    if isinstance(t_, ast.Name) and any(isinstance(y, ast.BinOp) and isinstance(y.op, ast.LShift) and F.try_fold(y.right) == 7 for y in ast.walk(s_))
                    or (isinstance(s_, ast.AugAssign) and isinstance(s_.op, ast.LShift) and isinstance(t_, ast.Name))}
            for acc in accs:
                e_ = compose_update([s_ for s_ in blk if isinstance(s_, (ast.Assign, ast.AugAssign)) and
                                     norm(s_.targets[0] if isinstance(s_, ast.Assign) else s_.target) == acc], acc)
                step_txt = expr_key(e_, F)
                import re as _re
                step_ok = step_ok or bool(_re.fullmatch(r"Add\(BitAnd\(127,\w+\),LShift\(Add\(1," + acc + r"\),7\)\)", step_txt))
        got = dict(got, step=step_ok)
        ref = dict(ref, step=True)
        rep.ob("R11.5", IDX, name, "v4 prefix-length varint decoder agrees with the pack offset-varint decoder (msb first, bias by one)", got == ref,
               f"features {got}, per-byte step composes to {step_txt}; git's index v4 uses the offset encoding of varint.c: a little-endian/"
               f"unbiased decoder (or a bias applied after the shift) misreads every prefix length >= 128 written by C git", f.node.lineno)
    ref_enc = None
    for q, f in pm.funcs.items():
        if any(isinstance(x, ast.AugAssign) and isinstance(x.op, ast.Sub) and isinstance(x.target, ast.Name) and x.target.id == "delta_base" for x in ast.walk(f.node)):
            ref_enc = f
    if ref_enc is None:
        rep.note("pack offset-varint encoder (`delta_base -= 1`) not recognised any more: see C02 R02.4; the index codec is compared "
                 "with the frozen features of git's varint.c")
    got = enc_features(fn("_encode_varint").node)
    rep.ob("R11.5", IDX, "_encode_varint", "v4 prefix-length varint encoder agrees with the pack offset-varint encoder (msb first, bias by one)",
           got == {"msb-first": True, "bias": True}, f"features {got}, pack encoder {enc_features(ref_enc.node) if ref_enc else None}", fn("_encode_varint").node.lineno)
    # ---- R11.3
    ir, iw = fn("Index.read"), fn("Index.write")
    g = cfg_of(prog, ir)
    chk = [i for i, n in g.nodes.items() for c in node_calls(n) if callee_name(c) == "check_sha"]
    rdn = [i for i, n in g.nodes.items() for c in node_calls(n) if callee_name(c) == "read_index_dict_with_version"]
    starts = [b for u in rdn for b, l in g.succ[u] if l not in EXC_LABELS]
    rep.ob("R11.3", IDX, ir.qual, "checksum verified after reading entries on every normal path",
           bool(chk) and bool(starts) and not must_pass(g, [g.exit_normal], chk, start=starts), "", ir.node.lineno)
    g = cfg_of(prog, iw)
    zero = [i for i, n in g.nodes.items() for c in node_calls(n) if dotted(c.func) == "f.write" and "\\x00" in norm(c) and "20" in norm(c)]
    shaw = [i for i, n in g.nodes.items() for c in node_calls(n) if dotted(c.func) == "sha1_writer.close" or callee_name(c) == "write_sha"]
    wrn = [i for i, n in g.nodes.items() for c in node_calls(n) if callee_name(c) == "write_index_dict"]
    starts = [b for u in wrn for b, l in g.succ[u] if l not in EXC_LABELS]
    rep.ob("R11.3", IDX, iw.qual, "trailer (digest, or 20 zero bytes under skipHash) written on every normal path",
           bool(zero) and bool(shaw) and bool(starts) and not must_pass(g, [g.exit_normal], set(zero) | set(shaw), start=starts),
           "", iw.node.lineno)
    skip = {i: "true" for i, n in g.nodes.items() if n.kind == "test" and "skip_hash" in norm(n.ast)}
    # a local that is None exactly when skipHash is set (`w = None if self._skip_hash else Writer(f)`) carries the option too
    derived = {x.targets[0].id for x in ast.walk(iw.node) if isinstance(x, ast.Assign) and isinstance(x.targets[0], ast.Name) and isinstance(x.value, ast.IfExp)
               and "skip_hash" in norm(x.value.test) and not isinstance(x.value.test, ast.UnaryOp)
               and isinstance(x.value.body, ast.Constant) and x.value.body.value is None}
    for i, n in g.nodes.items():
        if n.kind == "test" and isinstance(n.ast, ast.Compare) and len(n.ast.ops) == 1 and isinstance(n.ast.left, ast.Name) and n.ast.left.id in derived \
                and isinstance(n.ast.comparators[0], ast.Constant) and n.ast.comparators[0].value is None:
            skip[i] = "true" if isinstance(n.ast.ops[0], ast.Is) else "false"
    # the zero trailer only under skip_hash
    from sa.flow import reach
    r = reach(g, [g.entry], include_srcs=True, edge_ok=lambda a_, b, l: not (a_ in skip and l == skip[a_]))
    rep.ob("R11.3", IDX, iw.qual, "zero trailer only when skipHash is configured", bool(skip) and not any(z in r for z in zero), "", iw.node.lineno)
    # ---- R11.4
    wcalls = [c for c in ast.walk(iw.node) if isinstance(c, ast.Call) and callee_name(c) == "write_index_dict"]
    rep.ob("R11.4", IDX, iw.qual, "every write_index_dict call of Index.write passes the version and the extensions (skipHash or not)",
           bool(wcalls) and all({"version", "extensions"} <= {k.arg for k in c.keywords} for c in wcalls),
           f"keyword sets: {[sorted(k.arg for k in c.keywords) for c in wcalls]}: one branch rewrites the index without the extensions it read "
           f"(untracked cache, unknown extensions are dropped)", wcalls[0].lineno if wcalls else iw.node.lineno)
    wd = fn("write_index_dict")
    # the serialising loop may live in write_index_dict itself or in a module-level helper it calls (one level)
    scope = [wd] + [m.funcs[callee_name(c)] for c in ast.walk(wd.node) if isinstance(c, ast.Call) and isinstance(c.func, ast.Name)
                    and callee_name(c) in m.funcs and any(isinstance(x, ast.Call) and callee_name(x) == "serialize" for x in ast.walk(m.funcs[callee_name(c)].node))]
    ser = [(f_, c) for f_ in scope for c in ast.walk(f_.node) if isinstance(c, ast.Call) and callee_name(c) == "serialize"]
    loops = [(f_, lp) for f_ in scope for lp in ast.walk(f_.node) if isinstance(lp, ast.For) and isinstance(lp.iter, ast.Call) and callee_name(lp.iter) == "sorted"
             and lp.iter.args and isinstance(lp.iter.args[0], ast.Name) and lp.iter.args[0].id in [a.arg for a in f_.node.args.args]
             and not lp.iter.keywords]
    inside = bool(loops) and all(any(any(x is c for x in ast.walk(lp)) for f2, lp in loops if f2 is f_) for f_, c in ser)
    rep.ob("R11.4", IDX, wd.qual, "entries iterated in sorted path order", len(ser) >= 4 and inside,
           f"{len(ser)} serialize() calls, {len(loops)} loops over sorted(<entries>) without a key function", wd.node.lineno)

    def _pre(n_):
        yield n_
        for ch_ in ast.iter_child_nodes(n_):
            yield from _pre(ch_)
    seq = [x.attr for f_ in scope for x in _pre(f_.node) if isinstance(x, ast.Attribute) and x.attr.startswith("MERGE_CONFLICT_")]
    first = [seq.index(k) if k in seq else -1 for k in ("MERGE_CONFLICT_ANCESTOR", "MERGE_CONFLICT_THIS", "MERGE_CONFLICT_OTHER")]
    rep.ob("R11.4", IDX, wd.qual, "conflict stages emitted in ascending order (1, 2, 3)", all(o >= 0 for o in first) and first == sorted(first),
           f"{first}", wd.node.lineno)
    stage_vals = {}
    for cname, cls in m.classes.items():
        if cname == "Stage":
            for s in cls.node.body:
                if isinstance(s, ast.Assign) and isinstance(s.targets[0], ast.Name):
                    stage_vals[s.targets[0].id] = F.try_fold(s.value)
    rep.ob("R11.4", IDX, "Stage", "stage numbers are 0,1,2,3", stage_vals.get("NORMAL") == 0 and stage_vals.get("MERGE_CONFLICT_ANCESTOR") == 1
           and stage_vals.get("MERGE_CONFLICT_THIS") == 2 and stage_vals.get("MERGE_CONFLICT_OTHER") == 3, f"{stage_vals}", 0)
    rs, ws = norm(ir.node, 100000), norm(iw.node, 100000)
    rep.ob("R11.4", IDX, "Index.read / Index.write", "extensions read are kept in self._extensions and written back",
           "self._extensions = extensions" in rs and "self._extensions" in ws and "extensions=" in ws, "", ir.node.lineno)
    rep.ob("R11.4", IDX, iw.qual, "the version read is the version written", "version=self._version" in ws and "self._version = version" in rs, "", iw.node.lineno)
    rep.floor("R11.1", 10)
    rep.floor("R11.2", 5)
    rep.floor("R11.3", 3)
    r11_6(prog, rep)
    rep.floor("R11.4", 5)
