"""C10 — maintenance never loses reachable objects; readers survive concurrent repacks.

R10.1 new pack before anything is removed (= R09.4, re-evaluated here).
R10.2 gc deletes only objects that came out of find_unreachable_objects and passed the grace test.
R10.3 roots and edges of the reachability walk are complete (all refs incl. HEAD, packed and loose; commit->tree,
      commit->parents, tree->entries, tag->object).
R10.4 every reader site that dereferences a cached pack tolerates PackFileDisappeared (siblings agree).
R10.5 a miss is final only after a rescan of the pack directory that follows the failed loose lookup.
"""
from __future__ import annotations

import ast

from sa.cfg import EXC_LABELS, node_calls, node_exprs, _walk_shallow
from sa.common import cfg_of
from sa.flow import lines, must_pass, path, reach, reaching_defs
from sa.load import AnalysisError, Program, arg_of, callee_name, dotted, norm, names_in
from rules import c09

GC = "dulwich/gc.py"
OS_PY = "dulwich/object_store.py"
READERS = {"__contains__", "get_raw", "__getitem__", "__iter__", "iter_prefix", "iterobjects_subset", "iter_unpacked_subset",
           "get_unpacked_object", "get_object_mtime", "contains_packed"}


def r10_2(prog: Program, rep):
    m = prog.module(GC)
    n = 0
    for q, f in m.funcs.items():
        sinks = [c for c in ast.walk(f.node) if isinstance(c, ast.Call) and callee_name(c) in ("delete_loose_object",)
                 or (isinstance(c, ast.Call) and callee_name(c) == "repack" and any(k.arg == "exclude" for k in c.keywords))]
        if not sinks:
            continue
        g = cfg_of(prog, f)
        rd = reaching_defs(g)
        # the unreachable set
        u_defs = [i for i, nd in g.nodes.items() if nd.kind == "stmt" and isinstance(nd.ast, ast.Assign)
                  and isinstance(nd.ast.value, ast.Call) and callee_name(nd.ast.value) == "find_unreachable_objects"]
        if not u_defs:
            rep.ob("R10.2", GC, q, "deletions are fed from find_unreachable_objects", False,
                   "a function deletes objects but never computes the unreachable set", f.node.lineno)
            continue
        uvar = g.nodes[u_defs[0]].ast.targets[0].id
        age_tests = [i for i, nd in g.nodes.items() if nd.kind == "test" and isinstance(nd.ast, ast.Compare)
                     and "grace_period" in norm(nd.ast) and "age" in norm(nd.ast) and isinstance(nd.ast.ops[0], (ast.Lt, ast.LtE))]
        none_tests = [i for i, nd in g.nodes.items() if nd.kind == "test" and norm(nd.ast).replace(" ", "") == "grace_periodisnotNone"]

        def gated(node_ids):
            """unreachable from entry when only 'old enough' / 'no grace configured' edges are cut"""
            r = reach(g, [g.entry], include_srcs=True,
                      edge_ok=lambda a, b, l: not ((a in age_tests and l == "false") or (a in none_tests and l == "false")))
            return bool(age_tests) and bool(none_tests) and not any(x in r for x in node_ids)
        # sets filled with .add(sha) where sha iterates the unreachable set, behind the grace gate
        loops = {}
        for i, nd in g.nodes.items():
            if nd.kind == "for_iter" and isinstance(nd.ast.iter, ast.Name) and isinstance(nd.ast.target, ast.Name):
                loops[i] = (nd.ast.target.id, nd.ast.iter.id)
        derived = {}      # set name -> ok?
        for i, nd in g.nodes.items():
            for c in node_calls(nd):
                if isinstance(c.func, ast.Attribute) and c.func.attr == "add" and isinstance(c.func.value, ast.Name) and c.args \
                        and isinstance(c.args[0], ast.Name):
                    sname, elem = c.func.value.id, c.args[0].id
                    src_ok = any(li in rd[i].get(elem, ()) and it == uvar for li, (tv, it) in loops.items() if tv == elem)
                    if sname in ("pruned", "reachable", "seen"):
                        continue
                    derived[sname] = derived.get(sname, True) and src_ok and gated([i])
        for c in sinks:
            n += 1
            nodes = g.nodes_containing(c)
            if callee_name(c) == "repack":
                ex = next(k.value for k in c.keywords if k.arg == "exclude")
                ok = isinstance(ex, ast.Name) and derived.get(ex.id, False)
                rep.ob("R10.2", GC, q, f"repack(exclude={norm(ex)}) excludes only aged unreachable objects", ok,
                       "objects are excluded from the repack (i.e. dropped) that did not come out of "
                       "find_unreachable_objects through the grace-period gate", c.lineno)
                continue
            a = c.args[0] if c.args else None
            ok = False
            why = "the deleted id does not iterate the unreachable set"
            if isinstance(a, ast.Name):
                for li, (tv, it) in loops.items():
                    if tv == a.id and any(li in rd[x].get(a.id, ()) for x in nodes):
                        if it == uvar:
                            ok = gated(nodes)
                            why = "a deletion is reachable for an object younger than the grace period"
                        elif it in derived:
                            ok = derived[it]
                            why = f"the set `{it}` is not filled exclusively behind the grace-period gate from the unreachable set"
            rep.ob("R10.2", GC, q, f"{norm(c, 60)} deletes only aged unreachable objects", ok, why, c.lineno)
    if n < 3:
        raise AnalysisError(f"expected >= 3 deletion sinks in gc.py, found {n}")
    fu = prog.func(GC, "find_unreachable_objects")
    src = norm(fu.node, 100000)
    rep.ob("R10.2", GC, fu.qual, "unreachable = store minus find_reachable_objects", "find_reachable_objects(" in src
           and "not in reachable" in src, "", fu.node.lineno)


def r10_3(prog: Program, rep):
    fr = prog.func(GC, "find_reachable_objects")
    src = norm(fr.node, 100000)
    rep.ob("R10.3", GC, fr.qual, "roots are all keys of the refs container", "refs_container.allkeys()" in src, "", fr.node.lineno)
    rep.ob("R10.3", GC, fr.qual, "symbolic refs are followed to their value", "refs_container[ref]" in src, "", fr.node.lineno)
    # dispatch over object kinds and the edges each contributes
    need = {"Commit": [".tree", ".parents"], "Tree": [".items()", "entry.sha"], "Tag": [".object"]}
    for x in ast.walk(fr.node):
        if isinstance(x, ast.If) and isinstance(x.test, ast.Call) and callee_name(x.test) == "isinstance" and len(x.test.args) == 2:
            cls = norm(x.test.args[1])
            if cls in need:
                body = " ".join(norm(s, 10000) for s in x.body)
                pushes = body.count("pending.append(")
                marks = body.count("reachable.add(")
                missing = [e for e in need[cls] if e not in body]
                rep.ob("R10.3", GC, fr.qual, f"{cls}: follows {', '.join(need[cls])}", not missing and pushes >= len(need[cls]) - (1 if cls == "Tree" else 0) and marks >= 1,
                       f"an edge of the object graph is not followed ({missing}): objects behind it are deleted as unreachable",
                       x.lineno)
                need[cls] = None
    for cls, v in need.items():
        if v is not None:
            rep.ob("R10.3", GC, fr.qual, f"{cls} objects are traversed", False, f"no isinstance(obj, {cls}) branch", fr.node.lineno)
    ak = prog.func("dulwich/refs.py", "DiskRefsContainer.allkeys")
    src = norm(ak.node, 100000)
    rep.ob("R10.3", "dulwich/refs.py", ak.qual, "allkeys unions HEAD, loose refs and packed refs",
           "HEADREF" in src and ("os.walk" in src or "_iter_loose" in src or "subkeys" in src) and "get_packed_refs()" in src, "", ak.node.lineno)
    # a missing object must never abort the walk half way with a partial reachable set being used
    g = cfg_of(prog, fr)
    rets = [i for i, n in g.nodes.items() if n.kind == "stmt" and isinstance(n.ast, ast.Return)]
    loop_tests = [i for i, n in g.nodes.items() if n.kind == "test" and norm(n.ast) == "pending"]
    bad = must_pass(g, rets, loop_tests)
    rep.ob("R10.3", GC, fr.qual, "the reachable set is returned only after the work list is drained", bool(loop_tests) and not bad,
           "", fr.node.lineno)


def r10_4(prog: Program, rep):
    m = prog.module(OS_PY)
    n = 0
    for q, f in m.funcs.items():
        if f.cls not in ("PackBasedObjectStore", "DiskObjectStore") or f.name not in READERS or "#" in q:
            continue
        if f.qual != f"{f.cls}.{f.name}":
            continue
        # loops over cached packs
        for loop in [x for x in ast.walk(f.node) if isinstance(x, ast.For)]:
            it = norm(loop.iter)
            if not any(k in it for k in ("self.packs", "_iter_cached_packs()", "_pack_cache", "_update_pack_cache()")):
                continue
            tv = loop.target.id if isinstance(loop.target, ast.Name) else None
            if tv is None:
                continue
            # dereferences of the loop variable in the body
            derefs = []
            for x in ast.walk(loop):
                if x is loop.iter:
                    continue
                if isinstance(x, ast.Attribute) and isinstance(x.value, ast.Name) and x.value.id == tv and isinstance(x.ctx, ast.Load):
                    derefs.append(x)
                if isinstance(x, (ast.YieldFrom,)) and isinstance(x.value, ast.Name) and x.value.id == tv:
                    derefs.append(x)
                if isinstance(x, ast.Compare) and any(isinstance(o, (ast.In, ast.NotIn)) for o in x.ops) \
                        and any(isinstance(c, ast.Name) and c.id == tv for c in x.comparators):
                    derefs.append(x)
            for dx in derefs:
                if isinstance(dx, ast.Attribute) and dx.attr in ("_data_path", "_basename", "name"):
                    continue
                n += 1
                protected = False
                cur = dx
                while cur in m.parents and cur is not loop:
                    par = m.parents[cur]
                    if isinstance(par, ast.Try) and cur in par.body:
                        for h in par.handlers:
                            if h.type is not None and "PackFileDisappeared" in norm(h.type):
                                protected = True
                    cur = par
                rep.ob("R10.4", OS_PY, f.qual, f"pack dereference `{norm(dx, 50)}` tolerates PackFileDisappeared", protected,
                       "this reader dereferences a cached pack outside any handler for PackFileDisappeared while its siblings "
                       "evict and continue: a concurrent repack makes it fail for objects that exist throughout", dx.lineno)
        # lookups routed through _lookup_in_packs are protected by construction
        if any(isinstance(c, ast.Call) and callee_name(c) == "_lookup_in_packs" for c in ast.walk(f.node)):
            n += 1
            rep.ob("R10.4", OS_PY, f.qual, "lookup goes through _lookup_in_packs (evict + rescan + retry)", True, "", f.node.lineno)
    lk = prog.func(OS_PY, "PackBasedObjectStore._lookup_in_packs")
    src = norm(lk.node, 100000)
    rep.ob("R10.4", OS_PY, lk.qual, "_lookup_in_packs evicts a vanished pack, rescans and retries",
           "except PackFileDisappeared" in src and "_evict_pack" in src and "_update_pack_cache()" in src and "continue" in src, "", lk.node.lineno)
    # after a rescan that may have brought new packs, the lookup is retried before it gives up
    g = cfg_of(prog, lk)
    raises = [i for i, nd in g.nodes.items() if nd.kind == "stmt" and isinstance(nd.ast, ast.Raise) and "KeyError" in norm(nd.ast)]
    heads = {i for i, nd in g.nodes.items() if nd.kind in ("for_init",) and "_pack_cache" in norm(nd.ast.iter)}
    if not raises or not heads:
        raise AnalysisError("_lookup_in_packs: final raise or the loop over cached packs not found")
    for i, nd in g.nodes.items():
        calls = [c for c in node_calls(nd) if callee_name(c) == "_update_pack_cache"]
        if not calls:
            continue
        if nd.kind == "test":
            starts = [b for b, l in g.succ[i] if l == "true"]        # new packs were found
            what = "new packs found by the rescan are searched before giving up"
        else:
            starts = [b for b, l in g.succ[i] if l not in EXC_LABELS]
            what = "after a pack disappeared and the directory was rescanned the search is retried"
        # running out of the bounded number of attempts is a legitimate way to give up
        attempts = {j for j, x in g.nodes.items() if x.kind == "for_iter" and "range(" in norm(x.ast.iter)}
        bad = must_pass(g, raises, heads, start=starts, edge_ok=lambda a, b, l: not (a in attempts and l == "false"))
        rep.ob("R10.4", OS_PY, lk.qual, what, not bad,
               "the pack directory is rescanned but the lookup falls through to `raise KeyError` without searching the packs "
               "again: the pack that replaced the vanished one is never consulted", nd.line,
               lines(g, path(g, starts, bad[0], avoid=heads)) if bad else [])
    if n < 6:
        raise AnalysisError(f"expected >= 6 pack dereference sites in reader methods, found {n}")


def r10_5(prog: Program, rep):
    m = prog.module(OS_PY)
    for qual, miss_pred, what in (
            ("PackBasedObjectStore.get_raw", lambda n: n.kind == "stmt" and isinstance(n.ast, ast.Raise) and "KeyError" in norm(n.ast), "raise KeyError"),
            ("PackBasedObjectStore.__contains__", lambda n: n.kind == "stmt" and isinstance(n.ast, ast.Return) and isinstance(n.ast.value, ast.Constant) and n.ast.value.value is False, "return False")):
        f = prog.func(OS_PY, qual)
        g = cfg_of(prog, f)
        loose = [i for i, n in g.nodes.items() for c in node_calls(n) if callee_name(c) in ("_get_loose_object", "contains_loose")]
        if not loose:
            raise AnalysisError(f"{qual}: loose lookup not found")
        rescan = [i for i, n in g.nodes.items() for c in node_calls(n) if callee_name(c) == "_update_pack_cache"] + \
                 [i for i, n in g.nodes.items() if n.kind == "for_init" and "_update_pack_cache()" in norm(n.ast.iter)]
        misses = [i for i, n in g.nodes.items() if miss_pred(n)]
        after_loose = [b for i in loose for b, l in g.succ[i] if l not in EXC_LABELS]
        bad = must_pass(g, misses, rescan, start=after_loose)
        rep.ob("R10.5", OS_PY, qual, f"`{what}` only after a pack rescan that follows the failed loose lookup", bool(misses) and not bad,
               "packs are searched before the loose objects and never again: an object packed (and its loose file removed) "
               "by a concurrent repack between the two lookups is reported missing although it exists throughout",
               g.nodes[bad[0]].line if bad else f.node.lineno,
               lines(g, path(g, after_loose, bad[0], avoid=set(rescan))) if bad else [])


def run(prog: Program, rep, tier="quick"):
    rep.rule("R10.1", "new pack installed before any deletion (NEVER-BEFORE, shared with R09.4)")
    rep.rule("R10.2", "provenance + MUST-PRECEDE: deletions in gc.py take only ids from find_unreachable_objects, behind the "
                      "grace-period gate (or an explicit grace_period=None)")
    rep.rule("R10.3", "roots = every ref incl. HEAD/packed/loose; walk follows commit->tree/parents, tree->entries, tag->object")
    rep.rule("R10.4", "SIBLINGS-AGREE: each dereference of a cached pack in a reader tolerates PackFileDisappeared")
    rep.rule("R10.5", "a final miss is preceded by a pack-directory rescan that follows the failed loose lookup")
    rep.not_decided += ["reachability over runtime graphs", "a ref created while the scan runs", "alternates",
                        "objects only reachable from the index or reflogs (the statement names refs and HEAD)"]
    # R10.1
    before = len(rep.obs)
    c09.r09_4(prog, rep)
    for o in rep.obs[before:]:
        o.rule = "R10.1"
    r10_2(prog, rep)
    r10_3(prog, rep)
    r10_4(prog, rep)
    r10_5(prog, rep)
    rep.floor("R10.1", 4)
    rep.floor("R10.2", 4)
    rep.floor("R10.3", 7)
    rep.floor("R10.4", 6)
    rep.floor("R10.5", 2)
