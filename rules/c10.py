"""C10 — maintenance never loses reachable objects; readers survive concurrent repacks.

R10.1 new pack before anything is removed (= R09.4, re-evaluated here).
R10.2 gc deletes only objects that came out of find_unreachable_objects and passed the grace test.
R10.3 roots and edges of the reachability walk are complete (all refs incl. HEAD, packed and loose; commit->tree,
      commit->parents, tree->entries, tag->object).
R10.4 every reader site that dereferences a cached pack tolerates PackFileDisappeared (siblings agree).
R10.5 a miss is final only after a rescan of the pack directory that follows the failed loose lookup.
"""
from __future__ import annotations

import ast

from sa.cfg import EXC_LABELS, node_calls, node_exprs, _walk_shallow
from sa.common import cfg_of
from sa.flow import lines, must_pass, path, reach, reaching_defs
from sa.load import AnalysisError, Program, arg_of, callee_name, dotted, norm, names_in
from rules import c09

GC = "dulwich/gc.py"
OS_PY = "dulwich/object_store.py"
READERS = {"__contains__", "get_raw", "__getitem__", "__iter__", "iter_prefix", "iterobjects_subset", "iter_unpacked_subset",
           "get_unpacked_object", "get_object_mtime", "contains_packed"}


def r10_2(prog: Program, rep):
    m = prog.module(GC)
    n = 0
    for q, f in m.funcs.items():
        sinks = [c for c in ast.walk(f.node) if isinstance(c, ast.Call) and callee_name(c) in ("delete_loose_object",)
                 or (isinstance(c, ast.Call) and callee_name(c) == "repack" and any(k.arg == "exclude" for k in c.keywords))]
        if not sinks:
            continue
        g = cfg_of(prog, f)
        rd = reaching_defs(g)
        # the unreachable set
        u_defs = [i for i, nd in g.nodes.items() if nd.kind == "stmt" and isinstance(nd.ast, ast.Assign)
                  and isinstance(nd.ast.value, ast.Call) and callee_name(nd.ast.value) == "find_unreachable_objects"]
        if not u_defs:
            rep.ob("R10.2", GC, q, "deletions are fed from find_unreachable_objects", False,
                   "a function deletes objects but never computes the unreachable set", f.node.lineno)
            continue
        uvar = g.nodes[u_defs[0]].ast.targets[0].id
        age_tests = [i for i, nd in g.nodes.items() if nd.kind == "test" and isinstance(nd.ast, ast.Compare)
                     and "grace_period" in norm(nd.ast) and "age" in norm(nd.ast) and isinstance(nd.ast.ops[0], (ast.Lt, ast.LtE))]
        none_tests = [i for i, nd in g.nodes.items() if nd.kind == "test" and norm(nd.ast).replace(" ", "") == "grace_periodisnotNone"]

        def gated(node_ids):
            """unreachable from entry when only 'old enough' / 'no grace configured' edges are cut"""
            r = reach(g, [g.entry], include_srcs=True,
                      edge_ok=lambda a, b, l: not ((a in age_tests and l == "false") or (a in none_tests and l == "false")))
            return bool(age_tests) and bool(none_tests) and not any(x in r for x in node_ids)
        # sets filled with .add(sha) where sha iterates the unreachable set, behind the grace gate
        loops = {}
        for i, nd in g.nodes.items():
            it_ = nd.ast.iter if nd.kind == "for_iter" else None
            # a snapshot of the set (list(X), sorted(X), ...) iterates the same ids
            if isinstance(it_, ast.Call) and callee_name(it_) in ("list", "tuple", "sorted", "set", "frozenset") and len(it_.args) == 1:
                it_ = it_.args[0]
            if nd.kind == "for_iter" and isinstance(it_, ast.Name) and isinstance(nd.ast.target, ast.Name):
                loops[i] = (nd.ast.target.id, it_.id)
        derived = {}      # set name -> ok?
        for i, nd in g.nodes.items():
            for c in node_calls(nd):
                if isinstance(c.func, ast.Attribute) and c.func.attr == "add" and isinstance(c.func.value, ast.Name) and c.args \
                        and isinstance(c.args[0], ast.Name):
                    sname, elem = c.func.value.id, c.args[0].id
                    src_ok = any(li in rd[i].get(elem, ()) and it == uvar for li, (tv, it) in loops.items() if tv == elem)
                    if sname in ("pruned", "reachable", "seen"):
                        continue
                    derived[sname] = derived.get(sname, True) and src_ok and gated([i])
        for c in sinks:
            n += 1
            nodes = g.nodes_containing(c)
            if callee_name(c) == "repack":
                ex = next(k.value for k in c.keywords if k.arg == "exclude")
                ok = isinstance(ex, ast.Name) and derived.get(ex.id, False)
                rep.ob("R10.2", GC, q, f"repack(exclude={norm(ex)}) excludes only aged unreachable objects", ok,
                       "objects are excluded from the repack (i.e. dropped) that did not come out of "
                       "find_unreachable_objects through the grace-period gate", c.lineno)
                continue
            a = c.args[0] if c.args else None
            ok = False
            why = "the deleted id does not iterate the unreachable set"
            if isinstance(a, ast.Name):
                for li, (tv, it) in loops.items():
                    if tv == a.id and any(li in rd[x].get(a.id, ()) for x in nodes):
                        if it == uvar:
                            ok = gated(nodes)
                            why = "a deletion is reachable for an object younger than the grace period"
                        elif it in derived:
                            ok = derived[it]
                            why = f"the set `{it}` is not filled exclusively behind the grace-period gate from the unreachable set"
            rep.ob("R10.2", GC, q, f"{norm(c, 60)} deletes only aged unreachable objects", ok, why, c.lineno)
    if n < 3:
        raise AnalysisError(f"expected >= 3 deletion sinks in gc.py, found {n}")
    fu = prog.func(GC, "find_unreachable_objects")
    src = norm(fu.node, 100000)
    rep.ob("R10.2", GC, fu.qual, "unreachable = store minus find_reachable_objects", "find_reachable_objects(" in src
           and "not in reachable" in src, "", fu.node.lineno)


def r10_3(prog: Program, rep):
    fr = prog.func(GC, "find_reachable_objects")
    src = norm(fr.node, 100000)
    rep.ob("R10.3", GC, fr.qual, "roots are all keys of the refs container", "refs_container.allkeys()" in src, "", fr.node.lineno)
    rep.ob("R10.3", GC, fr.qual, "symbolic refs are followed to their value", "refs_container[ref]" in src, "", fr.node.lineno)
    # dispatch over object kinds and the edges each contributes
    need = {"Commit": [".tree", ".parents"], "Tree": [".items()", "entry.sha"], "Tag": [".object"]}
    for x in ast.walk(fr.node):
        if isinstance(x, ast.If) and isinstance(x.test, ast.Call) and callee_name(x.test) == "isinstance" and len(x.test.args) == 2:
            cls = norm(x.test.args[1])
            if cls in need:
                body = " ".join(norm(s, 10000) for s in x.body)
                pushes = body.count("pending.append(")
                marks = body.count("reachable.add(")
                missing = [e for e in need[cls] if e not in body]
                rep.ob("R10.3", GC, fr.qual, f"{cls}: follows {', '.join(need[cls])}", not missing and pushes >= len(need[cls]) - (1 if cls == "Tree" else 0) and marks >= 1,
                       f"an edge of the object graph is not followed ({missing}): objects behind it are deleted as unreachable",
                       x.lineno)
                need[cls] = None
    for cls, v in need.items():
        if v is not None:
            rep.ob("R10.3", GC, fr.qual, f"{cls} objects are traversed", False, f"no isinstance(obj, {cls}) branch", fr.node.lineno)
    ak = prog.func("dulwich/refs.py", "DiskRefsContainer.allkeys")
    src = norm(ak.node, 100000)
    rep.ob("R10.3", "dulwich/refs.py", ak.qual, "allkeys unions HEAD, loose refs and packed refs",
           "HEADREF" in src and ("os.walk" in src or "_iter_loose" in src or "subkeys" in src) and "get_packed_refs()" in src, "", ak.node.lineno)
    # a missing object must never abort the walk half way with a partial reachable set being used
    g = cfg_of(prog, fr)
    rets = [i for i, n in g.nodes.items() if n.kind == "stmt" and isinstance(n.ast, ast.Return)]
    loop_tests = [i for i, n in g.nodes.items() if n.kind == "test" and norm(n.ast) == "pending"]
    bad = must_pass(g, rets, loop_tests)
    rep.ob("R10.3", GC, fr.qual, "the reachable set is returned only after the work list is drained", bool(loop_tests) and not bad,
           "", fr.node.lineno)


def r10_4(prog: Program, rep):
    m = prog.module(OS_PY)
    n = 0
    for q, f in m.funcs.items():
        if f.cls not in ("PackBasedObjectStore", "DiskObjectStore") or f.name not in READERS or "#" in q:
            continue
        if f.qual != f"{f.cls}.{f.name}":
            continue
        # loops over cached packs
        for loop in [x for x in ast.walk(f.node) if isinstance(x, ast.For)]:
            it = norm(loop.iter)
            if isinstance(loop.iter, ast.Name):
                # a local list built from the pack cache (`todo = [.. for name, pack in self._pack_cache.items() ..]`)
                it += " ".join(norm(s_.value, 400) for s_ in ast.walk(f.node) if isinstance(s_, ast.Assign) and isinstance(s_.targets[0], ast.Name)
                               and s_.targets[0].id == loop.iter.id)
            if not any(k in it for k in ("self.packs", "_iter_cached_packs()", "_pack_cache", "_update_pack_cache()")):
                continue
            tvs = [x.id for x in ast.walk(loop.target) if isinstance(x, ast.Name)]
            if not tvs:
                continue
            for tv in tvs:
              # dereferences of the loop variable in the body
              derefs = []
              for x in ast.walk(loop):
                  if x is loop.iter:
                      continue
                  if isinstance(x, ast.Attribute) and isinstance(x.value, ast.Name) and x.value.id == tv and isinstance(x.ctx, ast.Load):
                      derefs.append(x)
                  if isinstance(x, (ast.YieldFrom,)) and isinstance(x.value, ast.Name) and x.value.id == tv:
                      derefs.append(x)
                  if isinstance(x, ast.Call) and isinstance(x.func, ast.Name) and x.func.id in ("list", "iter", "len", "set", "sorted", "tuple") and x.args \
                          and isinstance(x.args[0], ast.Name) and x.args[0].id == tv:
                      derefs.append(x)
                  if isinstance(x, ast.Compare) and any(isinstance(o, (ast.In, ast.NotIn)) for o in x.ops) \
                          and any(isinstance(c, ast.Name) and c.id == tv for c in x.comparators):
                      derefs.append(x)
              for dx in derefs:
                  if isinstance(dx, ast.Attribute) and dx.attr in ("_data_path", "_basename", "name"):
                      continue
                  n += 1
                  protected = False
                  cur = dx
                  while cur in m.parents and cur is not loop:
                      par = m.parents[cur]
                      if isinstance(par, ast.Try) and cur in par.body:
                          for h in par.handlers:
                              if h.type is not None and "PackFileDisappeared" in norm(h.type):
                                  protected = True
                      cur = par
                  rep.ob("R10.4", OS_PY, f.qual, f"pack dereference `{norm(dx, 50)}` tolerates PackFileDisappeared", protected,
                         "this reader dereferences a cached pack outside any handler for PackFileDisappeared while its siblings "
                         "evict and continue: a concurrent repack makes it fail for objects that exist throughout", dx.lineno)
        # lookups routed through _lookup_in_packs are protected by construction
        if any(isinstance(c, ast.Call) and callee_name(c) == "_lookup_in_packs" for c in ast.walk(f.node)):
            n += 1
            rep.ob("R10.4", OS_PY, f.qual, "lookup goes through _lookup_in_packs (evict + rescan + retry)", True, "", f.node.lineno)
    lk = prog.func(OS_PY, "PackBasedObjectStore._lookup_in_packs")
    src = norm(lk.node, 100000)
    rep.ob("R10.4", OS_PY, lk.qual, "_lookup_in_packs evicts a vanished pack, rescans and retries",
           "except PackFileDisappeared" in src and "_evict_pack" in src and "_update_pack_cache()" in src and "continue" in src, "", lk.node.lineno)
    # after a rescan that may have brought new packs, the lookup is retried before it gives up
    g = cfg_of(prog, lk)
    raises = [i for i, nd in g.nodes.items() if nd.kind == "stmt" and isinstance(nd.ast, ast.Raise) and "KeyError" in norm(nd.ast)]
    heads = {i for i, nd in g.nodes.items() if nd.kind in ("for_init",) and "_pack_cache" in norm(nd.ast.iter)}
    if not raises or not heads:
        raise AnalysisError("_lookup_in_packs: final raise or the loop over cached packs not found")
    for i, nd in g.nodes.items():
        calls = [c for c in node_calls(nd) if callee_name(c) == "_update_pack_cache"]
        if not calls:
            continue
        if nd.kind == "test":
            starts = [b for b, l in g.succ[i] if l == "true"]        # new packs were found
            what = "new packs found by the rescan are searched before giving up"
        else:
            starts = [b for b, l in g.succ[i] if l not in EXC_LABELS]
            what = "after a pack disappeared and the directory was rescanned the search is retried"
        # running out of the bounded number of attempts is a legitimate way to give up
        attempts = {j for j, x in g.nodes.items() if x.kind == "for_iter" and "range(" in norm(x.ast.iter)}
        bad = must_pass(g, raises, heads, start=starts, edge_ok=lambda a, b, l: not (a in attempts and l == "false"))
        rep.ob("R10.4", OS_PY, lk.qual, what, not bad,
               "the pack directory is rescanned but the lookup falls through to `raise KeyError` without searching the packs "
               "again: the pack that replaced the vanished one is never consulted", nd.line,
               lines(g, path(g, starts, bad[0], avoid=heads)) if bad else [])
    if n < 6:
        raise AnalysisError(f"expected >= 6 pack dereference sites in reader methods, found {n}")


def r10_5(prog: Program, rep):
    m = prog.module(OS_PY)
    for qual, miss_pred, what in (
            ("PackBasedObjectStore.get_raw", lambda n: n.kind == "stmt" and isinstance(n.ast, ast.Raise) and "KeyError" in norm(n.ast), "raise KeyError"),
            ("PackBasedObjectStore.__contains__", lambda n: n.kind == "stmt" and isinstance(n.ast, ast.Return) and isinstance(n.ast.value, ast.Constant) and n.ast.value.value is False, "return False")):
        f = prog.func(OS_PY, qual)
        g = cfg_of(prog, f)
        loose = [i for i, n in g.nodes.items() for c in node_calls(n) if callee_name(c) in ("_get_loose_object", "contains_loose")]
        if not loose:
            raise AnalysisError(f"{qual}: loose lookup not found")
        rescan = [i for i, n in g.nodes.items() for c in node_calls(n) if callee_name(c) == "_update_pack_cache"] + \
                 [i for i, n in g.nodes.items() if n.kind == "for_init" and "_update_pack_cache()" in norm(n.ast.iter)]
        misses = [i for i, n in g.nodes.items() if miss_pred(n)]
        after_loose = [b for i in loose for b, l in g.succ[i] if l not in EXC_LABELS]
        bad = must_pass(g, misses, rescan, start=after_loose)
        rep.ob("R10.5", OS_PY, qual, f"`{what}` only after a pack rescan that follows the failed loose lookup", bool(misses) and not bad,
               "packs are searched before the loose objects and never again: an object packed (and its loose file removed) "
               "by a concurrent repack between the two lookups is reported missing although it exists throughout",
               g.nodes[bad[0]].line if bad else f.node.lineno,
               lines(g, path(g, after_loose, bad[0], avoid=set(rescan))) if bad else [])


STORE_ENUM_ATTRS = {"packs", "_pack_cache"}
STORE_ENUM_CALLS = {"_iter_loose_objects", "_update_pack_cache", "_load_packs", "_iter_cached_packs", "listdir", "scandir", "iter_packs"}


def _enumerates_store(e: ast.AST) -> str | None:
    for x in ast.walk(e):
        if isinstance(x, ast.Attribute) and x.attr in STORE_ENUM_ATTRS and dotted(x.value) == "self":
            return "self." + x.attr
        if isinstance(x, ast.Call) and callee_name(x) in STORE_ENUM_CALLS:
            return callee_name(x) + "()"
    return None


def r10_6(prog: Program, rep):
    """SAME-SNAPSHOT: what repack / pack_loose_objects delete is what they enumerated BEFORE writing the replacement pack
    (and therefore collected into it).  A deletion fed by a store enumeration that runs after add_objects removes packs or
    loose objects that another process added in the meantime - objects that are in no pack of ours."""
    from sa.flow import reaching_defs
    from sa.cfg import _walk_shallow
    n_sites = 0
    for qual in ("PackBasedObjectStore.pack_loose_objects", "PackBasedObjectStore.repack"):
        f = prog.func(OS_PY, qual)
        m = f.module
        g = cfg_of(prog, f)
        rd = reaching_defs(g)
        adds = [i for i, n in g.nodes.items() for c in node_calls(n) if callee_name(c) == "add_objects"]
        if not adds:
            raise AnalysisError(f"{qual}: add_objects not found")
        after_add = reach(g, [b for a in adds for b, l in g.succ[a] if l not in EXC_LABELS], include_srcs=True)
        for i, n in g.nodes.items():
            for c in node_calls(n):
                if callee_name(c) not in ("delete_loose_object", "_remove_pack", "_remove_loose_object") or not c.args:
                    continue
                n_sites += 1
                # trace the deleted value back through loop targets and assignments
                bad = None
                seen = set()
                work = [(i, x.id) for x in ast.walk(c.args[0]) if isinstance(x, ast.Name)]
                while work and bad is None:
                    at, name = work.pop()
                    for d in rd[at].get(name, ()):
                        if (d, name) in seen:
                            continue
                        seen.add((d, name))
                        dn = g.nodes[d]
                        src = None
                        if dn.kind in ("for_iter", "for_init") and isinstance(dn.ast, ast.For):
                            src = dn.ast.iter
                        elif dn.kind == "stmt" and isinstance(dn.ast, (ast.Assign, ast.AnnAssign, ast.AugAssign)):
                            src = dn.ast.value
                        if src is None:
                            continue
                        en = _enumerates_store(src)
                        if en is not None and d in after_add:
                            bad = (dn, en)
                            break
                        for x in ast.walk(src):
                            if isinstance(x, ast.Name) and isinstance(x.ctx, ast.Load):
                                work.append((d, x.id))
                rep.ob("R10.6", OS_PY, qual, f"`{norm(c, 50)}` deletes only what was enumerated before the replacement pack was written", bad is None,
                       (f"the deleted value comes from `{bad[1]}` evaluated at line {bad[0].line}, after add_objects: a pack or loose "
                        f"object that another process added in the meantime is deleted although none of its objects were consolidated")
                       if bad else "", c.lineno)
    if n_sites < 4:
        raise AnalysisError(f"expected >= 4 deletion sites in repack/pack_loose_objects, found {n_sites}")


def r10_7(prog: Program, rep):
    """FRESHEN-OR-WRITE: add_object of the disk store never returns without either having refreshed the mtime of the
    existing loose file (os.utime succeeded) or having written the loose file.  The grace period of prune/gc is counted
    from that mtime: an object that is "already there" (loose and stale, or only in an old pack) and is re-added just
    before a ref is pointed at it must not look old."""
    from sa.common import is_gitfile_call, gitfile_mode
    f = prog.func(OS_PY, "DiskObjectStore.add_object")
    m = f.module
    g = cfg_of(prog, f)
    ut = [i for i, n in g.nodes.items() for c in node_calls(n) if dotted(c.func) == "os.utime"]
    wr = [i for i, n in g.nodes.items() if n.kind == "with_enter" and is_gitfile_call(prog, m, n.ast.items[n.info].context_expr)
          and "w" in (gitfile_mode(n.ast.items[n.info].context_expr) or "")]
    if not wr:
        # explicit form: h = GitFile(.., "wb") ... h.write(..)
        hs_ = [n.ast.targets[0].id for n in g.nodes.values() if n.kind == "stmt" and isinstance(n.ast, ast.Assign) and isinstance(n.ast.targets[0], ast.Name)
               and is_gitfile_call(prog, m, n.ast.value) and "w" in (gitfile_mode(n.ast.value) or "")]
        wr = [i for i, n in g.nodes.items() for c in node_calls(n) if isinstance(c.func, ast.Attribute) and c.func.attr == "write"
              and isinstance(c.func.value, ast.Name) and c.func.value.id in hs_]
    if not wr:
        raise AnalysisError("DiskObjectStore.add_object: the loose-file write (GitFile(.., 'wb')) was not found")
    r = reach(g, [g.entry], avoid=set(wr), include_srcs=True, edge_ok=lambda a, b, l: not (a in ut and l not in EXC_LABELS))
    bad = g.exit_normal in r
    rep.ob("R10.7", OS_PY, f.qual, "every return follows a successful os.utime of the loose file or the write of the loose file", bool(ut) and not bad,
           "add_object can return without refreshing or writing the loose file: an object that exists only with an old mtime "
           "(stale loose file, or only in an old pack) stays old, and a gc with a grace period that runs before the caller "
           "creates its ref prunes it", f.node.lineno, lines(g, path(g, [g.entry], g.exit_normal, avoid=set(wr))) if bad else [])
    # the age that prune/gc compare with the grace period is the file's mtime
    pr = prog.module("dulwich/gc.py")
    src = "".join(norm(fn.node, 100000) for q, fn in pr.funcs.items() if "prune" in q or "garbage" in q)
    osrc = norm(prog.func(OS_PY, "DiskObjectStore.get_object_mtime").node, 100000) if prog.module(OS_PY).funcs.get("DiskObjectStore.get_object_mtime") else ""
    rep.ob("R10.7", OS_PY, "DiskObjectStore.get_object_mtime", "the age compared with the grace period is the mtime of the file that holds the object",
           "getmtime" in osrc and "get_object_mtime" in src, "", 0)


def r10_8(prog: Program, rep):
    """READ-ORDER loose before packed.  pack_refs writes packed-refs first and unlinks the loose files afterwards, so a
    reader that looks at the loose files first and at packed-refs second sees every ref in at least one of the two,
    whatever the interleaving; the opposite order can miss a ref in both (and gc then prunes a whole branch).  In every
    function of refs.py that consults both, a packed-refs read must be reachable after each loose read."""
    LOOSE = {"_iter_loose_refs", "read_loose_ref"}
    m = prog.module("dulwich/refs.py")
    n = 0
    for q, f in sorted(m.funcs.items()):
        if "#" in q:
            continue
        g = cfg_of(prog, f)
        ln = [i for i, nd in g.nodes.items() for c in node_calls(nd) if callee_name(c) in LOOSE]
        pn = {i for i, nd in g.nodes.items() for c in node_calls(nd) if callee_name(c) == "get_packed_refs"}
        if not ln or not pn:
            continue
        n += 1
        for i in ln:
            after = reach(g, [b for b, l in g.succ[i] if l not in EXC_LABELS], include_srcs=True)
            rep.ob("R10.8", m.rel, q, f"a packed-refs read follows the loose read at `{norm(g.nodes[i].ast, 50)}`", bool(pn & after),
                   "packed-refs is read before the loose refs and not again afterwards: a concurrent pack_refs (packed-refs "
                   "written, then loose files unlinked) between the two reads makes a ref invisible in both - "
                   "find_reachable_objects misses it and gc prunes the branch", g.nodes[i].line)
    if n < 5:
        raise AnalysisError(f"expected >= 5 functions in refs.py that read both loose and packed refs, found {n}")


def r10_9(prog: Program, rep):
    """The grace period read from the configuration is a NUMBER of seconds: garbage_collect reads None as 'no age check at all',
    so the reader of gc.pruneExpire never returns None (a value such as `never` must keep everything, not prune at once)."""
    m = prog.module("dulwich/gc.py")
    f = m.funcs.get("get_prune_grace_period")
    if f is None:
        raise AnalysisError("gc.get_prune_grace_period not found")
    rets = [r for r in ast.walk(f.node) if isinstance(r, ast.Return)]
    none_rets = [r for r in rets if r.value is None or (isinstance(r.value, ast.Constant) and r.value.value is None)]
    gcf = m.funcs.get("garbage_collect")
    gate = gcf is not None and "grace_period is not None" in norm(gcf.node, 200000).replace("grace_period is None", "grace_period is not None")
    rep.ob("R10.9", m.rel, f.qual, "the configured grace period is never None (None would switch the age check off)", bool(rets) and not none_rets and gate,
           "a configuration value is mapped to None: garbage_collect treats None as 'prune without looking at the age', so every unreachable "
           "object - including those a committer has just written - is pruned immediately", none_rets[0].lineno if none_rets else f.node.lineno)


def r10_11(prog: Program, rep):
    """AGE = NEWEST COPY.  An object can be stored loose and in several packs; the grace period protects operations that
    are still in flight, so the age of an object is that of its newest copy.  In DiskObjectStore.get_object_mtime no mtime
    is returned from inside the search (first copy found wins); every value returned is an aggregate (max) computed
    after both the loose file and all packs were consulted."""
    f = prog.func(OS_PY, "DiskObjectStore.get_object_mtime")
    m = f.module
    g = cfg_of(prog, f)
    loops = [l for l in ast.walk(f.node) if isinstance(l, ast.For) and "packs" in norm(l.iter)]
    if not loops:
        raise AnalysisError("get_object_mtime: loop over the packs not found")
    rets = [r for r in ast.walk(f.node) if isinstance(r, ast.Return) and r.value is not None]
    if not rets:
        raise AnalysisError("get_object_mtime: no return with a value")
    early = [r for r in rets if any(any(x is r for x in ast.walk(l)) for l in loops) or r.lineno < loops[0].lineno]
    agg = [r for r in rets if any(isinstance(c, ast.Call) and callee_name(c) == "max" for c in ast.walk(r.value))]
    ok = not early and len(agg) == len(rets)
    bad = (early or [r for r in rets if r not in agg] or rets)[0]
    rep.ob("R10.11", OS_PY, f.qual, "the mtime returned is the maximum over ALL copies (loose file and every pack), never the first copy found", ok,
           f"`{norm(bad, 60)}` answers from one copy: an unreachable object with an old loose file and a pack written seconds ago (a push that has "
           f"not updated its ref yet) looks old, and gc with the default grace period deletes both copies", bad.lineno)


def r10_12(prog: Program, rep):
    """ITERATION ORDER follows the direction in which a repack moves objects: loose -> pack, old packs -> new pack.
    PackBasedObjectStore.__iter__ therefore (a) lists the loose objects BEFORE the packs and (b) rescans the pack directory
    after the packs it knew were walked (a loop around _update_pack_cache that ends only when no new pack appeared);
    otherwise objects that exist throughout are omitted.  (c) SIBLINGS-AGREE: every os.listdir of a fan-out directory in the
    disk store tolerates the directory having vanished (git prune-packed removes emptied fan-out directories)."""
    f = prog.func(OS_PY, "PackBasedObjectStore.__iter__")
    g = cfg_of(prog, f)
    loose = [i for i, n in g.nodes.items() for c in node_calls(n) if callee_name(c) == "_iter_loose_objects"]
    packs = [i for i, n in g.nodes.items() if n.kind == "stmt" and any(isinstance(y, ast.YieldFrom) and isinstance(y.value, ast.Name) for y in ast.walk(n.ast))]
    scans = [i for i, n in g.nodes.items() for c in node_calls(n) if callee_name(c) == "_update_pack_cache"]
    if not loose or not packs or not scans:
        raise AnalysisError(f"PackBasedObjectStore.__iter__: loose listing ({len(loose)}), pack walk ({len(packs)}) or pack-directory scan ({len(scans)}) not found")
    bad = must_pass(g, packs, loose)
    rep.ob("R10.12", OS_PY, f.qual, "loose objects are listed before any pack is walked", not bad,
           "a pack is walked before the loose objects are listed: an object that a concurrent repack moves from a loose file into a NEW pack "
           "is in neither the packs scanned earlier nor the loose listing made later", g.nodes[(bad or packs)[0]].line)
    # (b) after walking a pack, the only way to the end passes another directory scan
    after = [b for p_ in packs for b, l in g.succ[p_] if l not in EXC_LABELS]
    bad2 = must_pass(g, [g.exit_normal], scans, start=after)
    rep.ob("R10.12", OS_PY, f.qual, "after packs were walked the pack directory is scanned again before the iteration ends", not bad2,
           "the pack directory is scanned once: a pack that a concurrent repack creates while the known packs are walked is never visited, "
           "and the objects it took over from deleted packs are omitted", g.nodes[packs[0]].line)
    # (c) fan-out listings
    m = prog.module(OS_PY)
    n = 0
    for q, ff in sorted(m.funcs.items()):
        if not q.startswith("DiskObjectStore.") or "#" in q:
            continue
        gg = None
        for c in ast.walk(ff.node):
            if not (isinstance(c, ast.Call) and dotted(c.func) == "os.listdir" and c.args and isinstance(c.args[0], ast.Call)
                    and dotted(c.args[0].func) == "os.path.join" or
                    isinstance(c, ast.Call) and dotted(c.func) == "os.listdir" and c.args and isinstance(c.args[0], ast.Name) and c.args[0].id in ("subdir",)):
                continue
            if m.enclosing_func(c) is not ff:
                continue
            n += 1
            # inside a try whose handlers catch FileNotFoundError / OSError
            x, guarded = c, False
            while x in m.parents:
                x = m.parents[x]
                if isinstance(x, ast.Try) and any(h.type is None or any(t in norm(h.type) for t in ("FileNotFoundError", "OSError")) for h in x.handlers) \
                        and any(any(y is c for y in ast.walk(b_)) for b_ in x.body):
                    guarded = True
                    break
                if x is ff.node:
                    break
            rep.ob("R10.12", OS_PY, q, f"`{norm(c, 50)}` tolerates a fan-out directory that vanished", guarded,
                   "git repack -d (prune-packed) removes the loose files it packed and the emptied fan-out directories: a directory removed between "
                   "the outer and the inner listing makes the reader fail with FileNotFoundError although every object is still readable", c.lineno)
    if n < 3:
        raise AnalysisError(f"expected >= 3 fan-out directory listings in DiskObjectStore, found {n}")
    # (d) ids are handed out from a materialised list, never from a generator suspended inside a pack (its index mmap is closed
    # when a lookup made by the consumer evicts the pack)
    lazy = [y for l in ast.walk(f.node) if isinstance(l, ast.For) for y in ast.walk(l) if isinstance(y, ast.YieldFrom) and isinstance(y.value, ast.Name)
            and y.value.id in [x.id for x in ast.walk(l.target) if isinstance(x, ast.Name)]]
    rep.ob("R10.12", OS_PY, f.qual, "the ids of a pack are read before any of them is handed out (no generator suspended in the pack index)", not lazy,
           "`yield from pack` keeps a generator suspended in the index mmap: when the consumer looks an object up and a concurrent repack removed this pack, the "
           "lookup evicts and closes it and the next step fails with 'mmap closed or invalid' (fsck, write_commit_graph)", lazy[0].lineno if lazy else f.node.lineno)


def r10_13(prog: Program, rep):
    """ROOTS = THE REFS OF EVERY WORKTREE.  A repository with linked worktrees has one object store and one HEAD (plus refs/bisect/,
    refs/worktree/, refs/rewritten/) per worktree, stored under <common dir>/worktrees/<id>/; a refs container shows only those of
    the worktree it was opened in.  The root collection of find_reachable_objects therefore (a) lists the `worktrees` directory of
    the common dir, (b) also visits the common dir itself (the main worktree's HEAD, when gc runs in a linked one), and (c) feeds
    what it finds into the work list before the drain loop."""
    m = prog.module(GC)
    fr = prog.func(GC, "find_reachable_objects")
    from sa.consts import Folder
    F = Folder(prog, m)

    def lists_worktrees(fn):
        for x in ast.walk(fn.node):
            if isinstance(x, ast.Call) and dotted(x.func) in ("os.listdir", "os.scandir") and x.args:
                if any(F.try_fold(y) in (b"worktrees", "worktrees") for y in ast.walk(x.args[0])):
                    return x
        return None

    def visits_common(fn):
        pathish = {t.id for x in ast.walk(fn.node) if isinstance(x, ast.Assign) and isinstance(x.value, ast.Attribute) and x.value.attr in ("path", "commondir", "_commondir")
                   for t in x.targets if isinstance(t, ast.Name)}
        for x in ast.walk(fn.node):
            if isinstance(x, ast.List) and any((isinstance(e, ast.Name) and e.id in pathish) or (isinstance(e, ast.Attribute) and e.attr == "path") for e in x.elts):
                return True
        return False

    cands = [(fr, None)]
    for x in ast.walk(fr.node):
        if isinstance(x, ast.Call) and isinstance(x.func, ast.Name) and x.func.id in m.funcs:
            cands.append((m.funcs[x.func.id], x))
    hit = [(fn, call, lists_worktrees(fn)) for fn, call in cands if lists_worktrees(fn) is not None]
    rep.ob("R10.13", GC, fr.qual, "the root collection lists <common dir>/worktrees", bool(hit),
           "only the refs container's own keys are roots: HEAD and the other per-worktree refs of the OTHER worktrees are not, and the commits on "
           "another worktree's detached HEAD are pruned (git adds the HEAD of every worktree as a tip)", fr.node.lineno)
    if not hit:
        return
    fn, call, _ = hit[0]
    rep.ob("R10.13", GC, fn.qual, "the common dir itself is among the git dirs visited (main worktree's HEAD)", visits_common(fn),
           "run from a linked worktree, the main worktree's HEAD is not a root", fn.node.lineno)
    if call is not None:
        g = cfg_of(prog, fr)
        feeds = False
        for x in ast.walk(fr.node):
            if isinstance(x, ast.For) and x.iter is call and isinstance(x.target, ast.Name):
                feeds = any(isinstance(c, ast.Call) and isinstance(c.func, ast.Attribute) and c.func.attr in ("append", "appendleft", "add") and c.args
                            and isinstance(c.args[0], ast.Name) and c.args[0].id == x.target.id and "pending" in norm(c.func.value) for c in ast.walk(x))
        drain = [i for i, n in g.nodes.items() if n.kind == "test" and norm(n.ast) == "pending"]
        cn = g.nodes_containing(call)
        rep.ob("R10.13", GC, fr.qual, "what the other worktrees' refs point at is put on the work list before it is drained",
               feeds and bool(drain) and bool(cn) and not must_pass(g, drain, cn), "the values are computed but never become roots", call.lineno)


def r10_14(prog: Program, rep):
    """AGE AT THE MOMENT OF DESTRUCTION.  A writer that re-uses an old unreachable object refreshes its mtime (R10.7) so that a
    running gc keeps it.  That only works if gc looks at the age AFTER its long-running steps: in garbage_collect, under the scenario
    {prune, not dry_run, a grace period is configured}, every path from pack_refs() - the last long step after the reachability scan -
    to a deletion (delete_loose_object, repack(exclude=...)) passes a get_object_mtime() look (or the head of a loop that takes one
    per object)."""
    from sa.common import scenario_edge_filter
    f = prog.func(GC, "garbage_collect")
    g = cfg_of(prog, f)
    rd = reaching_defs(g)
    sinks = [i for i, nd in g.nodes.items() for c in node_calls(nd) if callee_name(c) == "delete_loose_object"
             or (callee_name(c) == "repack" and any(k.arg == "exclude" for k in c.keywords))]
    long_steps = [i for i, nd in g.nodes.items() for c in node_calls(nd) if callee_name(c) == "pack_refs"]
    if not sinks or not long_steps:
        raise AnalysisError(f"garbage_collect: deletion sinks ({len(sinks)}) or pack_refs() ({len(long_steps)}) not found")
    looks = [i for i, nd in g.nodes.items() for c in node_calls(nd) if callee_name(c) == "get_object_mtime"]
    loops = [x for x in ast.walk(f.node) if isinstance(x, ast.For) and any(isinstance(c, ast.Call) and callee_name(c) == "get_object_mtime" for c in ast.walk(x))]
    heads = [i for i, nd in g.nodes.items() if nd.kind in ("for_iter", "for_init") and any(nd.ast is l for l in loops)]

    def atoms(e):
        return {"grace_period is not None": True, "grace_period is None": False, "prune": True, "dry_run": False, "not dry_run": True}.get(norm(e))
    edge_ok, _ = scenario_edge_filter(g, rd, atoms)
    starts = [b for a in long_steps for b, l in g.succ[a] if l not in EXC_LABELS]
    bad = must_pass(g, sinks, set(looks) | set(heads), start=starts, edge_ok=edge_ok)
    rep.ob("R10.14", GC, f.qual, "after pack_refs() the age of the objects is looked at again before anything is destroyed (grace period configured)",
           not bad, "the prune set computed during the reachability scan is destroyed after the scan and pack_refs() without another look: an object "
           "that a concurrent writer re-used (and freshened) in between is unlinked and dropped from the packs while a new commit references it",
           g.nodes[bad[0]].line if bad else f.node.lineno)


def run(prog: Program, rep, tier="quick"):
    rep.rule("R10.11", "AGE = NEWEST COPY: get_object_mtime returns the maximum over the loose file and every pack, never the first copy found")
    rep.rule("R10.12", "ITERATION ORDER: __iter__ lists loose objects before packs and rescans the pack directory until no new pack appears; fan-out listings tolerate a vanished directory")
    rep.rule("R10.14", "AGE AT THE MOMENT OF DESTRUCTION: gc re-applies the grace period after its long-running steps, right before deleting")
    rep.rule("R10.13", "ROOTS = the refs of EVERY worktree: the root collection lists <common dir>/worktrees and the common dir itself")
    rep.rule("R10.9", "gc.pruneExpire is read as a number of seconds, never as None (= no grace at all)")
    rep.rule("R10.8", "READ-ORDER: refs are read loose first, packed second (the order in which pack_refs moves them)")
    rep.rule("R10.7", "FRESHEN-OR-WRITE: DiskObjectStore.add_object refreshes the mtime of an existing loose object or writes it - never just returns")
    rep.rule("R10.6", "SAME-SNAPSHOT: repack/pack_loose_objects delete only packs and loose objects enumerated before add_objects")
    rep.rule("R10.1", "new pack installed before any deletion (NEVER-BEFORE, shared with R09.4)")
    rep.rule("R10.2", "provenance + MUST-PRECEDE: deletions in gc.py take only ids from find_unreachable_objects, behind the "
                      "grace-period gate (or an explicit grace_period=None)")
    rep.rule("R10.3", "roots = every ref incl. HEAD/packed/loose; walk follows commit->tree/parents, tree->entries, tag->object")
    rep.rule("R10.4", "SIBLINGS-AGREE: each dereference of a cached pack in a reader tolerates PackFileDisappeared")
    rep.rule("R10.5", "a final miss is preceded by a pack-directory rescan that follows the failed loose lookup")
    rep.not_decided += ["reachability over runtime graphs", "a ref created while the scan runs", "alternates",
                        "objects only reachable from the index or reflogs (the statement names refs and HEAD)"]
    # R10.1
    before = len(rep.obs)
    c09.r09_4(prog, rep)
    for o in rep.obs[before:]:
        o.rule = "R10.1"
    r10_2(prog, rep)
    r10_3(prog, rep)
    r10_4(prog, rep)
    r10_5(prog, rep)
    r10_6(prog, rep)
    r10_7(prog, rep)
    r10_8(prog, rep)
    r10_9(prog, rep)
    r10_11(prog, rep)
    r10_12(prog, rep)
    r10_13(prog, rep)
    r10_14(prog, rep)
    rep.floor("R10.13", 1)
    from sa.common import share
    from rules import c14
    share(rep, lambda: c14.r14_2(prog, rep), "R10.10", lambda o: "MIDX" in o.key or "multi-pack" in o.key or "vanished pack" in o.key or "protected region" in o.key,
          "a reader that goes through the multi-pack-index survives a concurrent repack (shared with R14.2): the pack it names is dereferenced "
          "inside the region that handles KeyError / PackFileDisappeared")
    rep.floor("R10.1", 4)
    rep.floor("R10.2", 4)
    rep.floor("R10.3", 7)
    rep.floor("R10.4", 6)
    rep.floor("R10.5", 2)
