"""C01 — object names are content hashes; serialisation lossless.

R01.1 dirty-flag discipline: every store to an attribute that _serialize reads is paired with an invalidation
      of the cached hash/text, unless the receiver is fresh in that function.
R01.2 the cached hash is guarded by the dirty flag; as_raw_chunks resets it when it re-serialises; only ShaFile
      reads _sha.
R01.3 header tables of Commit and Tag: serializer and parser(s) agree; unknown headers are kept (Commit) or
      refused (Tag), never dropped; every parsed field is stored in an attribute the serializer reads.
R01.4 one ordering rule: serialize_tree is fed from sorted_tree_items(name_order=False); key_entry and the Rust
      twin cmp_with_suffix append '/' exactly for S_IFDIR with equal constants.
"""
from __future__ import annotations

import ast
import stat as pystat

from sa.cfg import EXC_LABELS, node_calls, node_exprs, _walk_shallow
from sa.common import cfg_of
from sa.flow import lines, must_pass, path, reach, reaching_defs
from sa.load import AnalysisError, Program, arg_of, callee_name, dotted, norm
from sa.rust import RustFile

OBJ = "dulwich/objects.py"
MUTATORS = {"append", "extend", "insert", "pop", "remove", "clear", "update", "setdefault", "sort", "reverse",
            "popitem", "add", "discard", "__setitem__", "__delitem__"}
OBSERVERS = {"id", "sha", "as_raw_string", "as_raw_chunks", "get_id", "as_legacy_object", "as_legacy_object_chunks",
             "raw_length", "__hash__"}


def concrete_classes(prog: Program) -> list[str]:
    m = prog.module(OBJ)
    out = [c for c in prog.subclasses("ShaFile") if c != "ShaFile" and f"{c}._serialize" in m.funcs]
    return sorted(out)


def class_props(prog: Program, cname: str) -> dict[str, str]:
    """property name -> backing attribute for `x = serializable_property("x")` and trivial @property getters."""
    m = prog.module(OBJ)
    out = {}
    for cn in [cname] + prog.bases_of(cname):
        cls = m.classes.get(cn)
        if cls is None:
            continue
        for s in cls.node.body:
            if isinstance(s, ast.Assign) and isinstance(s.value, ast.Call) and callee_name(s.value) == "serializable_property" \
                    and s.value.args and isinstance(s.value.args[0], ast.Constant):
                out[s.targets[0].id] = "_" + s.value.args[0].value
            if isinstance(s, ast.FunctionDef) and any(isinstance(d, ast.Name) and d.id == "property" for d in s.decorator_list):
                for r in ast.walk(s):
                    if isinstance(r, ast.Return) and isinstance(r.value, ast.Attribute) and dotted(r.value.value) == "self":
                        out.setdefault(s.name, r.value.attr)
    return out


def serialized_attrs(prog: Program, cname: str) -> set[str]:
    m = prog.module(OBJ)
    props = class_props(prog, cname)
    seen_funcs = set()
    attrs = set()

    def visit(fn, depth):
        if fn is None or fn in seen_funcs or depth > 3:
            return
        seen_funcs.add(fn)
        for x in ast.walk(fn.node):
            if isinstance(x, ast.Attribute) and isinstance(x.value, ast.Name) and x.value.id == "self" \
                    and isinstance(x.ctx, ast.Load):
                if x.attr.startswith("_") and not x.attr.startswith("__"):
                    par = m.parents.get(x)
                    if isinstance(par, ast.Call) and par.func is x:
                        visit(prog.method(cname, x.attr), depth + 1)
                    else:
                        attrs.add(x.attr)
                elif x.attr in props:
                    attrs.add(props[x.attr])
                else:
                    par = m.parents.get(x)
                    if isinstance(par, ast.Call) and par.func is x:
                        visit(prog.method(cname, x.attr), depth + 1)
    visit(prog.method(cname, "_serialize"), 0)
    attrs -= {"_needs_serialization", "_sha"}
    return {a for a in attrs if not callable_attr(prog, cname, a)}


def callable_attr(prog, cname, a):
    return prog.method(cname, a) is not None


def store_events(node, recv: str, fattrs: set[str]):
    """Stores on `recv.<attr in fattrs>` performed at this CFG node."""
    out = []
    for e in node_exprs(node):
        for x in _walk_shallow(e):
            # plain / tuple / augmented store
            if isinstance(x, ast.Attribute) and isinstance(x.ctx, (ast.Store, ast.Del)) and dotted(x.value) == recv \
                    and x.attr in fattrs:
                out.append(("store", x.attr, x))
            # subscript store / delete
            if isinstance(x, ast.Subscript) and isinstance(x.ctx, (ast.Store, ast.Del)) and isinstance(x.value, ast.Attribute) \
                    and dotted(x.value.value) == recv and x.value.attr in fattrs:
                out.append(("item store", x.value.attr, x))
            if isinstance(x, ast.Call) and isinstance(x.func, ast.Attribute) and x.func.attr in MUTATORS \
                    and isinstance(x.func.value, ast.Attribute) and dotted(x.func.value.value) == recv \
                    and x.func.value.attr in fattrs:
                out.append((f".{x.func.attr}()", x.func.value.attr, x))
            if isinstance(x, ast.Call) and dotted(x.func) == "setattr" and x.args and dotted(x.args[0]) == recv:
                out.append(("setattr", "*", x))
            if isinstance(x, ast.Call) and dotted(x.func) == f"{recv}._deserialize":
                out.append(("_deserialize()", "*", x))
    return out


def invalidations(node, recv: str) -> bool:
    for e in node_exprs(node):
        for x in _walk_shallow(e):
            if isinstance(x, ast.Attribute) and isinstance(x.ctx, ast.Store) and dotted(x.value) == recv:
                if x.attr == "_sha":
                    return True
                if x.attr == "_needs_serialization":
                    par_assign = e if isinstance(e, ast.Assign) else None
                    if par_assign is not None and isinstance(par_assign.value, ast.Constant) and par_assign.value.value is True:
                        return True
            if isinstance(x, ast.Call) and dotted(x.func) in (f"{recv}.set_raw_string", f"{recv}.set_raw_chunks"):
                return True
    return False


def check_function(prog, rep, f, recv: str, fattrs: set[str], label: str, exempt_fresh=False):
    g = cfg_of(prog, f)
    inval = {i for i, n in g.nodes.items() if invalidations(n, recv)}
    n = 0
    for i, node in g.nodes.items():
        evs = store_events(node, recv, fattrs)
        if not evs:
            continue
        if exempt_fresh and _fresh_at(g, f, i, recv):
            rep.count("stores on fresh receivers (exempt)")
            continue
        for kind, attr, x in evs:
            n += 1
            after = must_pass(g, [g.exit_normal], inval, start=[b for b, l in g.succ[i] if l not in EXC_LABELS])
            before = must_pass(g, [i], inval)
            ok = i in inval or not after or not before
            rep.ob("R01.1", f.module.rel, f.qual, f"{kind} {recv}.{attr} [{label}]", ok,
                   f"`{norm(x, 60)}` changes state that _serialize reads but no path-covering invalidation "
                   f"({recv}._needs_serialization = True / {recv}._sha = ...) accompanies it: the cached id goes stale",
                   node.line, lines(g, path(g, [i], g.exit_normal, avoid=inval)) if not ok else [])
    return n


def _fresh_at(g, f, at: int, recv: str) -> bool:
    """recv is a local created by a constructor/copy in this function and not yet observed on any path to `at`."""
    if "." in recv:
        return False
    rd = getattr(g, "_rd", None) or reaching_defs(g)
    g._rd = rd
    defs = rd[at].get(recv, ())
    if not defs:
        return False
    for d in defs:
        dn = g.nodes[d]
        v = dn.ast.value if dn.kind == "stmt" and isinstance(dn.ast, (ast.Assign, ast.AnnAssign)) else None
        if not (isinstance(v, ast.Call) and (
                callee_name(v) in ("Commit", "Tag", "Tree", "Blob", "copy", "cls", "__new__", "obj_class", "from_string",
                                   "from_raw_string", "from_raw_chunks", "deepcopy"))):
            return False
        # no observation between def and `at`
        obs = set()
        for i, n in g.nodes.items():
            for e in node_exprs(n):
                for x in _walk_shallow(e):
                    if isinstance(x, ast.Attribute) and dotted(x.value) == recv and x.attr in OBSERVERS and isinstance(x.ctx, ast.Load):
                        obs.add(i)
                    if isinstance(x, ast.Call) and callee_name(x) in ("add_object", "add_objects") and any(
                            isinstance(a, ast.Name) and a.id == recv for a_ in x.args for a in ast.walk(a_)):
                        obs.add(i)
        obs.discard(at)
        r = reach(g, [d], avoid=obs, include_srcs=True)
        if at not in r:
            return False
    return True


def r01_1(prog: Program, rep):
    m = prog.module(OBJ)
    classes = concrete_classes(prog)
    if len(classes) < 4:
        raise AnalysisError(f"concrete ShaFile subclasses found: {classes}")
    allattrs = set()
    per_class = {}
    for c in classes:
        fa = serialized_attrs(prog, c)
        if not fa:
            raise AnalysisError(f"{c}._serialize reads no instance attribute (extractor failure)")
        per_class[c] = fa
        allattrs |= fa
        rep.note(f"F({c}) = {sorted(fa)}")
    rep.extra["serialized_attrs"] = {c: sorted(v) for c, v in per_class.items()}
    # (1) methods of each class (and of ShaFile) on self
    n = 0
    for c in classes + ["ShaFile"]:
        fattrs = per_class.get(c, allattrs & {"_chunked_text"}) | {"_chunked_text"}
        for q, f in m.funcs.items():
            if f.cls != c or "#" in q or f.qual != f"{c}.{f.name}":
                continue
            if f.name in ("__init__", "_deserialize", "_serialize", "__new__"):
                continue
            if any(isinstance(d, ast.Name) and d.id in ("classmethod", "staticmethod") for d in f.node.decorator_list):
                continue
            if f.name == "as_raw_chunks":
                continue     # the serialiser cache itself: covered by R01.2
            n += check_function(prog, rep, f, "self", fattrs, c)
    # (2) the property factory's setter closure
    sp = m.funcs.get("serializable_property.<locals>.set")
    if sp is None:
        raise AnalysisError("serializable_property setter closure not found")
    recv = sp.node.args.args[0].arg
    n += check_function(prog, rep, sp, recv, {"*"} | allattrs, "serializable_property")
    # every backing attribute read by _serialize is settable only through a checked path: public names
    for c in classes:
        props = class_props(prog, c)
        backing = set(props.values())
        for a in sorted(per_class[c]):
            public = a[1:]
            has_setter = public in props or any(
                isinstance(s, ast.FunctionDef) and s.name == public and any("setter" in norm(d) for d in s.decorator_list)
                for s in m.classes[c].node.body)
            rep.count("serialized attributes", 1)
    # (3) stores from outside through a non-self receiver, package wide
    for mod in prog.modules.values():
        for q, f in mod.funcs.items():
            if "#" in q:
                continue
            recvs = set()
            for x in ast.walk(f.node):
                if isinstance(x, ast.Attribute) and x.attr in allattrs and isinstance(x.value, ast.Name) and x.value.id != "self":
                    par = mod.parents.get(x)
                    if isinstance(x.ctx, (ast.Store, ast.Del)) or (
                            isinstance(par, ast.Attribute) and par.attr in MUTATORS) or (
                            isinstance(par, ast.Subscript) and isinstance(par.ctx, (ast.Store, ast.Del))):
                        recvs.add(x.value.id)
                # mutation through a public getter that hands out the internal list: x.parents.append(...)
                if isinstance(x, ast.Call) and isinstance(x.func, ast.Attribute) and x.func.attr in MUTATORS \
                        and isinstance(x.func.value, ast.Attribute) and x.func.value.attr in ("parents", "chunked", "mergetag", "extra") \
                        and isinstance(x.func.value.value, ast.Name) and x.func.value.value.id != "self":
                    recvs.add(x.func.value.value.id)
            for recv in sorted(recvs):
                if mod.enclosing_func(f.node) is not None and False:
                    continue
                fat = allattrs | {"parents", "chunked", "mergetag", "extra"}
                n += check_function(prog, rep, f, recv, fat, "external receiver", exempt_fresh=True)
    rep.count("stores to serialized state analysed", n)


def r01_2(prog: Program, rep):
    m = prog.module(OBJ)
    sha = prog.func(OBJ, "ShaFile.sha")
    g = cfg_of(prog, sha)
    rets = [i for i, n in g.nodes.items() if n.kind == "stmt" and isinstance(n.ast, ast.Return)
            and dotted(n.ast.value) == "self._sha"]
    if not rets:
        raise AnalysisError("ShaFile.sha: `return self._sha` not found")
    recompute = {i for i, n in g.nodes.items() if n.kind == "stmt" and isinstance(n.ast, ast.Assign)
                 and any(dotted(t) == "self._sha" for t in n.ast.targets)}
    flag_tests = {i for i, n in g.nodes.items() if n.kind == "test" and dotted(n.ast) == "self._needs_serialization"}
    r = reach(g, [g.entry], avoid=recompute, include_srcs=True,
              edge_ok=lambda a, b, l: not (a in flag_tests and l == "false"))
    ok = bool(flag_tests) and not any(x in r for x in rets)
    rep.ob("R01.2", OBJ, sha.qual, "cached hash returned only when the dirty flag is clear", ok,
           "`return self._sha` is reachable without testing _needs_serialization: an edited object keeps its old id",
           g.nodes[rets[0]].line)
    # a hash requested in an explicit format is never answered from the format-agnostic cache (the cache may hold
    # the name under another algorithm, e.g. after loading from a SHA-256 store)
    fmt_param = sha.node.args.args[1].arg if len(sha.node.args.args) > 1 else None
    if fmt_param:
        fmt_tests = {i for i, n in g.nodes.items() if n.kind == "test" and norm(n.ast).replace(" ", "") in
                     (f"{fmt_param}isnotNone", f"{fmt_param}isNone")}
        none_side = {i: ("false" if "isnot" in norm(g.nodes[i].ast).replace(" ", "") else "true") for i in fmt_tests}
        r2 = reach(g, [g.entry], include_srcs=True, edge_ok=lambda a, b, l: not (a in none_side and l == none_side[a]))
        rep.ob("R01.2", OBJ, sha.qual, f"a hash requested with an explicit `{fmt_param}` is always recomputed", bool(fmt_tests) and not any(x in r2 for x in rets),
               f"`return self._sha` is reachable when `{fmt_param}` was given: the cache is not keyed by algorithm, so an object "
               f"loaded from a store of another hash algorithm answers with that store's name", g.nodes[rets[0]].line)
    none_tests = {i for i, n in g.nodes.items() if n.kind == "test" and "self._sha is None" in norm(n.ast)}
    rep.ob("R01.2", OBJ, sha.qual, "missing hash is computed", bool(none_tests) and bool(recompute), "", sha.node.lineno)
    arc = prog.func(OBJ, "ShaFile.as_raw_chunks")
    g = cfg_of(prog, arc)
    ser = [i for i, n in g.nodes.items() for c in node_calls(n) if dotted(c.func) == "self._serialize"]
    reset = {i for i, n in g.nodes.items() if n.kind == "stmt" and isinstance(n.ast, ast.Assign)
             and any(dotted(t) == "self._sha" for t in n.ast.targets) and isinstance(n.ast.value, ast.Constant)
             and n.ast.value.value is None}
    ok = bool(ser) and bool(reset) and (not must_pass(g, ser, reset) or not must_pass(
        g, [g.exit_normal], reset, start=[b for s in ser for b, l in g.succ[s] if l not in EXC_LABELS]))
    rep.ob("R01.2", OBJ, arc.qual, "re-serialisation resets the cached hash", ok,
           "as_raw_chunks re-serialises without dropping the cached _sha", arc.node.lineno)
    clears = [i for i, n in g.nodes.items() if n.kind == "stmt" and isinstance(n.ast, ast.Assign)
              and any(dotted(t) == "self._needs_serialization" for t in n.ast.targets)
              and isinstance(n.ast.value, ast.Constant) and n.ast.value.value is False]
    bad = must_pass(g, clears, ser)
    rep.ob("R01.2", OBJ, arc.qual, "dirty flag cleared only after serialising", bool(clears) and not bad, "", arc.node.lineno)
    # id / __hash__ / __eq__ go through sha()
    for name, needle in (("id", "self.sha("), ("get_id", "self.sha("), ("__hash__", "self.id"), ("__eq__", "self.id"),
                         ("__ne__", "self.id")):
        f = m.funcs.get(f"ShaFile.{name}")
        if f is None:
            raise AnalysisError(f"ShaFile.{name} not found")
        rep.ob("R01.2", OBJ, f.qual, f"reaches the hash through {needle})" if needle.endswith("(") else f"uses {needle}",
               needle in norm(f.node, 100000), "", f.node.lineno)
    # who reads _sha
    n_readers = 0
    for mod in prog.modules.values():
        for x in ast.walk(mod.tree):
            if isinstance(x, ast.Attribute) and x.attr == "_sha" and isinstance(x.ctx, ast.Load):
                f = mod.enclosing_func(x)
                owner = f.cls if f else None
                cls_ok = owner is not None and (owner == "ShaFile" or owner in prog.subclasses("ShaFile")
                                                or owner in ("FixedSha", "UnpackedObject", "PackIndexEntry")
                                                or "ShaFile" not in prog.subclasses("ShaFile"))
                recv = dotted(x.value)
                if mod.rel != OBJ and recv and not recv.startswith("self"):
                    n_readers += 1
                    rep.ob("R01.2", mod.rel, f.qual if f else "<module>", f"no external reader of {recv}._sha", False,
                           "the cached hash is read bypassing sha(): it may be stale", x.lineno)
    rep.count("external _sha readers", n_readers)


def _header_consts(fn_node, m) -> set[str]:
    return {x.id for x in ast.walk(fn_node) if isinstance(x, ast.Name) and x.id.endswith("_HEADER") and x.id in m.consts}


def r01_3(prog: Program, rep):
    m = prog.module(OBJ)
    # ---- Commit
    ser = prog.func(OBJ, "Commit._serialize")
    wset = _header_consts(ser.node, m)
    parsers = [n for n in ("_parse_commit", "_parse_commit_broken") if n in m.funcs]
    if not parsers:
        raise AnalysisError("no commit parser found")
    psets = {}
    for pn in parsers:
        pf = m.funcs[pn]
        cmp = set()
        for x in ast.walk(pf.node):
            if isinstance(x, ast.Compare) and isinstance(x.left, ast.Name) and x.left.id == "field" and \
                    isinstance(x.ops[0], ast.Eq) and isinstance(x.comparators[0], ast.Name):
                cmp.add(x.comparators[0].id)
        psets[pn] = cmp
        # _parse_commit_broken may delegate
        if not cmp and any(isinstance(c, ast.Call) and callee_name(c) == "_parse_commit" for c in ast.walk(pf.node)):
            psets[pn] = psets.get("_parse_commit", set())
    for pn, ps in psets.items():
        rep.ob("R01.3", OBJ, pn, "parser dispatch set equals the headers the serializer emits", ps == wset,
               f"serializer only: {sorted(wset - ps)}; parser only: {sorted(ps - wset)}: a header is emitted that the parser "
               f"would file under 'extra' (reordered on rewrite) or parsed but never written back", m.funcs[pn].node.lineno)
    pf = m.funcs["_parse_commit"]
    # final else stores the pair
    loop = [x for x in ast.walk(pf.node) if isinstance(x, ast.For) and "_parse_message" in norm(x.iter)]
    if not loop:
        raise AnalysisError("_parse_commit: loop over _parse_message not found")
    chain = loop[0].body[-1]
    while isinstance(chain, ast.If) and chain.orelse and len(chain.orelse) == 1 and isinstance(chain.orelse[0], ast.If):
        chain = chain.orelse[0]
    final = chain.orelse if isinstance(chain, ast.If) else []
    keeps = any(isinstance(c, ast.Call) and isinstance(c.func, ast.Attribute) and c.func.attr == "append"
                and "field" in norm(c) and "value" in norm(c) for s in final for c in ast.walk(s))
    rep.ob("R01.3", OBJ, "_parse_commit", "unknown headers are kept (final else appends (field, value))", keeps,
           "an unknown commit header is dropped by the parser: it disappears when the commit is rewritten", pf.node.lineno)
    msg_branch = any(isinstance(x, ast.Compare) and isinstance(x.left, ast.Name) and x.left.id == "field"
                     and isinstance(x.ops[0], ast.Is) for x in ast.walk(pf.node))
    rep.ob("R01.3", OBJ, "_parse_commit", "message (field is None) handled", msg_branch, "", pf.node.lineno)
    # every element of the returned tuple is stored by _deserialize in an attribute _serialize reads
    des = prog.func(OBJ, "Commit._deserialize")
    fa = serialized_attrs(prog, "Commit")
    stored = {x.attr for x in ast.walk(des.node) if isinstance(x, ast.Attribute) and isinstance(x.ctx, ast.Store)
              and dotted(x.value) == "self"}
    rep.ob("R01.3", OBJ, des.qual, "every attribute the serializer reads is stored by the parser", fa <= stored,
           f"read by _serialize but never stored by _deserialize: {sorted(fa - stored)}", des.node.lineno)
    rep.ob("R01.3", OBJ, des.qual, "every attribute the parser stores is read by the serializer", stored <= fa,
           f"stored by _deserialize but never read by _serialize (lost on rewrite): {sorted(stored - fa)}", des.node.lineno)
    ret = [r for r in ast.walk(pf.node) if isinstance(r, ast.Return) and isinstance(r.value, ast.Tuple)]
    n_ret = len(ret[0].value.elts) if ret else 0
    unpack = [x for x in ast.walk(des.node) if isinstance(x, ast.Assign) and isinstance(x.targets[0], ast.Tuple)
              and isinstance(x.value, ast.Call) and callee_name(x.value) == "_parse_commit"]
    n_unp = len(unpack[0].targets[0].elts) if unpack else -1
    names = [e.id for e in unpack[0].targets[0].elts if isinstance(e, ast.Name)] if unpack else []
    used = {x.id for x in ast.walk(des.node) if isinstance(x, ast.Name) and isinstance(x.ctx, ast.Load)}
    rep.ob("R01.3", OBJ, des.qual, "all parsed values are consumed", n_ret == n_unp and set(names) <= used,
           f"parser returns {n_ret} values, _deserialize unpacks {n_unp}; unused: {sorted(set(names) - used)}", des.node.lineno)
    # ---- Tag
    tser = prog.func(OBJ, "Tag._serialize")
    tdes = prog.func(OBJ, "Tag._deserialize")
    tw = _header_consts(tser.node, m)
    tp = set()
    for x in ast.walk(tdes.node):
        if isinstance(x, ast.Compare) and isinstance(x.left, ast.Name) and x.left.id == "field" and \
                isinstance(x.ops[0], ast.Eq) and isinstance(x.comparators[0], ast.Name):
            tp.add(x.comparators[0].id)
    rep.ob("R01.3", OBJ, tdes.qual, "tag parser dispatch set equals the headers the serializer emits", tp == tw,
           f"serializer only: {sorted(tw - tp)}; parser only: {sorted(tp - tw)}", tdes.node.lineno)
    loop = [x for x in ast.walk(tdes.node) if isinstance(x, ast.For) and "_parse_message" in norm(x.iter)]
    chain = loop[0].body[-1] if loop else None
    while isinstance(chain, ast.If) and chain.orelse and len(chain.orelse) == 1 and isinstance(chain.orelse[0], ast.If):
        chain = chain.orelse[0]
    final = chain.orelse if isinstance(chain, ast.If) else []
    rep.ob("R01.3", OBJ, tdes.qual, "unknown tag headers are refused (final else raises)",
           any(isinstance(s, ast.Raise) for s in final), "an unknown tag header is silently dropped", tdes.node.lineno)
    tfa = serialized_attrs(prog, "Tag")
    tstored = {x.attr for x in ast.walk(tdes.node) if isinstance(x, ast.Attribute) and isinstance(x.ctx, ast.Store)
               and dotted(x.value) == "self"}
    init = prog.func(OBJ, "Tag.__init__")
    istored = {x.attr for x in ast.walk(init.node) if isinstance(x, ast.Attribute) and isinstance(x.ctx, ast.Store)
               and dotted(x.value) == "self"}
    rep.ob("R01.3", OBJ, tdes.qual, "every attribute the serializer reads is stored by the parser or __init__",
           tfa <= (tstored | istored), f"missing: {sorted(tfa - tstored - istored)}", tdes.node.lineno)
    rep.ob("R01.3", OBJ, tdes.qual, "every attribute the parser stores is read by the serializer", tstored <= tfa,
           f"lost on rewrite: {sorted(tstored - tfa)}", tdes.node.lineno)
    # header constants are distinct and have the git spelling
    from sa.consts import Folder
    F = Folder(prog, m)
    REFERENCE = {"_TREE_HEADER": b"tree", "_PARENT_HEADER": b"parent", "_AUTHOR_HEADER": b"author",
                 "_COMMITTER_HEADER": b"committer", "_ENCODING_HEADER": b"encoding", "_MERGETAG_HEADER": b"mergetag",
                 "_GPGSIG_HEADER": b"gpgsig", "_OBJECT_HEADER": b"object", "_TYPE_HEADER": b"type", "_TAG_HEADER": b"tag",
                 "_TAGGER_HEADER": b"tagger"}
    for k, v in REFERENCE.items():
        got = F.try_fold(m.consts[k]) if k in m.consts else None
        rep.ob("R01.3", OBJ, k, f"header constant spells {v!r}", got == v, f"is {got!r}", m.consts[k].lineno if k in m.consts else 0)


def r01_5(prog: Program, rep):
    """Header folding: the writer prefixes each continuation line with exactly one space, the reader removes exactly
    that prefix (accepted idioms: line[k:] with k == len(prefix), removeprefix; stripping *all* leading spaces is the
    defect; any other shape is an analysis error)."""
    m = prog.module(OBJ)
    fm, pm = m.funcs.get("_format_message"), m.funcs.get("_parse_message")
    if fm is None or pm is None:
        raise AnalysisError("_format_message / _parse_message not found")
    prefix = None
    for y in ast.walk(fm.node):
        if isinstance(y, ast.Yield) and isinstance(y.value, ast.BinOp) and isinstance(y.value.op, ast.Add):
            left = y.value
            while isinstance(left, ast.BinOp):
                left = left.left
            if isinstance(left, ast.Constant) and isinstance(left.value, bytes) and left.value.strip(b" ") == b"" and left.value:
                prefix = left.value
    if prefix is None:
        raise AnalysisError("_format_message: continuation prefix not found")
    rep.ob("R01.5", OBJ, fm.qual, "continuation lines are written with a one-space prefix", prefix == b" ", f"prefix {prefix!r}", fm.node.lineno)
    verdict, why, line = None, "", pm.node.lineno
    for br in [x for x in ast.walk(pm.node) if isinstance(x, ast.If) and "startswith" in norm(x.test)]:
        tested = [c.value for c in ast.walk(br.test) if isinstance(c, ast.Constant) and isinstance(c.value, bytes)]
        if tested != [prefix]:
            continue
        for c in [c for s_ in br.body for c in ast.walk(s_) if isinstance(c, ast.Call) and isinstance(c.func, ast.Attribute) and c.func.attr in ("append", "extend")]:
            a = c.args[0]
            line = c.lineno
            if isinstance(a, ast.Subscript) and isinstance(a.slice, ast.Slice) and a.slice.upper is None and a.slice.lower is not None:
                k = a.slice.lower
                kv = k.value if isinstance(k, ast.Constant) else (len(prefix) if "len(" in norm(k) else None)
                verdict = kv == len(prefix)
                why = f"reader drops {kv} byte(s), writer added {len(prefix)}"
            elif isinstance(a, ast.Call) and isinstance(a.func, ast.Attribute) and a.func.attr == "removeprefix":
                verdict = True
            elif isinstance(a, ast.Call) and isinstance(a.func, ast.Attribute) and a.func.attr in ("lstrip", "strip"):
                verdict = False
                why = f"`{norm(a)}` removes every leading space, the writer added exactly one: indented lines of a folded header " \
                      f"(mergetag, multi-line extra header) lose their indentation and the object is rewritten with other bytes"
            else:
                raise AnalysisError(f"_parse_message: continuation handling `{norm(a, 60)}` is an idiom this rule does not know")
    if verdict is None:
        raise AnalysisError("_parse_message: continuation branch not found")
    rep.ob("R01.5", OBJ, pm.qual, "the reader removes exactly the continuation prefix the writer adds", verdict, why, line)
    # the writer folds a header value at exactly the byte the reader unfolds at (LF): split(b"\n"), never splitlines()
    from sa.common import exact_separator_discipline
    exact_separator_discipline(rep, "R01.5", m, skip=("Blob.splitlines",))
    seps = [c.args[0].value for c in ast.walk(fm.node) if isinstance(c, ast.Call) and isinstance(c.func, ast.Attribute) and c.func.attr == "split"
            and c.args and isinstance(c.args[0], ast.Constant)]
    rep.ob("R01.5", OBJ, fm.qual, "header values are folded at LF and nothing else", seps == [b"\n"], f"split separators: {seps}", fm.node.lineno)


def r01_4(prog: Program, rep):
    m = prog.module(OBJ)
    # who feeds serialize_tree
    n = 0
    for mod in prog.modules.values():
        for c in ast.walk(mod.tree):
            if isinstance(c, ast.Call) and callee_name(c) == "serialize_tree":
                f = mod.enclosing_func(c)
                a = c.args[0] if c.args else None
                ok = False
                if isinstance(a, ast.Call) and callee_name(a) == "iteritems":
                    no = arg_of(a, 0, "name_order")
                    ok = no is None or (isinstance(no, ast.Constant) and no.value is False)
                if isinstance(a, ast.Call) and callee_name(a) == "sorted_tree_items":
                    no = arg_of(a, 1, "name_order")
                    ok = isinstance(no, ast.Constant) and no.value is False
                n += 1
                rep.ob("R01.4", mod.rel, f.qual if f else "<module>", f"serialize_tree fed in tree order: {norm(c, 60)}", ok,
                       "tree bytes are produced from entries that did not pass the canonical ordering", c.lineno)
    if n < 1:
        raise AnalysisError("no call of serialize_tree found")
    it = prog.func(OBJ, "Tree.iteritems")
    src = norm(it.node, 10000)
    rep.ob("R01.4", OBJ, it.qual, "iteritems delegates to sorted_tree_items with its flag (default False)",
           "sorted_tree_items(self._entries, name_order)" in src and "name_order: bool=False" in src, "", it.node.lineno)
    sti = m.funcs.get("sorted_tree_items")
    src = norm(sti.node, 10000)
    # which key does sorted(...) get when name_order is false / true?  (if/else, conditional expression, either polarity)
    def key_under(flag: bool):
        keys = [k.value for c in ast.walk(sti.node) if isinstance(c, ast.Call) and callee_name(c) == "sorted" for k in c.keywords if k.arg == "key"]
        if len(keys) != 1:
            return None
        def pick(e):
            if isinstance(e, ast.IfExp):
                t = e.test
                neg = isinstance(t, ast.UnaryOp) and isinstance(t.op, ast.Not)
                t = t.operand if neg else t
                if isinstance(t, ast.Name) and t.id == "name_order":
                    return pick(e.body if (flag != neg) else e.orelse)
                return None
            if isinstance(e, ast.Name):
                # a local chosen by an if/else on name_order, or assigned once
                for x in ast.walk(sti.node):
                    if isinstance(x, ast.If):
                        t = x.test
                        neg = isinstance(t, ast.UnaryOp) and isinstance(t.op, ast.Not)
                        t = t.operand if neg else t
                        if isinstance(t, ast.Name) and t.id == "name_order":
                            arm = x.body if (flag != neg) else x.orelse
                            for st in arm:
                                if isinstance(st, ast.Assign) and isinstance(st.targets[0], ast.Name) and st.targets[0].id == e.id:
                                    return pick(st.value)
                defs = [st.value for st in ast.walk(sti.node) if isinstance(st, ast.Assign) and isinstance(st.targets[0], ast.Name) and st.targets[0].id == e.id]
                if len(defs) == 1:
                    return pick(defs[0])
                return e if not defs else None
            return e
        return pick(keys[0])
    kf, kt = key_under(False), key_under(True)
    rep.ob("R01.4", OBJ, "sorted_tree_items", "tree order (name_order false) sorts with key_entry, the directory-aware key",
           isinstance(kf, ast.Name) and kf.id == "key_entry", f"key when name_order is false: {norm(kf) if kf is not None else None}", sti.node.lineno)
    rep.ob("R01.4", OBJ, "sorted_tree_items", "name_order=True selects a plain-name key",
           kt is not None and not (isinstance(kt, ast.Name) and kt.id == "key_entry"), f"key when name_order is true: {norm(kt) if kt is not None else None}", sti.node.lineno)
    ke = m.funcs.get("key_entry")
    src = norm(ke.node, 10000)
    rep.ob("R01.4", OBJ, "key_entry", "appends '/' exactly when stat.S_ISDIR(mode)",
           "if stat.S_ISDIR(mode): name += b'/'" in src and src.count("+=") == 1, src[-120:], ke.node.lineno)
    # Rust twin
    rf = RustFile("crates/objects/src/lib.rs", prog.read_text("crates/objects/src/lib.rs"))
    rep.ob("R01.4", rf.rel, "S_IFDIR", "Rust S_IFDIR equals stat.S_IFDIR", rf.const_int("S_IFDIR") == pystat.S_IFDIR,
           f"{oct(rf.const_int('S_IFDIR'))}", rf.consts["S_IFDIR"][2])
    rep.ob("R01.4", rf.rel, "S_IFMT", "Rust S_IFMT equals stat.S_IFMT mask", rf.const_int("S_IFMT") == 0o170000,
           f"{oct(rf.const_int('S_IFMT'))}", rf.consts["S_IFMT"][2])
    cw = rf.fns.get("cmp_with_suffix")
    if cw is None:
        raise AnalysisError("Rust cmp_with_suffix not found")
    t = cw.text()
    both = t.count("& S_IFMT ) == S_IFDIR { b'/' } else { 0 }")
    rep.ob("R01.4", rf.rel, "cmp_with_suffix", "substitutes '/' for the end of a name exactly when (mode & S_IFMT) == S_IFDIR, both sides",
           both == 2, f"matched {both} of 2 sides", cw.line)
    sti_rs = rf.fns.get("sorted_tree_items")
    t = sti_rs.text()
    rep.ob("R01.4", rf.rel, "sorted_tree_items", "tree order uses cmp_with_suffix, name order plain comparison",
           "if name_order { qsort_entries . sort_by ( | a , b | a . 0 . cmp ( & b . 0 ) ) ; } else" in t
           and "cmp_with_suffix ( ( a . 1 , a . 0 . as_slice ( ) ) , ( b . 1 , b . 0 . as_slice ( ) ) )" in t, "", sti_rs.line)


def r01_6(prog: Program, rep):
    """Optional numeric fields are tested with `is None`: 0 is a valid time (the epoch) and a valid timezone (UTC), so a
    truthiness test in a serializer silently drops or rewrites the field for exactly those values."""
    m = prog.module(OBJ)
    n = 0
    for cname in concrete_classes(prog):
        cls = m.classes[cname].node
        numeric = set()
        for s_ in cls.body:
            if isinstance(s_, ast.AnnAssign) and isinstance(s_.target, ast.Name) and "int" in norm(s_.annotation):
                numeric.add(s_.target.id)
        props = class_props(prog, cname)
        for a in serialized_attrs(prog, cname):
            if a.endswith("_time") or a.endswith("_timezone"):
                numeric.add(a)
        public = {p_ for p_, back in props.items() if back in numeric}
        if not numeric:
            continue
        ser = prog.method(cname, "_serialize")
        if ser is None:
            continue

        def is_num_attr(e):
            return isinstance(e, ast.Attribute) and isinstance(e.value, ast.Name) and e.value.id == "self" and (e.attr in numeric or e.attr in public)
        tests = []
        for x in ast.walk(ser.node):
            if isinstance(x, (ast.If, ast.IfExp, ast.While)):
                tests.append(x.test)
            elif isinstance(x, ast.Assert):
                tests.append(x.test)
        bad = []
        for t in tests:
            stack = [t]
            while stack:
                e = stack.pop()
                if isinstance(e, ast.BoolOp):
                    stack.extend(e.values)
                elif isinstance(e, ast.UnaryOp) and isinstance(e.op, ast.Not):
                    stack.append(e.operand)
                elif is_num_attr(e):
                    bad.append(e)
        n += 1
        rep.ob("R01.6", OBJ, ser.qual, f"numeric fields ({', '.join(sorted(numeric))}) are tested with `is None`, never by truthiness", not bad,
               (f"`{norm(bad[0])}` is tested by truthiness: the value 0 (epoch / UTC) is treated as absent, the field is dropped or "
                f"rewritten and the object gets another id") if bad else "", bad[0].lineno if bad else ser.node.lineno)
    if n < 2:
        raise AnalysisError(f"expected >= 2 serializers with numeric fields (Commit, Tag), found {n}")


GIT_HEADER_ORDER = {
    # git's commit.c / tag.c write headers in this order; unknown (extra) headers sit after the known ones and before the
    # signature, which is always last
    "Commit": ["_TREE_HEADER", "_PARENT_HEADER", "_AUTHOR_HEADER", "_COMMITTER_HEADER", "_ENCODING_HEADER", "_MERGETAG_HEADER", "<extra>",
               "_GPGSIG_HEADER"],
    "Tag": ["_OBJECT_HEADER", "_TYPE_HEADER", "_TAG_HEADER", "_TAGGER_HEADER"],
}


def r01_7(prog: Program, rep):
    """Header ORDER is part of the bytes that are hashed: the serializers emit headers in git's order (frozen reference)."""
    m = prog.module(OBJ)
    for cname, want in GIT_HEADER_ORDER.items():
        ser = prog.method(cname, "_serialize")
        if ser is None:
            raise AnalysisError(f"{cname}._serialize not found")
        seq = []
        # emission events in program order: the literal the list starts from, then append / extend / insert calls
        events = []
        for x in ast.walk(ser.node):
            if isinstance(x, (ast.Assign, ast.AnnAssign)) and isinstance(getattr(x, "value", None), ast.List) and x.value.elts:
                for e in x.value.elts:
                    events.append((e.lineno, e.col_offset, "append", [e]))
            elif isinstance(x, ast.Call) and isinstance(x.func, ast.Attribute) and x.func.attr in ("append", "extend", "insert") and isinstance(x.func.value, ast.Name):
                events.append((x.lineno, x.col_offset, x.func.attr, list(x.args)))
        for _ln, _col, kind_, args_ in sorted(events, key=lambda t: (t[0], t[1])):
            c = type("E", (), {"args": args_, "func": type("F", (), {"attr": kind_})()})()
            consts = [x.id for a in c.args for x in ast.walk(a) if isinstance(x, ast.Name) and x.id.endswith("_HEADER")]
            if consts:
                tag = consts[0]
            elif any(isinstance(x, ast.Attribute) and x.attr in ("_extra", "extra") for a in c.args for x in ast.walk(a)):
                tag = "<extra>"
            else:
                continue
            if c.func.attr == "insert":
                tag = "insert:" + tag
            if not seq or seq[-1] != tag:
                seq.append(tag)
        rep.ob("R01.7", OBJ, ser.qual, f"headers are emitted in git's order ({' '.join(h.strip('_').replace('_HEADER', '').lower() for h in want)})",
               seq == want, f"emitted order: {seq}: a commit or tag that carries the reordered headers is rewritten with other bytes and gets "
               f"another id than git computes", ser.node.lineno)


def r01_9(prog: Program, rep):
    """SPELLING FLAGS belong to the parsed value.  The parser records that a timezone was spelled "-0000" in a `_*_timezone_neg_utc`
    flag which the serialiser consults.  Every such flag is cleared by the setter of the timezone it describes - otherwise
    `c.author_timezone = 3600` after parsing "-0000" serialises as "--100"."""
    m = prog.module(OBJ)
    flags = sorted({x.attr for x in ast.walk(m.tree) if isinstance(x, ast.Attribute) and x.attr.endswith("_timezone_neg_utc")})
    if len(flags) < 3:
        raise AnalysisError(f"expected >= 3 *_timezone_neg_utc flags in objects.py, found {flags}")
    props = {}
    for cls in [c for c in ast.walk(m.tree) if isinstance(c, ast.ClassDef)]:
        for s_ in cls.body:
            if isinstance(s_, ast.Assign) and isinstance(s_.targets[0], ast.Name) and s_.targets[0].id.endswith("_timezone") and isinstance(s_.value, ast.Call):
                props[s_.targets[0].id] = s_.value
    for fl in flags:
        zone = fl[1:-len("_neg_utc")]
        call = props.get(zone)
        cleared = call is not None and any(isinstance(k.value, ast.Constant) and k.value.value == fl for k in call.keywords) or any(
            isinstance(fn, ast.FunctionDef) and zone in fn.name and any(isinstance(a, ast.Assign) and norm(a.targets[0]).endswith(fl) for a in ast.walk(fn)) for fn in ast.walk(m.tree))
        rep.ob("R01.9", OBJ, zone, f"assigning {zone} clears {fl}", bool(cleared),
               f"the flag set by parsing '-0000' survives an assignment: the new offset is serialised with a doubled sign ('--100'), which git fsck rejects "
               f"(badTimezone), and equal field values give different ids", call.lineno if call is not None else 0)


def r01_10(prog: Program, rep):
    """A MISSING message is a value of its own.  _parse_message maps an object without the blank separator line to message=None;
    the writer must then not emit the separator, or re-serialising the parsed object appends a byte and renames it."""
    m = prog.module(OBJ)
    f = m.funcs.get("_format_message")
    if f is None:
        raise AnalysisError("objects._format_message not found")
    g = cfg_of(prog, f)
    sep = [i for i, n in g.nodes.items() if n.kind == "stmt" and any(isinstance(y, ast.Yield) and isinstance(y.value, ast.Constant) and y.value.value == b"\n" for y in ast.walk(n.ast))]
    if not sep:
        raise AnalysisError("_format_message: emission of the separator line not found")
    ps = [a.arg for a in f.node.args.args]
    body = ps[1] if len(ps) > 1 else "body"
    tests = [i for i, n in g.nodes.items() if n.kind == "test" and norm(n.ast) in (f"{body} is not None", f"{body} is None")]
    bad = must_pass(g, sep, tests)
    rep.ob("R01.10", OBJ, f.qual, "the separator line is emitted only when there is a message (None = no separator)", bool(tests) and not bad,
           "the separator is emitted unconditionally: an object parsed WITHOUT it (message None - git mktag produces that form, fsck accepts it) gets a byte "
           "appended and a new name as soon as any field is re-assigned, and None and b'' collapse to the same bytes", g.nodes[sep[0]].line)


def run(prog: Program, rep, tier="quick"):
    rep.rule("R01.7", "TABLE-AGREE with git: header emission order of Commit/Tag serializers (extra headers before gpgsig, signature last)")
    rep.rule("R01.6", "optional numeric fields (times, timezones) are tested with `is None` in the serializers: 0 is a value")
    rep.rule("R01.1", "NO-EVENT-IN-STATE: stores to serialised attributes are paired with invalidation of the cached id "
                      "on all paths (fresh receivers exempt by typestate)")
    rep.rule("R01.2", "cached hash returned only under a clear dirty flag; reset on re-serialise; only ShaFile reads _sha")
    rep.rule("R01.3", "TABLE-AGREE: Commit/Tag header sets of serializer and parser(s); unknown headers kept/refused; "
                      "parsed attributes == serialised attributes")
    rep.rule("R01.5", "TABLE-AGREE: header folding - the reader removes exactly the one-space prefix the writer adds")
    rep.rule("R01.4", "WHO-MAY + SIBLINGS-AGREE: single canonical tree ordering, Python key_entry == Rust cmp_with_suffix")
    rep.not_decided += ["parse(serialise(x)) == x over git's grammar", "byte equality with C git",
                        "timezone / identity edge cases", "header order preservation on rewrite"]
    rep.assumptions += ["attribute receivers other than `self` are followed only when they are plain local names"]
    r01_1(prog, rep)
    r01_2(prog, rep)
    r01_3(prog, rep)
    r01_4(prog, rep)
    r01_5(prog, rep)
    r01_6(prog, rep)
    r01_7(prog, rep)
    r01_9(prog, rep)
    r01_10(prog, rep)
    from sa.common import chunk_boundary_rule
    rep.rule("R01.10", "a missing message (None) is serialised without the separator line")
    rep.rule("R01.9", "timezone setters clear the '-0000' spelling flag left by the parser")
    rep.rule("R01.8", "CHUNKING: a blob's derived views do not depend on how its bytes are chunked (loops over chunk lists commute with concatenation)")
    chunk_boundary_rule(rep, "R01.8", prog.module("dulwich/objects.py"), floor=3)
    rep.floor("R01.1", 10)
    rep.floor("R01.2", 8)
    rep.floor("R01.3", 20)
    rep.floor("R01.4", 9)
