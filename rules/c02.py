"""C02 — pack index writer/reader layout agreement (the only part of C02 visible in the code's shape).

R02.1 field formats agree: per index version, the ordered sections the writer emits (struct format or raw
      name/checksum, per-entry / fan-out / once) match the reader's table offsets (linear forms in
      len(self) and hash_size) and unpack formats; header length == where the reader starts the fan-out.
R02.2 the large-offset threshold agrees: writer switches at 2**31 and stores 2**31 + index; reader tests
      & 2**31, masks with 2**31 - 1, scales by 8 and reads >Q.  v1 refuses offsets > 0xFFFFFFFF.
R02.3 trailer: writers end with pack checksum then running digest; readers slice with the digest width;
      Pack.data never hands out (or keeps) data before check_length_and_checksum passed.
"""
from __future__ import annotations

import ast
import struct

from sa.cfg import EXC_LABELS, node_calls, node_exprs
from sa.common import cfg_of
from sa.consts import Folder, Unfoldable
from sa.flow import must_pass, reach
from sa.load import AnalysisError, Program, callee_name, dotted, norm

PACK = "dulwich/pack.py"


def writer_sections(fn, F: Folder):
    """Ordered (context, kind, detail) for every write in an index writer."""
    out = []

    def ctx_of(stack):
        for s in reversed(stack):
            it = norm(s.iter)
            if "range(256)" in it or "range(0x100)" in it:
                return "fanout"
            if "largetable" in it:
                return "per-large"
            if "entries" in it:
                return "per-entry"
        return "once"

    def visit(stmts, stack):
        for s in stmts:
            if isinstance(s, ast.For):
                visit(s.body, stack + [s])
                continue
            if isinstance(s, ast.If):
                a = collect(s.body, stack)
                b = collect(s.orelse, stack)
                if a and b and [x[1:] for x in a] != [x[1:] for x in b]:
                    # both branches must emit the same layout
                    if [(x[1], x[2]) for x in a] == [(x[1], x[2]) for x in b]:
                        out.extend(a)
                    else:
                        out.extend(a + [("?",) + x[1:] for x in b])
                else:
                    out.extend(a or b)
                continue
            if isinstance(s, (ast.With, ast.Try)):
                visit(s.body, stack)
                continue
            out.extend(collect([s], stack))

    def collect(stmts, stack):
        res = []
        for s in stmts:
            if isinstance(s, (ast.For, ast.If, ast.With, ast.Try)):
                sub = []
                old = list(out)
                del out[:]
                visit([s], stack)
                sub = list(out)
                del out[:]
                out.extend(old)
                res.extend(sub)
                continue
            for c in [c for c in ast.walk(s) if isinstance(c, ast.Call) and isinstance(c.func, ast.Attribute) and c.func.attr == "write" and c.args]:
                a = c.args[0]
                ctx = ctx_of(stack)
                if isinstance(a, ast.Call) and dotted(a.func) == "struct.pack":
                    fmt = F.fold(a.args[0])
                    fmt = fmt.decode() if isinstance(fmt, bytes) else fmt
                    res.append((ctx, "fmt", fmt, norm(a.args[1], 40) if len(a.args) > 1 else ""))
                elif isinstance(a, ast.Constant) and isinstance(a.value, bytes):
                    res.append((ctx, "const", len(a.value), repr(a.value)))
                elif isinstance(a, ast.Name):
                    res.append((ctx, "raw", a.id, ""))
                else:
                    res.append((ctx, "expr", norm(a, 40), ""))
        return res
    visit(fn.node.body, [])
    return out


class Lin:
    """c + a*(hash_size*N) + b*N"""

    def __init__(self, c=0, a=0, b=0):
        self.c, self.a, self.b = c, a, b

    def __add__(self, o):
        return Lin(self.c + o.c, self.a + o.a, self.b + o.b)

    def tup(self):
        return (self.c, self.a, self.b)


def linear(e: ast.AST, env: dict, F: Folder) -> Lin:
    v = F.try_fold(e)
    if isinstance(v, int):
        return Lin(v)
    if isinstance(e, ast.Attribute) and dotted(e) and dotted(e).startswith("self.") and dotted(e)[5:] in env:
        return env[dotted(e)[5:]]
    if isinstance(e, ast.BinOp) and isinstance(e.op, ast.Add):
        return linear(e.left, env, F) + linear(e.right, env, F)
    if isinstance(e, ast.BinOp) and isinstance(e.op, ast.Mult):
        l, r = norm(e.left), norm(e.right)
        sides = {l, r}
        if "len(self)" in sides:
            other = (sides - {"len(self)"}).pop() if len(sides) == 2 else "len(self)"
            if other == "self.hash_size":
                return Lin(0, 1, 0)
            node = e.right if l == "len(self)" else e.left
            k = F.try_fold(node)
            if isinstance(k, int):
                return Lin(0, 0, k)
    raise AnalysisError(f"table offset expression not understood: {norm(e)}")


def run(prog: Program, rep, tier="quick"):
    rep.rule("R02.1", "TABLE-AGREE: index writer sections (order, width, byte order) vs reader table offsets and unpack formats, per version")
    rep.rule("R02.2", "large-offset threshold, mask, scale and format agree between writers and readers")
    rep.rule("R02.3", "trailer order and widths; Pack.data never keeps data that failed check_length_and_checksum")
    rep.not_decided += ["that any pack reads back equal", "delta resolution", "object header / offset varint arithmetic",
                        "LRU cache correctness", "agreement with C git"]
    m = prog.module(PACK)
    F = Folder(prog, m)

    def fn(name):
        f = m.funcs.get(name)
        if f is None:
            raise AnalysisError(f"{PACK}:{name} not found")
        return f
    # ---------------- v1
    w1 = fn("write_pack_index_v1")
    s1 = writer_sections(w1, F)
    exp1 = [("fanout", "fmt", ">L"), ("per-entry", "fmt", ">L20s"), ("once", "raw", "pack_checksum")]
    got1 = [x[:3] for x in s1]
    rep.ob("R02.1", PACK, w1.qual, "v1 writer sections: fan-out >L, entries >L20s, pack checksum", got1 == exp1, f"{got1}", w1.node.lineno)
    r1 = fn("PackIndex1._unpack_entry")
    src = norm(r1.node, 10000)
    rep.ob("R02.1", PACK, r1.qual, "v1 reader: entry at 256*4 + i*(4+hash), offset >L first, then name",
           "256 * 4 + i * self._entry_size" in src and "unpack_from('>L'" in src and "base_offset + 4:base_offset + 4 + self.hash_size" in src.replace(" : ", ":").replace(" :", ":").replace(": ", ":"),
           src[-200:], r1.node.lineno)
    i1 = fn("PackIndex1.__init__")
    src = norm(i1.node, 10000)
    rep.ob("R02.1", PACK, i1.qual, "v1 reader: fan-out at 0, entry size 4 + hash", "_read_fan_out_table(0)" in src and "self._entry_size = 4 + self.hash_size" in src, "", i1.node.lineno)
    # ---------------- v2 / v3
    for ver, wname, cname, hdr_expected in ((2, "write_pack_index_v2", "PackIndex2", 8), (3, "write_pack_index_v3", "PackIndex3", 16)):
        w = fn(wname)
        secs = writer_sections(w, F)
        once_before = []
        for x in secs:
            if x[0] != "once":
                break
            once_before.append(x)
        hdr = 0
        for ctx, kind, d, _ in once_before:
            hdr += d if kind == "const" else struct.calcsize(d) if kind == "fmt" else 10 ** 6
        rest = [x[:3] for x in secs[len(once_before):]]
        exp = [("fanout", "fmt", ">L"), ("per-entry", "raw", "name"), ("per-entry", "fmt", ">L"), ("per-entry", "fmt", ">L"),
               ("per-large", "fmt", ">Q"), ("once", "raw", "pack_checksum")]
        # the offset section has two branches with the same format: collapse duplicates that follow each other
        coll = []
        for x in rest:
            if coll and coll[-1] == x and x == ("per-entry", "fmt", ">L") and coll.count(x) >= 2:
                continue
            coll.append(x)
        rep.ob("R02.1", PACK, w.qual, f"v{ver} writer sections in order: fan-out >L, names, crc >L, offsets >L, large >Q, pack checksum",
               coll == exp, f"{coll}", w.node.lineno)
        rep.ob("R02.1", PACK, w.qual, f"v{ver} header is {hdr_expected} bytes", hdr == hdr_expected, f"{hdr} bytes from {once_before}", w.node.lineno)
        magic = [x for x in once_before if x[1] == "const"]
        init = fn(f"{cname}.__init__")
        rmagic = [c.value for c in ast.walk(init.node) if isinstance(c, ast.Constant) and isinstance(c.value, bytes) and len(c.value) == 4]
        rep.ob("R02.1", PACK, init.qual, f"v{ver} magic agrees", bool(magic) and bool(rmagic) and repr(rmagic[0]) == magic[0][3], f"{magic} vs {rmagic}", init.node.lineno)
        # reader offsets
        env = {}
        fan = None
        for s in ast.walk(init.node):
            if isinstance(s, ast.Assign) and isinstance(s.targets[0], ast.Attribute) and dotted(s.targets[0]).startswith("self._") \
                    and dotted(s.targets[0]).endswith("_offset"):
                env[dotted(s.targets[0])[5:]] = linear(s.value, env, F)
            if isinstance(s, ast.Call) and callee_name(s) == "_read_fan_out_table":
                fan = F.try_fold(s.args[0])
        rep.ob("R02.1", PACK, init.qual, f"v{ver} reader starts the fan-out right after the header", fan == hdr, f"fan-out at {fan}, header {hdr}", init.node.lineno)
        want = {"_name_table_offset": (hdr + 1024, 0, 0), "_crc32_table_offset": (hdr + 1024, 1, 0),
                "_pack_offset_table_offset": (hdr + 1024, 1, 4), "_pack_offset_largetable_offset": (hdr + 1024, 1, 8)}
        got = {k: v.tup() for k, v in env.items()}
        rep.ob("R02.1", PACK, init.qual, f"v{ver} reader table offsets follow the writer's section widths", got == want, f"{got}", init.node.lineno)
        for meth, fmts, base in (("_unpack_offset", [">L", ">Q"], "_pack_offset_table_offset"), ("_unpack_crc32_checksum", [">L"], "_crc32_table_offset")):
            f = fn(f"{cname}.{meth}")
            got_f = []
            for c in sorted([c for c in ast.walk(f.node) if isinstance(c, ast.Call) and callee_name(c) == "unpack_from"], key=lambda c: c.lineno):
                v = F.fold(c.args[0])
                got_f.append(v.decode() if isinstance(v, bytes) else v)
            rep.ob("R02.1", PACK, f.qual, f"unpack formats {fmts} from self.{base} + i*4", got_f == fmts and f"self.{base} + i * 4" in norm(f.node, 10000),
                   f"{got_f}", f.node.lineno)
        f = fn(f"{cname}._unpack_name")
        rep.ob("R02.1", PACK, f.qual, "names at name table + i*hash_size, hash_size wide",
               "self._name_table_offset + i * self.hash_size" in norm(f.node, 10000) and "offset + self.hash_size" in norm(f.node, 10000), "", f.node.lineno)
        # ---- R02.2
        thr_w = set()
        for x in ast.walk(w.node):
            if isinstance(x, ast.Compare) and isinstance(x.left, ast.Name) and x.left.id == "offset":
                thr_w.add((type(x.ops[0]).__name__, F.try_fold(x.comparators[0])))
        marks = [F.try_fold(c.args[1].left) for c in ast.walk(w.node) if isinstance(c, ast.Call) and dotted(c.func) == "struct.pack"
                 and len(c.args) == 2 and isinstance(c.args[1], ast.BinOp) and "largetable" in norm(c.args[1])]
        rep.ob("R02.2", PACK, w.qual, "writer switches to the large table at offset >= 2**31 and stores 2**31 + index",
               thr_w == {("Lt", 2 ** 31)} and marks == [2 ** 31], f"tests {thr_w} marks {marks}", w.node.lineno)
        f = fn(f"{cname}._unpack_offset")
        ands = [F.try_fold(x.right) for x in ast.walk(f.node) if isinstance(x, ast.BinOp) and isinstance(x.op, ast.BitAnd)]
        mults = [F.try_fold(x.right) for x in ast.walk(f.node) if isinstance(x, ast.BinOp) and isinstance(x.op, ast.Mult)
                 and any(isinstance(y, ast.BinOp) and isinstance(y.op, ast.BitAnd) for y in ast.walk(x.left))]
        rep.ob("R02.2", PACK, f.qual, "reader tests & 2**31, masks & (2**31 - 1), scales by 8",
               sorted(a for a in ands if a is not None) == [2 ** 31 - 1, 2 ** 31] and mults == [8], f"ands {ands} mults {mults}", f.node.lineno)
    v1_refuse = any(isinstance(x, ast.Compare) and F.try_fold(x.comparators[0]) == 0xFFFFFFFF for x in ast.walk(w1.node))
    rep.ob("R02.2", PACK, w1.qual, "v1 writer refuses offsets > 0xFFFFFFFF", v1_refuse, "", w1.node.lineno)
    # ---------------- R02.3
    for wname in ("write_pack_index_v1", "write_pack_index_v2", "write_pack_index_v3"):
        w = fn(wname)
        secs = writer_sections(w, F)
        last_write_is_checksum = bool(secs) and secs[-1][:3] == ("once", "raw", "pack_checksum")
        ret = [r for r in ast.walk(w.node) if isinstance(r, ast.Return) and isinstance(r.value, ast.Call) and callee_name(r.value) in ("write_sha", "write_hash")]
        rep.ob("R02.3", PACK, w.qual, "last write is the pack checksum, then the running digest", last_write_is_checksum and len(ret) == 1, "", w.node.lineno)
    for cname, width in (("FilePackIndex", "20"), ("PackIndex2", "checksum_size")):
        gp, gs = fn(f"{cname}.get_pack_checksum"), fn(f"{cname}.get_stored_checksum")
        a, b = norm(gp.node, 10000).replace(" ", ""), norm(gs.node, 10000).replace(" ", "")
        if width == "20":
            ok = "[-40:-20]" in a and "[-20:]" in b
        else:
            ok = "[-2*checksum_size:-checksum_size]" in a and "[-checksum_size:]" in b
        rep.ob("R02.3", PACK, f"{cname}.get_pack_checksum / get_stored_checksum", "trailer slices are (pack checksum, index checksum) of digest width", ok, "", gp.node.lineno)
    pd = fn("Pack.data")
    g = cfg_of(prog, pd)
    chk = [i for i, n in g.nodes.items() for c in node_calls(n) if callee_name(c) == "check_length_and_checksum"]
    store = [i for i, n in g.nodes.items() if n.kind == "stmt" and isinstance(n.ast, ast.Assign) and dotted(n.ast.targets[0]) == "self._data"
             and not (isinstance(n.ast.value, ast.Constant) and n.ast.value.value is None)]
    reset = {i for i, n in g.nodes.items() if n.kind == "stmt" and isinstance(n.ast, ast.Assign) and dotted(n.ast.targets[0]) == "self._data"
             and isinstance(n.ast.value, ast.Constant) and n.ast.value.value is None}
    rep.ob("R02.3", PACK, pd.qual, "freshly loaded data is checked before it is returned",
           bool(chk) and bool(store) and not must_pass(g, [g.exit_normal], chk, start=[b for s in store for b, l in g.succ[s] if l not in EXC_LABELS]),
           "", pd.node.lineno)
    # no exceptional exit after the store keeps the unchecked data cached
    after_store = [b for s in store for b, l in g.succ[s] if l not in EXC_LABELS]
    exc_from_check = [b for c in chk for b, l in g.succ[c] if l in EXC_LABELS]
    bad = must_pass(g, [g.exit_raise], reset, start=exc_from_check) if exc_from_check else []
    rep.ob("R02.3", PACK, pd.qual, "data that failed the check is not kept cached", not bad,
           "self._data is assigned before check_length_and_checksum() and stays assigned when the check raises: the next "
           "access returns the unchecked pack data", pd.node.lineno)
    cl = fn("Pack.check_length_and_checksum")
    src = norm(cl.node, 10000)
    rep.ob("R02.3", PACK, cl.qual, "index length and stored pack checksum are compared with the data's",
           "len(self.index) == len(self.data)" in src and "get_pack_checksum()" in src and "get_stored_checksum()" in src and "ChecksumMismatch" in src, "", cl.node.lineno)
    rep.floor("R02.1", 18)
    rep.floor("R02.2", 5)
    rep.floor("R02.3", 8)
