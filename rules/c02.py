"""C02 — pack index writer/reader layout agreement (the only part of C02 visible in the code's shape).

R02.1 field formats agree: per index version, the ordered sections the writer emits (struct format or raw
      name/checksum, per-entry / fan-out / once) match the reader's table offsets (linear forms in
      len(self) and hash_size) and unpack formats; header length == where the reader starts the fan-out.
R02.2 the large-offset threshold agrees: writer switches at 2**31 and stores 2**31 + index; reader tests
      & 2**31, masks with 2**31 - 1, scales by 8 and reads >Q.  v1 refuses offsets > 0xFFFFFFFF.
R02.3 trailer: writers end with pack checksum then running digest; readers slice with the digest width;
      Pack.data never hands out (or keeps) data before check_length_and_checksum passed.
R02.4 object-header codec: pack_object_header's bit fields (type << 4 | size & 15, then 7-bit groups with 0x80
      continuation) are the ones _decode_object_header / take_msb_bytes(_at) take apart; the OFS_DELTA offset
      varint encoder and decoder are both git's offset encoding (msb first, bias one) and offset 0 is refused.
R02.5 OFS_DELTA direction: the writer stores `own offset - base offset` for a base it has already written
      (PackChunkGenerator.entries hit), every reader computes `own offset - delta`; entries[sha] is recorded with
      the offset *before* it is advanced, and every yielded chunk enters the crc32, the trailer digest and the
      offset.
R02.6 per-object CRC / compressed-chunk bookkeeping of the zlib readers: the bytes zlib hands back as unused are cut off
      with `x[:-n]`, which is only right for n > 0 (`x[:-0]` is empty): every such slice in a function that reads
      `.unused_data` is reachable only through the true edge of a non-emptiness test of the unused bytes (or n > 0).
"""
from __future__ import annotations

import ast
import struct

from sa.cfg import EXC_LABELS, node_calls, node_exprs
from sa.common import cfg_of
from sa.consts import Folder, Unfoldable
from sa.flow import must_pass, reach
from sa.load import AnalysisError, Program, callee_name, dotted, norm

PACK = "dulwich/pack.py"


def writer_sections(fn, F: Folder):
    """Ordered (context, kind, detail) for every write in an index writer."""
    out = []

    def ctx_of(stack):
        for s in reversed(stack):
            it = norm(s.iter)
            if "range(256)" in it or "range(0x100)" in it:
                return "fanout"
            if "largetable" in it:
                return "per-large"
            if "entries" in it:
                return "per-entry"
        return "once"

    def visit(stmts, stack):
        for s in stmts:
            if isinstance(s, ast.For):
                visit(s.body, stack + [s])
                continue
            if isinstance(s, ast.If):
                a = collect(s.body, stack)
                b = collect(s.orelse, stack)
                if a and b and [x[1:] for x in a] != [x[1:] for x in b]:
                    # both branches must emit the same layout
                    if [(x[1], x[2]) for x in a] == [(x[1], x[2]) for x in b]:
                        out.extend(a)
                    else:
                        out.extend(a + [("?",) + x[1:] for x in b])
                else:
                    out.extend(a or b)
                continue
            if isinstance(s, (ast.With, ast.Try)):
                visit(s.body, stack)
                continue
            out.extend(collect([s], stack))

    def collect(stmts, stack):
        res = []
        for s in stmts:
            if isinstance(s, (ast.For, ast.If, ast.With, ast.Try)):
                sub = []
                old = list(out)
                del out[:]
                visit([s], stack)
                sub = list(out)
                del out[:]
                out.extend(old)
                res.extend(sub)
                continue
            for c in [c for c in ast.walk(s) if isinstance(c, ast.Call) and isinstance(c.func, ast.Attribute) and c.func.attr == "write" and c.args]:
                a = c.args[0]
                ctx = ctx_of(stack)
                if isinstance(a, ast.Call) and dotted(a.func) == "struct.pack":
                    fmt = F.fold(a.args[0])
                    fmt = fmt.decode() if isinstance(fmt, bytes) else fmt
                    res.append((ctx, "fmt", fmt, norm(a.args[1], 40) if len(a.args) > 1 else ""))
                elif isinstance(a, ast.Constant) and isinstance(a.value, bytes):
                    res.append((ctx, "const", len(a.value), repr(a.value)))
                elif isinstance(a, ast.Name):
                    res.append((ctx, "raw", a.id, ""))
                else:
                    res.append((ctx, "expr", norm(a, 40), ""))
        return res
    visit(fn.node.body, [])
    return out


class Lin:
    """c + a*(hash_size*N) + b*N"""

    def __init__(self, c=0, a=0, b=0):
        self.c, self.a, self.b = c, a, b

    def __add__(self, o):
        return Lin(self.c + o.c, self.a + o.a, self.b + o.b)

    def tup(self):
        return (self.c, self.a, self.b)


def linear(e: ast.AST, env: dict, F: Folder) -> Lin:
    v = F.try_fold(e)
    if isinstance(v, int):
        return Lin(v)
    if isinstance(e, ast.Attribute) and dotted(e) and dotted(e).startswith("self.") and dotted(e)[5:] in env:
        return env[dotted(e)[5:]]
    if isinstance(e, ast.BinOp) and isinstance(e.op, ast.Add):
        return linear(e.left, env, F) + linear(e.right, env, F)
    if isinstance(e, ast.BinOp) and isinstance(e.op, ast.Mult):
        l, r = norm(e.left), norm(e.right)
        sides = {l, r}
        if "len(self)" in sides:
            other = (sides - {"len(self)"}).pop() if len(sides) == 2 else "len(self)"
            if other == "self.hash_size":
                return Lin(0, 1, 0)
            node = e.right if l == "len(self)" else e.left
            k = F.try_fold(node)
            if isinstance(k, int):
                return Lin(0, 0, k)
    raise AnalysisError(f"table offset expression not understood: {norm(e)}")


def run(prog: Program, rep, tier="quick"):
    rep.rule("R02.1", "TABLE-AGREE: index writer sections (order, width, byte order) vs reader table offsets and unpack formats, per version")
    rep.rule("R02.2", "large-offset threshold, mask, scale and format agree between writers and readers")
    rep.rule("R02.3", "trailer order and widths; Pack.data never keeps data that failed check_length_and_checksum")
    rep.not_decided += ["that any pack reads back equal", "delta resolution", "object header / offset varint arithmetic",
                        "LRU cache correctness", "agreement with C git"]
    m = prog.module(PACK)
    F = Folder(prog, m)

    def fn(name):
        f = m.funcs.get(name)
        if f is None:
            raise AnalysisError(f"{PACK}:{name} not found")
        return f
    # ---------------- v1
    w1 = fn("write_pack_index_v1")
    s1 = writer_sections(w1, F)
    exp1 = [("fanout", "fmt", ">L"), ("per-entry", "fmt", ">L20s"), ("once", "raw", "pack_checksum")]
    got1 = [x[:3] for x in s1]
    rep.ob("R02.1", PACK, w1.qual, "v1 writer sections: fan-out >L, entries >L20s, pack checksum", got1 == exp1, f"{got1}", w1.node.lineno)
    r1 = fn("PackIndex1._unpack_entry")
    src = norm(r1.node, 10000)
    rep.ob("R02.1", PACK, r1.qual, "v1 reader: entry at 256*4 + i*(4+hash), offset >L first, then name",
           "256 * 4 + i * self._entry_size" in src and "unpack_from('>L'" in src and "base_offset + 4:base_offset + 4 + self.hash_size" in src.replace(" : ", ":").replace(" :", ":").replace(": ", ":"),
           src[-200:], r1.node.lineno)
    i1 = fn("PackIndex1.__init__")
    src = norm(i1.node, 10000)
    rep.ob("R02.1", PACK, i1.qual, "v1 reader: fan-out at 0, entry size 4 + hash", "_read_fan_out_table(0)" in src and "self._entry_size = 4 + self.hash_size" in src, "", i1.node.lineno)
    # ---------------- v2 / v3
    for ver, wname, cname, hdr_expected in ((2, "write_pack_index_v2", "PackIndex2", 8), (3, "write_pack_index_v3", "PackIndex3", 16)):
        w = fn(wname)
        secs = writer_sections(w, F)
        once_before = []
        for x in secs:
            if x[0] != "once":
                break
            once_before.append(x)
        hdr = 0
        for ctx, kind, d, _ in once_before:
            hdr += d if kind == "const" else struct.calcsize(d) if kind == "fmt" else 10 ** 6
        rest = [x[:3] for x in secs[len(once_before):]]
        exp = [("fanout", "fmt", ">L"), ("per-entry", "raw", "name"), ("per-entry", "fmt", ">L"), ("per-entry", "fmt", ">L"),
               ("per-large", "fmt", ">Q"), ("once", "raw", "pack_checksum")]
        # the offset section has two branches with the same format: collapse duplicates that follow each other
        coll = []
        for x in rest:
            if coll and coll[-1] == x and x == ("per-entry", "fmt", ">L") and coll.count(x) >= 2:
                continue
            coll.append(x)
        rep.ob("R02.1", PACK, w.qual, f"v{ver} writer sections in order: fan-out >L, names, crc >L, offsets >L, large >Q, pack checksum",
               coll == exp, f"{coll}", w.node.lineno)
        rep.ob("R02.1", PACK, w.qual, f"v{ver} header is {hdr_expected} bytes", hdr == hdr_expected, f"{hdr} bytes from {once_before}", w.node.lineno)
        magic = [x for x in once_before if x[1] == "const"]
        init = fn(f"{cname}.__init__")
        rmagic = [c.value for c in ast.walk(init.node) if isinstance(c, ast.Constant) and isinstance(c.value, bytes) and len(c.value) == 4]
        rep.ob("R02.1", PACK, init.qual, f"v{ver} magic agrees", bool(magic) and bool(rmagic) and repr(rmagic[0]) == magic[0][3], f"{magic} vs {rmagic}", init.node.lineno)
        # reader offsets
        env = {}
        fan = None
        for s in ast.walk(init.node):
            if isinstance(s, ast.Assign) and isinstance(s.targets[0], ast.Attribute) and dotted(s.targets[0]).startswith("self._") \
                    and dotted(s.targets[0]).endswith("_offset"):
                env[dotted(s.targets[0])[5:]] = linear(s.value, env, F)
            if isinstance(s, ast.Call) and callee_name(s) == "_read_fan_out_table":
                fan = F.try_fold(s.args[0])
        rep.ob("R02.1", PACK, init.qual, f"v{ver} reader starts the fan-out right after the header", fan == hdr, f"fan-out at {fan}, header {hdr}", init.node.lineno)
        want = {"_name_table_offset": (hdr + 1024, 0, 0), "_crc32_table_offset": (hdr + 1024, 1, 0),
                "_pack_offset_table_offset": (hdr + 1024, 1, 4), "_pack_offset_largetable_offset": (hdr + 1024, 1, 8)}
        got = {k: v.tup() for k, v in env.items()}
        rep.ob("R02.1", PACK, init.qual, f"v{ver} reader table offsets follow the writer's section widths", got == want, f"{got}", init.node.lineno)
        for meth, fmts, base in (("_unpack_offset", [">L", ">Q"], "_pack_offset_table_offset"), ("_unpack_crc32_checksum", [">L"], "_crc32_table_offset")):
            f = fn(f"{cname}.{meth}")
            got_f = []
            for c in sorted([c for c in ast.walk(f.node) if isinstance(c, ast.Call) and callee_name(c) == "unpack_from"], key=lambda c: c.lineno):
                v = F.fold(c.args[0])
                got_f.append(v.decode() if isinstance(v, bytes) else v)
            rep.ob("R02.1", PACK, f.qual, f"unpack formats {fmts} from self.{base} + i*4", got_f == fmts and f"self.{base} + i * 4" in norm(f.node, 10000),
                   f"{got_f}", f.node.lineno)
        f = fn(f"{cname}._unpack_name")
        rep.ob("R02.1", PACK, f.qual, "names at name table + i*hash_size, hash_size wide",
               "self._name_table_offset + i * self.hash_size" in norm(f.node, 10000) and "offset + self.hash_size" in norm(f.node, 10000), "", f.node.lineno)
        # ---- R02.2
        thr_w = set()
        for x in ast.walk(w.node):
            if isinstance(x, ast.Compare) and isinstance(x.left, ast.Name) and x.left.id == "offset":
                thr_w.add((type(x.ops[0]).__name__, F.try_fold(x.comparators[0])))
        marks = [F.try_fold(c.args[1].left) for c in ast.walk(w.node) if isinstance(c, ast.Call) and dotted(c.func) == "struct.pack"
                 and len(c.args) == 2 and isinstance(c.args[1], ast.BinOp) and "largetable" in norm(c.args[1])]
        rep.ob("R02.2", PACK, w.qual, "writer switches to the large table at offset >= 2**31 and stores 2**31 + index",
               thr_w == {("Lt", 2 ** 31)} and marks == [2 ** 31], f"tests {thr_w} marks {marks}", w.node.lineno)
        f = fn(f"{cname}._unpack_offset")
        ands = [F.try_fold(x.right) for x in ast.walk(f.node) if isinstance(x, ast.BinOp) and isinstance(x.op, ast.BitAnd)]
        mults = [F.try_fold(x.right) for x in ast.walk(f.node) if isinstance(x, ast.BinOp) and isinstance(x.op, ast.Mult)
                 and any(isinstance(y, ast.BinOp) and isinstance(y.op, ast.BitAnd) for y in ast.walk(x.left))]
        rep.ob("R02.2", PACK, f.qual, "reader tests & 2**31, masks & (2**31 - 1), scales by 8",
               sorted(a for a in ands if a is not None) == [2 ** 31 - 1, 2 ** 31] and mults == [8], f"ands {ands} mults {mults}", f.node.lineno)
    v1_refuse = any(isinstance(x, ast.Compare) and F.try_fold(x.comparators[0]) == 0xFFFFFFFF for x in ast.walk(w1.node))
    rep.ob("R02.2", PACK, w1.qual, "v1 writer refuses offsets > 0xFFFFFFFF", v1_refuse, "", w1.node.lineno)
    # ---------------- R02.3
    for wname in ("write_pack_index_v1", "write_pack_index_v2", "write_pack_index_v3"):
        w = fn(wname)
        secs = writer_sections(w, F)
        last_write_is_checksum = bool(secs) and secs[-1][:3] == ("once", "raw", "pack_checksum")
        ret = [r for r in ast.walk(w.node) if isinstance(r, ast.Return) and isinstance(r.value, ast.Call) and callee_name(r.value) in ("write_sha", "write_hash")]
        rep.ob("R02.3", PACK, w.qual, "last write is the pack checksum, then the running digest", last_write_is_checksum and len(ret) == 1, "", w.node.lineno)
    for cname, width in (("FilePackIndex", "20"), ("PackIndex2", "checksum_size")):
        gp, gs = fn(f"{cname}.get_pack_checksum"), fn(f"{cname}.get_stored_checksum")
        a, b = norm(gp.node, 10000).replace(" ", ""), norm(gs.node, 10000).replace(" ", "")
        if width == "20":
            ok = "[-40:-20]" in a and "[-20:]" in b
        else:
            ok = "[-2*checksum_size:-checksum_size]" in a and "[-checksum_size:]" in b
        rep.ob("R02.3", PACK, f"{cname}.get_pack_checksum / get_stored_checksum", "trailer slices are (pack checksum, index checksum) of digest width", ok, "", gp.node.lineno)
    pd = fn("Pack.data")
    g = cfg_of(prog, pd)
    chk = [i for i, n in g.nodes.items() for c in node_calls(n) if callee_name(c) == "check_length_and_checksum"]
    store = [i for i, n in g.nodes.items() if n.kind == "stmt" and isinstance(n.ast, ast.Assign) and dotted(n.ast.targets[0]) == "self._data"
             and not (isinstance(n.ast.value, ast.Constant) and n.ast.value.value is None)]
    reset = {i for i, n in g.nodes.items() if n.kind == "stmt" and isinstance(n.ast, ast.Assign) and dotted(n.ast.targets[0]) == "self._data"
             and isinstance(n.ast.value, ast.Constant) and n.ast.value.value is None}
    rep.ob("R02.3", PACK, pd.qual, "freshly loaded data is checked before it is returned",
           bool(chk) and bool(store) and not must_pass(g, [g.exit_normal], chk, start=[b for s in store for b, l in g.succ[s] if l not in EXC_LABELS]),
           "", pd.node.lineno)
    # no exceptional exit after the store keeps the unchecked data cached
    after_store = [b for s in store for b, l in g.succ[s] if l not in EXC_LABELS]
    exc_from_check = [b for c in chk for b, l in g.succ[c] if l in EXC_LABELS]
    bad = must_pass(g, [g.exit_raise], reset, start=exc_from_check) if exc_from_check else []
    rep.ob("R02.3", PACK, pd.qual, "data that failed the check is not kept cached", not bad,
           "self._data is assigned before check_length_and_checksum() and stays assigned when the check raises: the next "
           "access returns the unchecked pack data", pd.node.lineno)
    cl = fn("Pack.check_length_and_checksum")
    src = norm(cl.node, 10000)
    rep.ob("R02.3", PACK, cl.qual, "index length and stored pack checksum are compared with the data's",
           "len(self.index) == len(self.data)" in src and "get_pack_checksum()" in src and "get_stored_checksum()" in src and "ChecksumMismatch" in src, "", cl.node.lineno)
    r02_4(prog, rep, m, F, fn)
    r02_5(prog, rep, m, F, fn)
    r02_6(prog, rep, m, F)
    r02_7(prog, rep, m, F, fn)
    r02_8(prog, rep, m, F, fn)
    r02_9(prog, rep, m, F, fn)
    rep.floor("R02.1", 18)
    rep.floor("R02.2", 5)
    rep.floor("R02.3", 8)
    rep.floor("R02.4", 9)
    rep.floor("R02.5", 8)
    rep.floor("R02.6", 3)


def _binops(node, op):
    return [x for x in ast.walk(node) if isinstance(x, ast.BinOp) and isinstance(x.op, op)]


def r02_4(prog, rep, m, F, fn):
    rep.rule("R02.4", "TABLE-AGREE: object header bit fields and the OFS_DELTA offset varint agree between pack_object_header and the decoders")
    w = fn("pack_object_header")
    # writer: first byte
    first = [x for x in _binops(w.node, ast.BitOr) if isinstance(x.left, ast.BinOp) and isinstance(x.left.op, ast.LShift) and "type" in norm(x.left.left)]
    w_type_shift = F.try_fold(first[0].left.right) if first else None
    w_low_mask = F.try_fold(first[0].right.right) if first and isinstance(first[0].right, ast.BinOp) and isinstance(first[0].right.op, ast.BitAnd) else None
    # statements before the OFS branch only (the size loop)
    size_part = [s for s in w.node.body if not (isinstance(s, ast.If) and "OFS_DELTA" in norm(s.test))]
    shifts = [F.try_fold(s.value) for st in size_part for s in ast.walk(st) if isinstance(s, ast.AugAssign) and isinstance(s.op, ast.RShift) and norm(s.target) == "size"]
    masks = [F.try_fold(x.right) for st in size_part for x in _binops(st, ast.BitAnd) if norm(x.left) == "size"]
    conts = [F.try_fold(x.right) for st in size_part for x in _binops(st, ast.BitOr) if isinstance(x.right, ast.Constant)]
    rep.ob("R02.4", PACK, w.qual, "writer: first byte = type << 4 | size & 15, then size >>= 4, groups size & 0x7F with size >>= 7, continuation 0x80",
           w_type_shift == 4 and w_low_mask == 15 and shifts == [4, 7] and sorted(masks) == [15, 127] and conts == [0x80],
           f"type shift {w_type_shift}, low mask {w_low_mask}, size shifts {shifts}, masks {masks}, continuation {conts}", w.node.lineno)
    r = fn("_decode_object_header")
    t = [x for x in _binops(r.node, ast.BitAnd) if isinstance(x.left, ast.BinOp) and isinstance(x.left.op, ast.RShift)]
    r_type_shift = F.try_fold(t[0].left.right) if t else None
    r_type_mask = F.try_fold(t[0].right) if t else None
    # names that are plain aliases of the first header byte (`first = raw[0]`)
    first_alias = {s_.targets[0].id for s_ in ast.walk(r.node) if isinstance(s_, ast.Assign) and isinstance(s_.targets[0], ast.Name)
                   and isinstance(s_.value, ast.Subscript) and norm(s_.value).endswith("[0]")}
    is_first = lambda e_: norm(e_).endswith("[0]") or (isinstance(e_, ast.Name) and e_.id in first_alias)
    t = [x for x in _binops(r.node, ast.BitAnd) if isinstance(x.left, ast.BinOp) and isinstance(x.left.op, ast.RShift) and is_first(x.left.left)] or t
    r_type_shift = F.try_fold(t[0].left.right) if t else None
    r_type_mask = F.try_fold(t[0].right) if t else None
    lows = [F.try_fold(x.right) for x in _binops(r.node, ast.BitAnd) if is_first(x.left)]
    grp = [x for x in _binops(r.node, ast.LShift) if isinstance(x.left, ast.BinOp) and isinstance(x.left.op, ast.BitAnd)]
    g_mask = F.try_fold(grp[0].left.right) if grp else None
    # shift expression must be linear i*7 + 4
    lin = None
    if grp:
        e = grp[0].right
        mul = [F.try_fold(y.right) if isinstance(y.right, ast.Constant) else F.try_fold(y.left) for y in _binops(e, ast.Mult)]
        add = [F.try_fold(y.right) for y in _binops(e, ast.Add)]
        lin = (mul[0] if mul else None, add[0] if add else None)
    starts_at_1 = any(isinstance(x, ast.Subscript) and isinstance(x.slice, ast.Slice) and F.try_fold(x.slice.lower) == 1 and x.slice.upper is None for x in ast.walk(r.node))
    rep.ob("R02.4", PACK, r.qual, "reader: type = (b0 >> 4) & 7, size = b0 & 15 + sum((b & 0x7F) << (7*i + 4)) over the bytes after the first",
           r_type_shift == 4 and r_type_mask == 7 and lows == [15] and g_mask == 127 and lin == (7, 4) and starts_at_1,
           f"type shift {r_type_shift} mask {r_type_mask}, low {lows}, group mask {g_mask}, shift form {lin}, raw[1:] {starts_at_1}", r.node.lineno)
    rep.ob("R02.4", PACK, "pack_object_header / _decode_object_header", "writer and reader agree on type shift, low-size width and group width",
           w_type_shift == r_type_shift and w_low_mask == (lows[0] if lows else None) and shifts[1:] == [lin[0] if lin else None] and (shifts[:1] == [lin[1] if lin else None]),
           f"writer ({w_type_shift},{w_low_mask},{shifts}) reader ({r_type_shift},{lows},{lin})", w.node.lineno)
    types = sorted(v for k, v in ((k, F.try_fold(ast.Name(id=k, ctx=ast.Load()))) for k in ("OFS_DELTA", "REF_DELTA")) if isinstance(v, int))
    rep.ob("R02.4", PACK, r.qual, "the type mask keeps every pack type number (1..7) and OFS_DELTA/REF_DELTA are 6 and 7", r_type_mask == 7 and types == [6, 7],
           f"mask {r_type_mask}, delta types {types}", r.node.lineno)
    for name in ("take_msb_bytes", "take_msb_bytes_at"):
        f = fn(name)
        loops = [x for x in ast.walk(f.node) if isinstance(x, ast.While)]
        ok = len(loops) == 1 and any(F.try_fold(b.right) == 0x80 and norm(b.left).endswith("[-1]") for b in _binops(loops[0].test, ast.BitAnd)) \
            and "len(ret) == 0" in norm(loops[0].test)
        rep.ob("R02.4", PACK, f.qual, "header bytes are taken while the last byte has the writer's continuation bit 0x80 (at least one)", ok,
               norm(loops[0].test) if loops else "no loop", f.node.lineno)
    for name in ("unpack_object", "unpack_object_at"):
        f = fn(name)
        src = norm(f.node, 100000)
        br = [x for x in ast.walk(f.node) if isinstance(x, ast.If) and norm(x.test) == "type_num == OFS_DELTA"]
        ok = bool(br) and any(callee_name(c) == "_decode_delta_base_offset" for s in br[0].body for c in ast.walk(s) if isinstance(c, ast.Call)) \
            and any(callee_name(c) in ("take_msb_bytes", "take_msb_bytes_at") for s in br[0].body for c in ast.walk(s) if isinstance(c, ast.Call)) \
            and "_decode_object_header(raw)" in src
        ref = [x for x in ast.walk(f.node) if isinstance(x, ast.If) and norm(x.test) == "type_num == REF_DELTA"]
        # the base name is as long as the hash: the size of the read/slice in this branch derives from the hash, it is not a literal
        HASHY = ("hash_size", "hash_func", "digest", "oid_length", "hash_len", "object_format")
        ok_ref = bool(ref) and any(h_ in norm(ref[0], 2000) for h_ in HASHY) and not any(
            isinstance(c, ast.Call) and callee_name(c) in ("read_all", "read_some", "read") and c.args and isinstance(c.args[0], ast.Constant) for c in ast.walk(ref[0]))
        rep.ob("R02.4", PACK, f.qual, "OFS_DELTA reads a second msb-terminated group and decodes it with the offset codec; REF_DELTA reads hash_size bytes",
               ok and ok_ref, "", f.node.lineno)
    # offset varint: canonical features of git's varint.c offset encoding
    d = fn("_decode_delta_base_offset")
    acc_shift = any(isinstance(x, ast.AugAssign) and isinstance(x.op, ast.LShift) and F.try_fold(x.value) == 7 for x in ast.walk(d.node))
    bias = any(isinstance(x, ast.AugAssign) and isinstance(x.op, ast.Add) and F.try_fold(x.value) == 1 for x in ast.walk(d.node))
    order_ok = False
    for lp in [x for x in ast.walk(d.node) if isinstance(x, ast.For)]:
        kinds = []
        for s in lp.body:
            if isinstance(s, ast.AugAssign):
                kinds.append("bias" if isinstance(s.op, ast.Add) and F.try_fold(s.value) == 1 else "shift" if isinstance(s.op, ast.LShift) else
                             "add" if isinstance(s.op, ast.Add) and "& 127" in norm(s.value).replace("0x7F", "127").replace("0x7f", "127") else "?")
        order_ok = kinds == ["bias", "shift", "add"]
    dmask = sorted(F.try_fold(x.right) for x in _binops(d.node, ast.BitAnd))
    # the per-byte update, composed into one expression whatever way it is spelled: ((acc + 1) << 7) + (b & 0x7F)
    from sa.common import compose_update, expr_key
    upd_ok, upd_txt = False, "no loop"
    for lp in [x for x in ast.walk(d.node) if isinstance(x, ast.For) and isinstance(x.target, ast.Name)]:
        accs = {s_.target.id for s_ in lp.body if isinstance(s_, ast.AugAssign) and isinstance(s_.target, ast.Name)} | \
               {s_.targets[0].id for s_ in lp.body if isinstance(s_, ast.Assign) and isinstance(s_.targets[0], ast.Name)}
        for acc in accs:
            e_ = compose_update(lp.body, acc)
            upd_txt = expr_key(e_, F)
            want = f"Add(BitAnd(127,{lp.target.id}),LShift(Add(1,{acc}),7))"
            upd_ok = upd_ok or upd_txt == want
    rep.ob("R02.4", PACK, d.qual, "offset decoder: acc = b0 & 0x7F; per byte: acc += 1; acc <<= 7; acc += b & 0x7F (git's offset varint)",
           upd_ok and dmask == [127, 127, 128], f"per-byte update composes to {upd_txt}; masks {dmask}", d.node.lineno)
    zero = any(isinstance(x, ast.If) and norm(x.test) in ("delta_base_offset == 0", "not delta_base_offset", "delta_base_offset <= 0")
               and any(isinstance(y, ast.Raise) for y in x.body) for x in ast.walk(d.node))
    rep.ob("R02.4", PACK, d.qual, "an OFS_DELTA whose offset is 0 (its own base) is refused", zero, "", d.node.lineno)
    ofs = [s for s in w.node.body if isinstance(s, ast.If) and "OFS_DELTA" in norm(s.test)]
    ok = False
    det = "no OFS_DELTA branch"
    if ofs:
        b = ofs[0]
        e_first = any(isinstance(x, ast.Assign) and isinstance(x.value, ast.List) and len(x.value.elts) == 1 and "& 127" in norm(x.value.elts[0]).replace("0x7F", "127") for x in b.body)
        wl = [x for x in b.body if isinstance(x, ast.While)]
        from sa.common import compose_update, expr_key
        emit_ok = upd_ok = order_ok = False
        emit_txt = upd_txt = "?"
        if wl and isinstance(wl[0].test, ast.Name):
            var = wl[0].test.id
            body = wl[0].body
            # the statement that emits a group: <list>.insert(0, X) (prepend) or <list>.append(X) (then reversed when used)
            for k, s_ in enumerate(body):
                if isinstance(s_, ast.Expr) and isinstance(s_.value, ast.Call) and isinstance(s_.value.func, ast.Attribute) and s_.value.func.attr in ("insert", "append"):
                    c_ = s_.value
                    lst = norm(c_.func.value)
                    if c_.func.attr == "insert":
                        x_ = c_.args[1] if len(c_.args) == 2 and F.try_fold(c_.args[0]) == 0 else None
                        order_ok = x_ is not None
                    else:
                        x_ = c_.args[0] if c_.args else None
                        order_ok = any(isinstance(y, ast.Call) and callee_name(y) == "reversed" and y.args and norm(y.args[0]) == lst for y in ast.walk(b)) or \
                            any(isinstance(y, ast.Subscript) and norm(y.value) == lst and norm(y.slice).replace(" ", "") == "::-1" for y in ast.walk(b))
                    if x_ is None:
                        continue
                    # value of the variable at the time of the emission = composition of the statements before it
                    at = compose_update(body[:k], var)
                    import copy as _copy

                    class _S(ast.NodeTransformer):
                        def visit_Name(self, node):
                            return _copy.deepcopy(at) if (at is not None and node.id == var and isinstance(node.ctx, ast.Load)) else node
                    emit_txt = expr_key(_S().visit(_copy.deepcopy(x_)), F)
                    emit_ok = emit_txt == f"BitOr(128,BitAnd(127,Sub({var},1)))"
            upd_txt = expr_key(compose_update(body, var), F)
            upd_ok = upd_txt == f"RShift(Sub({var},1),7)"
        pre_shift = any(isinstance(x, ast.AugAssign) and isinstance(x.op, ast.RShift) and F.try_fold(x.value) == 7 for x in b.body)
        ok = e_first and emit_ok and upd_ok and order_ok and pre_shift and bool(wl)
        det = f"first group {e_first}, emitted group {emit_txt}, loop update {upd_txt}, most significant group first {order_ok}, initial shift {pre_shift}"
    rep.ob("R02.4", PACK, w.qual, "offset encoder: low 7 bits last; while rest: rest -= 1; prepend 0x80 | rest & 0x7F; rest >>= 7 (inverse of the decoder)", ok, det, w.node.lineno)


def r02_5(prog, rep, m, F, fn):
    rep.rule("R02.5", "SIBLINGS-AGREE: OFS_DELTA base = own offset - delta at every reader; writer stores own offset - base offset for an already written base")
    g = fn("PackChunkGenerator._pack_data_chunks")
    node = g.node
    # CFG formulation (independent of how the three-way choice is spelled): L = the lookup `<base>, _ = self.entries[<delta base>]`;
    # a statement that uses the constant OFS_DELTA as a value is reachable only after L succeeded (never from L's exception
    # edge without passing L again), one that uses REF_DELTA is reachable from that exception edge, and the distance is
    # `offset - <base>`
    gg = cfg_of(prog, g)
    look = [i for i, n in gg.nodes.items() if n.kind == "stmt" and isinstance(n.ast, ast.Assign) and isinstance(n.ast.value, ast.Subscript)
            and norm(n.ast.value.value) == "self.entries" and "delta_base" in norm(n.ast.value.slice)]
    base_var = None
    if look:
        t0 = gg.nodes[look[0]].ast.targets[0]
        base_var = t0.elts[0].id if isinstance(t0, ast.Tuple) and isinstance(t0.elts[0], ast.Name) else (t0.id if isinstance(t0, ast.Name) else None)

    def uses_const(n, cname):
        a_ = n.ast
        if n.kind != "stmt" or not isinstance(a_, (ast.Assign, ast.Return, ast.AnnAssign)) or getattr(a_, "value", None) is None:
            return False
        return any(isinstance(x, ast.Name) and x.id == cname and isinstance(x.ctx, ast.Load) for x in ast.walk(a_.value))
    ofs = [i for i, n in gg.nodes.items() if uses_const(n, "OFS_DELTA")]
    refd = [i for i, n in gg.nodes.items() if uses_const(n, "REF_DELTA")]
    fail = [b_ for i in look for b_, l in gg.succ[i] if l in EXC_LABELS]
    okk = [b_ for i in look for b_, l in gg.succ[i] if l not in EXC_LABELS]
    from_fail = reach(gg, fail, avoid=set(look), include_srcs=True) if fail else set()
    no_look = reach(gg, [gg.entry], avoid=set(look), include_srcs=True)
    dist = [i for i, n in gg.nodes.items() for e in node_exprs(n) for x in ast.walk(e) if isinstance(x, ast.BinOp) and isinstance(x.op, ast.Sub)
            and norm(x) == f"offset - {base_var}"]
    ok = bool(look) and len(ofs) >= 1 and not any(i in from_fail or i in no_look for i in ofs) and any(i in from_fail for i in refd) \
        and bool(dist) and not any(i in from_fail or i in no_look for i in dist)
    det = f"lookup {bool(look)} (base `{base_var}`), OFS_DELTA uses {len(ofs)} (reachable without a successful lookup: " \
          f"{[gg.nodes[i].line for i in ofs if i in from_fail or i in no_look]}), REF_DELTA after a failed lookup: {any(i in from_fail for i in refd)}, distance `offset - {base_var}`: {bool(dist)}"
    rep.ob("R02.5", PACK, g.qual, "OFS_DELTA is chosen only when the base is already in self.entries, with distance `offset - base_offset`; otherwise REF_DELTA", ok, det, node.lineno)
    # entries recorded before the offset advances, inside the record loop
    loop = [lp for lp in ast.walk(node) if isinstance(lp, ast.For) and norm(lp.iter) in ("enumerate(records)", "records")]
    ok = False
    det = "record loop not found"
    if loop:
        body = loop[0].body
        idx_store = [i for i, s in enumerate(body) if isinstance(s, ast.Assign) and norm(s.targets[0]).startswith("self.entries[") and norm(s.value) == "(offset, crc32)"]
        idx_adv = [i for i, s in enumerate(body) if isinstance(s, ast.AugAssign) and norm(s.target) == "offset"]
        adv_ok = len(idx_adv) == 1 and isinstance(body[idx_adv[0]].op, ast.Add) and norm(body[idx_adv[0]].value) == "object_size"
        ok = len(idx_store) == 1 and adv_ok and idx_store[0] < idx_adv[0] and "unpacked.sha()" in norm(body[idx_store[0]].targets[0])
        det = f"store at stmt {idx_store}, advance at stmt {idx_adv} ({adv_ok})"
    rep.ob("R02.5", PACK, g.qual, "entries[unpacked.sha()] = (offset, crc32) is recorded with the object's start offset, then offset += object_size", ok, det, node.lineno)
    # every yield in the function is accounted: crc32 (inside the object loop), cs.update, offset/object_size
    ys = [y for y in ast.walk(node) if isinstance(y, ast.Yield)]
    bad = []
    for y in ys:
        st = m.enclosing_stmt(y)
        par = m.parents.get(st)
        sibs = getattr(par, "body", [])
        if st not in sibs:
            sibs = getattr(par, "orelse", []) if st in getattr(par, "orelse", []) else sibs
        v = norm(y.value) if y.value is not None else ""
        blk = [norm(s) for s in sibs]
        upd = any(f"self.cs.update({v})" in b for b in blk)
        ln = any(b in (f"offset += len({v})", f"object_size += len({v})") for b in blk)
        if "digest" in v:
            continue
        if not v or not upd:
            bad.append(f"line {y.lineno}: yield {v} without self.cs.update")
        elif not ln:
            bad.append(f"line {y.lineno}: yield {v} not counted in the offset")
    crc = [lp for lp in ast.walk(node) if isinstance(lp, ast.For) and norm(lp.iter) == "chunks"]
    crc_ok = bool(crc) and any(norm(s) == "crc32 = binascii.crc32(chunk, crc32)" for s in crc[0].body) \
        and any(isinstance(s, ast.Assign) and norm(s) == "crc32 = 0" for s in (loop[0].body if loop else []))
    rep.ob("R02.5", PACK, g.qual, "every yielded chunk is fed to the trailer digest and counted in the offset; object chunks also enter a crc32 reset per object",
           not bad and crc_ok and len(ys) >= 3, "; ".join(bad) or f"crc loop ok {crc_ok}, yields {len(ys)}", node.lineno)
    # readers
    n_sites = 0
    for q, f in sorted(m.funcs.items()):
        if q in ("pack_object_header", "unpack_object", "unpack_object_at", g.qual) or ".<locals>." in q:
            continue
        for br in [x for x in ast.walk(f.node) if isinstance(x, ast.If) and "== OFS_DELTA" in norm(x.test) and m.enclosing_func(x) is f]:
            # `a - b` and (canonical form of `a = a - b`) `a -= b` alike: (left, op, right)
            ar = [(x, x.left, x.op, x.right) for s in br.body for x in ast.walk(s) if isinstance(x, ast.BinOp)] + \
                 [(x, x.target, x.op, x.value) for s in br.body for x in ast.walk(s) if isinstance(x, ast.AugAssign)]
            ar = [t for t in ar if isinstance(t[2], (ast.Add, ast.Sub)) and any(k in norm(t[3]) or k in norm(t[1]) for k in ("delta_base", "delta_offset"))]
            if not ar:
                continue
            n_sites += 1
            for x, left, op, right in ar:
                good = isinstance(op, ast.Sub) and any(k in norm(right) for k in ("delta_base", "delta_offset")) and "offset" in norm(left) \
                    and not any(k in norm(left) for k in ("delta_base", "delta_offset"))
                rep.ob("R02.5", PACK, q, f"OFS_DELTA base computed as own offset minus the stored distance: `{norm(x, 60)}`", good,
                       "the writer stores `offset - base_offset`; any other combination resolves the delta against a different object", x.lineno)
    if n_sites < 4:
        raise AnalysisError(f"expected >= 4 OFS_DELTA base computations, found {n_sites}")


def r02_6(prog, rep, m, F):
    from sa.common import var_cmp
    rep.rule("R02.6", "zlib readers: trimming the unused tail with x[:-n] only under a test that the tail is non-empty (x[:-0] is empty, "
                      "so the last slice would drop out of the per-object CRC and the kept compressed chunks)")
    n_sites = 0
    for q, f in sorted(m.funcs.items()):
        if not any(isinstance(x, ast.Attribute) and x.attr == "unused_data" for x in ast.walk(f.node)):
            continue
        g = cfg_of(prog, f)
        # names bound from .unused_data, and lengths of them
        unused_names = {s_.targets[0].id for s_ in ast.walk(f.node) if isinstance(s_, ast.Assign) and isinstance(s_.targets[0], ast.Name)
                        and isinstance(s_.value, ast.Attribute) and s_.value.attr == "unused_data"}

        def is_unused(e):
            return (isinstance(e, ast.Name) and e.id in unused_names) or (isinstance(e, ast.Attribute) and e.attr == "unused_data")
        len_names = {s_.targets[0].id for s_ in ast.walk(f.node) if isinstance(s_, ast.Assign) and isinstance(s_.targets[0], ast.Name)
                     and isinstance(s_.value, ast.Call) and callee_name(s_.value) == "len" and s_.value.args and is_unused(s_.value.args[0])}
        # every definition of a length name is such a len()
        for s_ in ast.walk(f.node):
            if isinstance(s_, (ast.Assign, ast.AugAssign)):
                t = s_.targets[0] if isinstance(s_, ast.Assign) else s_.target
                if isinstance(t, ast.Name) and t.id in len_names and not (isinstance(s_, ast.Assign) and isinstance(s_.value, ast.Call)
                                                                          and callee_name(s_.value) == "len" and s_.value.args and is_unused(s_.value.args[0])):
                    len_names.discard(t.id)
        guards = {}
        for i, n in g.nodes.items():
            if n.kind != "test":
                continue
            e = n.ast
            if is_unused(e) or (isinstance(e, ast.Name) and e.id in len_names):
                guards[i] = "true"
            elif isinstance(e, ast.Call) and callee_name(e) == "len" and e.args and is_unused(e.args[0]):
                guards[i] = "true"
            else:
                v = var_cmp(e, F)
                if v is not None and ((isinstance(v[0], ast.Name) and v[0].id in len_names) or
                                      (isinstance(v[0], ast.Call) and callee_name(v[0]) == "len" and v[0].args and is_unused(v[0].args[0]))):
                    if (v[1], v[2]) in ((">", 0), (">=", 1), ("!=", 0)):
                        guards[i] = "true"
                    elif (v[1], v[2]) in (("==", 0), ("<=", 0), ("<", 1)):
                        guards[i] = "false"
        r = reach(g, [g.entry], include_srcs=True, edge_ok=lambda a, b, l: not (a in guards and l == guards[a]))
        for i, n in g.nodes.items():
            for e in node_exprs(n):
                for sub in [x for x in ast.walk(e) if isinstance(x, ast.Subscript) and isinstance(x.slice, ast.Slice)
                            and isinstance(x.slice.upper, ast.UnaryOp) and isinstance(x.slice.upper.op, ast.USub)
                            and not isinstance(x.slice.upper.operand, ast.Constant)]:
                    n_sites += 1
                    amount = x_ = sub.slice.upper.operand
                    known = (isinstance(x_, ast.Name) and x_.id in len_names) or \
                        (isinstance(x_, ast.Call) and callee_name(x_) == "len" and x_.args and is_unused(x_.args[0]))
                    rep.ob("R02.6", PACK, q, f"`{norm(sub, 40)}`: the trimmed amount is the length of the unused tail and the slice is "
                           f"reached only when that tail is non-empty", known and bool(guards) and i not in r,
                           f"`{norm(sub, 40)}` is reachable with `{norm(amount)}` == 0 (a zlib stream that ends exactly at the end of "
                           f"the bytes fed in): x[:-0] is empty, so the whole last slice is left out of the CRC32 / compressed "
                           f"chunks and the index dulwich writes disagrees with the pack", sub.lineno)
    if n_sites < 3:
        raise AnalysisError(f"expected >= 3 unused-tail trims in the zlib readers, found {n_sites}")


def r02_7(prog, rep, m, F, fn):
    """Stream reader bookkeeping.  (1) PackStreamReader.read is the EXACT read: what is missing after the buffered bytes comes
    from read_all (read_some may return fewer bytes: a short object name or trailer), and the amount is `size` minus the
    buffered length measured BEFORE the buffer is drained.  recv is the at-most read and uses read_some.  (2) per-object CRCs
    are running values: every crc32 update in a function that carries a running crc32 passes it on."""
    rep.rule("R02.7", "stream reader: exact reads use read_all with the pre-drain buffer length; crc32 updates always continue the running value")
    rd = fn("PackStreamReader.read")
    rv = fn("PackStreamReader.recv")
    for f, want in ((rd, "self.read_all"), (rv, "self.read_some")):
        calls = [c for c in ast.walk(f.node) if isinstance(c, ast.Call) and dotted(c.func) == "self._read"]
        rep.ob("R02.7", PACK, f.qual, f"the underlying read of {f.name}() is {want}", bool(calls) and all(c.args and dotted(c.args[0]) == want for c in calls),
               f"{[norm(c, 50) for c in calls]}: read_some may return fewer bytes than asked for (socket recv): a 20-byte base name or the "
               f"trailer comes back short and a valid pack is rejected", f.node.lineno)
    g = cfg_of(prog, rd)
    drain = [i for i, n in g.nodes.items() if n.kind == "stmt" and ((isinstance(n.ast, ast.Assign) and dotted(n.ast.targets[0]) == "self._rbuf")
                                                                    or any(dotted(c.func) == "self._rbuf.read" and not c.args for c in node_calls(n)))]
    after = reach(g, [b for d in drain for b, l in g.succ[d] if l not in EXC_LABELS], include_srcs=True) if drain else set()
    late = [i for i in after if any(dotted(c.func) == "self._buf_len" for c in node_calls(g.nodes[i])) and i not in drain]
    # a drain statement that itself measures the buffer after an earlier drain
    late += [d for d in drain if d in after and any(dotted(c.func) == "self._buf_len" for c in node_calls(g.nodes[d]))]
    rep.ob("R02.7", PACK, rd.qual, "the buffered length is measured before the buffer is drained", bool(drain) and not late,
           "self._buf_len() is evaluated after the buffer was emptied (always 0): the read asks for `size` more bytes instead of the "
           "missing ones and swallows the beginning of the next field", g.nodes[late[0]].line if late else rd.node.lineno)
    n = 0
    for q, f in sorted(m.funcs.items()):
        upd = [c for c in ast.walk(f.node) if isinstance(c, ast.Call) and dotted(c.func) == "binascii.crc32" and m.enclosing_func(c) is f]
        if not upd:
            continue
        params_ = {a.arg for a in f.node.args.args + f.node.args.kwonlyargs}
        for c in upd:
            par = m.parents.get(c)
            tgt = par.targets[0].id if isinstance(par, ast.Assign) and isinstance(par.targets[0], ast.Name) else None
            if tgt is None:
                continue
            # a running value: the target is also a parameter, or is assigned somewhere else in the function as well
            others = [x for x in ast.walk(f.node) if isinstance(x, (ast.Assign, ast.AnnAssign)) and x is not par
                      and any(isinstance(t_, ast.Name) and t_.id == tgt for t_ in ast.walk(x.targets[0] if isinstance(x, ast.Assign) else x.target))]
            if tgt not in params_ and not others:
                continue
            n += 1
            ok = len(c.args) >= 2 and (tgt is None or (isinstance(c.args[1], ast.Name) and c.args[1].id == tgt))
            rep.ob("R02.7", PACK, q, f"`{norm(c, 50)}` continues the running crc32", ok,
                   "the checksum is restarted here: the bytes folded in so far (the object header) are lost and the CRC recorded in the "
                   "index disagrees with the pack (git verify-pack rejects the index)", c.lineno)
    if n < 6:
        raise AnalysisError(f"expected >= 6 running crc32 updates in pack.py, found {n}")


def r02_9(prog, rep, m, F, fn):
    """(a) completing a thin pack asks the store for pending REF_DELTA bases in PACK ORDER (a sort key derived from the positions
    of the waiting deltas), not in order of their names - a base that is itself a delta of this pack must be resolved in the
    pack first, or it is appended a second time; (b) an object listed twice is written once: the header count and the index
    (keyed by name) come from the de-duplicated list."""
    rep.rule("R02.9", "thin-pack completion visits pending bases in pack order; objects listed twice are written once (count = number of distinct names)")
    w = fn("DeltaChainIterator._walk_ref_chains")
    srt = [c for c in ast.walk(w.node) if isinstance(c, ast.Call) and callee_name(c) == "sorted" and "_pending_ref" in norm(c)]
    keyed = [c for c in srt if any(k.arg == "key" for k in c.keywords)]
    rep.ob("R02.9", PACK, w.qual, "pending external bases are visited in pack order (sorted with a position key), not by name", bool(keyed) or not srt,
           "sorted(self._pending_ref.items()) orders by object NAME: a base that is itself a delta in the pack and that the receiver already has is fetched from "
           "the store when its name sorts before its own base's, and extend_pack appends it again - git verify-pack rejects the completed pack (duplicate base)",
           (srt or [w.node])[0].lineno)
    p = fn("pack_objects_to_data")
    cnt = [s_ for s_ in ast.walk(p.node) if isinstance(s_, ast.Assign) and isinstance(s_.targets[0], ast.Name) and s_.targets[0].id == "count"]
    ded = any(isinstance(c, ast.Call) and (callee_name(c) in ("set", "dict", "setdefault") or (isinstance(c.func, ast.Attribute) and c.func.attr in ("add", "setdefault", "fromkeys")))
              for c in ast.walk(p.node) if getattr(c, "lineno", 10 ** 9) <= (cnt[0].lineno if cnt else 0))
    rep.ob("R02.9", PACK, p.qual, "repeated objects are dropped before the header count is taken", bool(cnt) and ded,
           "count = len(objects) counts an object listed twice twice, the index (a dict keyed by name) has it once: dulwich cannot open the pack it wrote "
           "(length mismatch) and git rejects it", (cnt or [p.node])[0].lineno)
    om = prog.module("dulwich/object_store.py")
    ao = om.funcs.get("PackBasedObjectStore.add_objects")
    if ao is None:
        raise AnalysisError("object_store.PackBasedObjectStore.add_objects not found")
    cnt = [s_ for s_ in ast.walk(ao.node) if isinstance(s_, ast.Assign) and isinstance(s_.targets[0], ast.Name) and s_.targets[0].id == "count"]
    raw = [s_ for s_ in cnt if norm(s_.value) == "len(objects)"]
    rep.ob("R02.9", om.rel, ao.qual, "the count handed to add_pack_data is that of the distinct objects", bool(cnt) and not raw,
           "one blob at two paths is written twice into the pack: git verify-pack reports 'the same object appears twice in the pack'", (cnt or [ao.node])[0].lineno)


def r02_8(prog, rep, m, F, fn):
    """Three structural necessary conditions around deltas and the trailer:
    (1) extend_pack: every object appended to a thin pack is written THROUGH the running digest that becomes the new trailer;
    (2) find_reusable_deltas: a stored delta is reused only behind membership tests of its base (in the pack or on the peer);
    (3) Pack.resolve_object: every hop of the chain walk re-binds the current offset (an OFS hop is relative to it, and results
        are cached under the offsets collected on the way)."""
    rep.rule("R02.8", "appended bases enter the trailer digest; deltas are reused only behind a membership test of their base; every chain hop re-binds the offset")
    ep = fn("extend_pack")
    dig = [s_.value.func.value.id for s_ in ast.walk(ep.node) if isinstance(s_, ast.Assign) and isinstance(s_.value, ast.Call) and isinstance(s_.value.func, ast.Attribute)
           and s_.value.func.attr == "digest" and isinstance(s_.value.func.value, ast.Name)]
    wcalls = [c for c in ast.walk(ep.node) if isinstance(c, ast.Call) and callee_name(c) == "write_pack_object"]
    wdef = m.funcs.get("write_pack_object")
    sha_pos = [a.arg for a in wdef.node.args.args].index("sha") if wdef and "sha" in [a.arg for a in wdef.node.args.args] else None
    def passes_digest(c):
        kw = {k.arg: k.value for k in c.keywords}
        v = kw.get("sha")
        if v is None and sha_pos is not None and len(c.args) > sha_pos:
            v = c.args[sha_pos]
        return isinstance(v, ast.Name) and v.id in dig
    rep.ob("R02.8", PACK, ep.qual, "every appended object is written through the digest that becomes the trailer", bool(dig) and bool(wcalls) and all(passes_digest(c) for c in wcalls),
           f"digest variable(s) {dig}; a write_pack_object call does not receive it: the trailer (and the index) carry a checksum that does "
           f"not cover the appended bases - git verify-pack / index-pack reject the pack", wcalls[0].lineno if wcalls else ep.node.lineno)
    trailer = any(isinstance(c, ast.Call) and isinstance(c.func, ast.Attribute) and c.func.attr == "write" and c.args and isinstance(c.args[0], ast.Name)
                  and any(isinstance(s_, ast.Assign) and isinstance(s_.targets[0], ast.Name) and s_.targets[0].id == c.args[0].id and isinstance(s_.value, ast.Call)
                          and isinstance(s_.value.func, ast.Attribute) and s_.value.func.attr == "digest" for s_ in ast.walk(ep.node)) for c in ast.walk(ep.node))
    rep.ob("R02.8", PACK, ep.qual, "the digest is written as the trailer", trailer, "", ep.node.lineno)
    fr = fn("find_reusable_deltas")
    g = cfg_of(prog, fr)
    ys = [i for i, n in g.nodes.items() for e in node_exprs(n) for y in ast.walk(e) if isinstance(y, ast.Yield)]
    base_vars = {s_.targets[0].id for s_ in ast.walk(fr.node) if isinstance(s_, ast.Assign) and isinstance(s_.targets[0], ast.Name) and "delta_base" in norm(s_.value)}
    memb = {i for i, n in g.nodes.items() if n.kind == "test" and isinstance(n.ast, ast.Compare) and len(n.ast.ops) == 1 and isinstance(n.ast.ops[0], ast.In)
            and (("delta_base" in norm(n.ast.left)) or (isinstance(n.ast.left, ast.Name) and n.ast.left.id in base_vars))}
    r_ = reach(g, [g.entry], include_srcs=True, edge_ok=lambda a, b, l: not (a in memb and l == "true"))
    rep.ob("R02.8", PACK, fr.qual, "a delta is handed out for reuse only on the true side of a membership test of its base", bool(ys) and len(memb) >= 2 and not any(y in r_ for y in ys),
           "a stored delta can be reused without its base having been found in the pack or among the peer's objects (a bare truthiness test of the "
           "set?): the pack carries a ref-delta nobody can resolve", g.nodes[ys[0]].line if ys else fr.node.lineno)
    ro = fn("Pack.resolve_object")
    g = cfg_of(prog, ro)
    loops = [w for w in ast.walk(ro.node) if isinstance(w, ast.While) and "DELTA_TYPES" in norm(w.test)]
    if not loops:
        raise AnalysisError("Pack.resolve_object: delta chain loop not found")
    w = loops[0]
    inner = {id(x) for x in ast.walk(w)}
    # the variable the OFS arm subtracts from
    subs = [x for x in ast.walk(w) if (isinstance(x, ast.AugAssign) and isinstance(x.op, ast.Sub)) or
            (isinstance(x, ast.Assign) and isinstance(x.value, ast.BinOp) and isinstance(x.value.op, ast.Sub))]
    cur = next((norm(x.target) if isinstance(x, ast.AugAssign) else norm(x.targets[0]) for x in subs if "delta" in norm(x)), None)
    if cur is None:
        raise AnalysisError("Pack.resolve_object: the offset the OFS_DELTA arm subtracts from was not found")
    rebind = {i for i, n in g.nodes.items() if n.kind == "stmt" and id(n.ast) in inner and isinstance(n.ast, (ast.Assign, ast.AugAssign))
              and any(isinstance(t_, ast.Name) and t_.id == cur and isinstance(t_.ctx, ast.Store) for t_ in ast.walk(n.ast.targets[0] if isinstance(n.ast, ast.Assign) else n.ast.target))}
    tests = [i for i, n in g.nodes.items() if n.kind == "test" and n.ast is not None and (n.ast is w.test or any(x is n.ast for x in ast.walk(w.test)))]
    first = g.nodes_of(w.body[0])
    bad = must_pass(g, tests, rebind, start=first)
    rep.ob("R02.8", PACK, ro.qual, f"every hop of the chain walk re-binds `{cur}` before the next hop", bool(tests) and bool(rebind) and not bad,
           f"a hop (the REF_DELTA arm?) leaves `{cur}` at the delta's own offset: the next OFS_DELTA hop is computed from the wrong position and "
           f"intermediate results are cached under the wrong offset", w.lineno)
