"""C20 — configuration files round-trip: the value writer's and reader's tables agree.

R20.1 escapes invert: every (byte -> letter) the writer emits is mapped back by the reader's escape table;
      backslash is escaped first.
R20.2 every byte the reader treats specially outside quotes (comment start, quote, backslash, line end; and
      the bytes stripped at either end) is escaped or triggers quoting in the writer.
R20.3 subsection pair: what _escape_subsection escapes _unescape_subsection restores; LF/NUL refused;
      every quote-toggling scanner that the header reader runs is escape-aware (siblings agree).
R20.4 ConfigFile.write_to_path goes through the lock protocol.
"""
from __future__ import annotations

import ast

from sa.common import gitfile_mode, is_gitfile_call
from sa.consts import Folder, Unfoldable
from sa.load import AnalysisError, Program, callee_name, dotted, norm

CFG_PY = "dulwich/config.py"
ASCII_WS = set(b" \t\n\r\x0b\x0c")


def replace_chain(fn: ast.AST, folder: Folder) -> list[tuple[bytes, bytes]]:
    """(old, new) pairs of .replace() calls in execution order."""
    out = []

    def visit(e):
        if isinstance(e, ast.Call) and isinstance(e.func, ast.Attribute) and e.func.attr == "replace" and len(e.args) == 2:
            visit(e.func.value)
            try:
                a, b = folder.fold(e.args[0]), folder.fold(e.args[1])
            except Unfoldable as ex:
                # loop variables of a table driven replace loop are resolved below
                if isinstance(e.args[0], ast.Name) and isinstance(e.args[1], ast.Name):
                    return
                raise AnalysisError(f"replace() with non-constant arguments: {norm(e)} ({ex})")
            out.append((a, b, e.lineno))
            return
        for ch in ast.iter_child_nodes(e):
            visit(ch)
    for s in fn.body:
        visit(s)
    # table driven form: `for a, b in TABLE: value = value.replace(a, b)` applies the pairs of the constant table in order
    for lp in [x for x in ast.walk(fn) if isinstance(x, ast.For) and isinstance(x.target, ast.Tuple) and len(x.target.elts) == 2
               and all(isinstance(t, ast.Name) for t in x.target.elts)]:
        a_, b_ = (t.id for t in lp.target.elts)
        uses = [c for c in ast.walk(lp) if isinstance(c, ast.Call) and isinstance(c.func, ast.Attribute) and c.func.attr == "replace" and len(c.args) == 2
                and isinstance(c.args[0], ast.Name) and isinstance(c.args[1], ast.Name) and c.args[0].id == a_ and c.args[1].id == b_]
        if not uses:
            continue
        try:
            table = folder.fold(lp.iter)
        except Unfoldable as ex:
            raise AnalysisError(f"replace() table is not constant: {norm(lp.iter)} ({ex})")
        out = [o for o in out if not (isinstance(o[0], str) and o[0] == "?")]
        for pair in table:
            out.append((pair[0], pair[1], lp.lineno))
    return out


def r20_7(prog: Program, rep):
    """Two representations, one truth.  (1) A section key is (name,) or (name, subsection); an EMPTY subsection is a
    subsection (`[s ""]`, written by `git config s..k v`): presence is decided by identity / arity, never by truthiness.
    (2) The multi-valued store keeps `_real` (all values, what is written) and `_keyed` (last value, what get() answers):
    every mutator updates both on every normal path - in particular set() always drops the older values."""
    from sa.common import cfg_of
    from sa.flow import must_pass
    m = prog.module(CFG_PY)
    w = m.funcs.get("ConfigFile.write_to_file")
    if w is None:
        raise AnalysisError("ConfigFile.write_to_file not found")
    sub = {x.id for x in ast.walk(w.node) if isinstance(x, ast.Name) and "subsection" in x.id}
    truthy = []
    for x in ast.walk(w.node):
        if isinstance(x, (ast.If, ast.IfExp, ast.While)):
            st = [x.test]
            while st:
                e = st.pop()
                if isinstance(e, ast.BoolOp):
                    st.extend(e.values)
                elif isinstance(e, ast.UnaryOp) and isinstance(e.op, ast.Not):
                    st.append(e.operand)
                elif isinstance(e, ast.Name) and e.id in sub:
                    truthy.append(e)
    ident = [x for x in ast.walk(w.node) if isinstance(x, ast.Compare) and isinstance(x.left, ast.Name) and x.left.id in sub
             and isinstance(x.ops[0], (ast.Is, ast.IsNot))]
    rep.ob("R20.7", CFG_PY, w.qual, "whether a section has a subsection is decided by `is None`, not by truthiness", bool(sub) and bool(ident) and not truthy,
           "an empty subsection (`[s \"\"]`) is written as the plain section `[s]`: `s..k` becomes `s.k`, and merges with an existing `[s]`",
           truthy[0].lineno if truthy else w.node.lineno)
    cls = "CaseInsensitiveOrderedMultiDict"
    n = 0
    for q, f in sorted(m.funcs.items()):
        if f.cls != cls or q != f"{cls}.{f.name}":
            continue
        stores = {"_real": [], "_keyed": []}
        g = cfg_of(prog, f)
        for i, nd in g.nodes.items():
            for e in node_exprs_(nd):
                for x in ast.walk(e):
                    tgt = None
                    if isinstance(x, (ast.Assign, ast.AugAssign)):
                        tgt = x.targets[0] if isinstance(x, ast.Assign) else x.target
                    elif isinstance(x, ast.Delete):
                        tgt = x.targets[0]
                    elif isinstance(x, ast.Call) and isinstance(x.func, ast.Attribute) and x.func.attr in ("append", "pop", "clear", "insert", "update", "remove", "setdefault"):
                        tgt = x.func.value
                    if tgt is None:
                        continue
                    base = tgt
                    while isinstance(base, ast.Subscript):
                        base = base.value
                    d = dotted(base)
                    if d in ("self._real", "self._keyed"):
                        stores[d[5:]].append(i)
        if not stores["_real"] and not stores["_keyed"]:
            continue
        n += 1
        for a, b in (("_real", "_keyed"), ("_keyed", "_real")):
            if not stores[a]:
                rep.ob("R20.7", CFG_PY, q, f"updates {a} whenever it updates {b}", False, f"{q} changes {b} but never {a}", f.node.lineno)
                continue
        if stores["_real"] and stores["_keyed"]:
            # must-pass only for representations the method stores unconditionally (a statement directly in its body);
            # a store inside a loop/branch (delete matching entries) only has to exist
            top = {id(s_) for s_ in f.node.body}
            def toplevel(ids):
                return {i for i in ids if g.nodes[i].kind == "stmt" and id(g.nodes[i].ast) in top}
            tr, tk = toplevel(stores["_real"]), toplevel(stores["_keyed"])
            bad_r = must_pass(g, [g.exit_normal], tr) if tr else []
            bad_k = must_pass(g, [g.exit_normal], tk) if tk else []
            # a path that raises KeyError before touching anything is fine (exit_raise); normal exits must have done both
            rep.ob("R20.7", CFG_PY, q, "every normal return has updated both _real and _keyed", not bad_r and not bad_k,
                   "a normal path returns without rebuilding the value list: older values of a multi-valued key survive a set() and are "
                   "written back to the file", f.node.lineno)
    if n < 3:
        raise AnalysisError(f"expected >= 3 mutators of {cls}, found {n}")


def node_exprs_(nd):
    from sa.cfg import node_exprs
    return node_exprs(nd)


def r20_8(prog: Program, rep):
    """Line framing of a config file is by LF only (a CR inside a quoted value is data; `\\`-LF continues a line): the reader
    takes lines from the file iterator / split(b"\n"), never splitlines()."""
    from sa.common import exact_separator_discipline
    exact_separator_discipline(rep, "R20.8", prog.module(CFG_PY))
    ff = prog.module(CFG_PY).funcs.get("ConfigFile.from_file")
    if ff is None:
        raise AnalysisError("ConfigFile.from_file not found")
    src = norm(ff.node, 100000)
    rep.ob("R20.8", CFG_PY, ff.qual, "lines come from the file's own LF framing (readlines / iteration)", "readlines()" in src or "for line in f" in src or "in f:" in src,
           "", ff.node.lineno)


def _unescape_replaces(fnode: ast.AST, folder) -> list[tuple[bytes, bytes, int]]:
    out = []
    for c in ast.walk(fnode):
        if isinstance(c, ast.Call) and isinstance(c.func, ast.Attribute) and c.func.attr == "replace" and len(c.args) >= 2:
            a, b = folder.try_fold(c.args[0]), folder.try_fold(c.args[1])
            if isinstance(a, bytes) and isinstance(b, bytes) and len(a) == 2 and a[:1] == b"\\" and len(b) == 1:
                out.append((a, b, c.lineno))
    return out


def r20_9(prog: Program, rep):
    """Un-escaping is ONE left-to-right tokenising pass.  A chain of .replace() calls that maps two-byte escapes back cannot
    invert the writer, whatever its order: in the file text `\\\\n` (escaped backslash, letter n) one of the links sees `\\n`."""
    m = prog.module(CFG_PY)
    F = Folder(prog, m)
    probe = ast.parse("def f(v):\n    return v.replace(b'\\\\n', b'\\n').replace(b'\\\\\\\\', b'\\\\')\n")
    if len(_unescape_replaces(probe, Folder(prog, m))) != 2:
        raise AnalysisError("R20.9 detector self-check failed")
    n = 0
    for q, f in m.funcs.items():
        if "#" in q:
            continue
        n += 1
        un = _unescape_replaces(f.node, F)
        olds = {a for a, _, _ in un}
        bad = b"\\\\" in olds and len(olds) >= 2
        if un or q in ("_parse_string", "_unescape_subsection"):
            rep.ob("R20.9", CFG_PY, q, "escapes are undone in one tokenising pass, not by chained replace()", not bad,
                   f"`replace` does not tokenise: with {sorted(olds)} undone one after the other, the text `\\\\n` (an escaped backslash followed by "
                   f"the letter n, as _escape_value writes `\\n`) is read back as a line feed or as backslash+LF instead of backslash+n",
                   un[0][2] if un else f.node.lineno)


def r20_10(prog: Program, rep):
    """(a) SIBLINGS-AGREE on case folding: has_section compares through lower_key like get/set/items/remove; (b) the value reader
    strips only the whitespace git's parser knows (SP, TAB, CR, LF): an argument-less strip() also removes VT and FF, which git
    writes unquoted and reads back."""
    m = prog.module(CFG_PY)
    f = m.funcs.get("Config.has_section")
    if f is None:
        raise AnalysisError("Config.has_section not found")
    rep.ob("R20.10", CFG_PY, f.qual, "has_section folds the case of the section name (lower_key) like its sibling accessors",
           any(isinstance(c, ast.Call) and callee_name(c) == "lower_key" for c in ast.walk(f.node)) or "_values" in norm(f.node, 5000),
           "an exact comparison: [Remote \"origin\"] as git config writes it is not found under (b'remote', b'origin') while get() returns its url - "
           "porcelain.remote_add silently overwrites the existing remote", f.node.lineno)
    p = m.funcs.get("_parse_string")
    F = Folder(prog, m)
    strips = [c for c in ast.walk(p.node) if isinstance(c, ast.Call) and isinstance(c.func, ast.Attribute) and c.func.attr == "strip"]
    bad = [c for c in strips if not c.args or not isinstance(F.try_fold(c.args[0]), bytes) or not set(F.try_fold(c.args[0])) <= set(b" \t\r\n")]
    rep.ob("R20.10", CFG_PY, p.qual, "the value is stripped of SP, TAB, CR, LF only (git's whitespace)", bool(strips) and not bad,
           "bytes.strip() without argument also removes VT and FF at the ends of a value; git treats them as data and writes such a value unquoted: "
           "dulwich reads b'foo' where git wrote b'\\x0cfoo'", (bad or strips or [p.node])[0].lineno)


def r20_11(prog: Program, rep):
    """WHAT IS WRITTEN IS WHAT THE FILE SAID.  Reading a file expands its [include]s by merging the included files' settings; a
    read-modify-write must not copy them into the file.  Necessary condition: the mapping that write_to_file serialises is not the
    mapping the include handling stores into (or the merged values carry a marker the writer skips)."""
    m = prog.module(CFG_PY)
    w = m.funcs.get("ConfigFile.write_to_file")
    mg = m.funcs.get("ConfigFile._merge_config")
    if w is None:
        raise AnalysisError("ConfigFile.write_to_file not found")
    if mg is None:
        rep.note("R20.11: ConfigFile._merge_config not found (include handling restructured): not decided")
        return
    written = {norm(x.iter.func.value) for x in ast.walk(w.node) if isinstance(x, ast.For) and isinstance(x.iter, ast.Call) and isinstance(x.iter.func, ast.Attribute)
               and x.iter.func.attr in ("items", "keys", "values") and norm(x.iter.func.value).startswith("self.")}
    if not written:
        raise AnalysisError("write_to_file: the mapping that is serialised not found")
    stores = [x for x in ast.walk(mg.node) if (isinstance(x, ast.Subscript) and isinstance(x.ctx, ast.Store) and any(norm(x.value).startswith(w_) for w_ in written))
              or (isinstance(x, ast.Call) and isinstance(x.func, ast.Attribute) and x.func.attr in ("setdefault", "update", "add", "append")
                  and any(norm(x.func.value).startswith(w_) for w_ in written))]
    skips = any(isinstance(x, ast.Call) and callee_name(x) == "isinstance" for x in ast.walk(w.node)) or \
        any(isinstance(x, ast.If) and ("includ" in norm(x.test).lower() or "origin" in norm(x.test).lower()) for x in ast.walk(w.node))
    rep.ob("R20.11", CFG_PY, mg.qual, "settings merged from included files are kept out of the mapping write_to_file serialises (or marked and skipped)",
           not stores or skips,
           f"_merge_config stores the included settings into {sorted(written)}, the very mapping write_to_file writes: every read-modify-write of a "
           "config with an [include] copies the included settings into the file, where they are read a second time (multi-values doubled) and "
           "override later changes of the included file", stores[0].lineno if stores else mg.node.lineno)


def run(prog: Program, rep, tier="quick"):
    rep.rule("R20.11", "what is written is what the file said: settings merged from [include]d files never reach write_to_file")
    rep.rule("R20.10", "has_section folds case like its siblings; the value reader strips only git's whitespace")
    rep.rule("R20.9", "readers undo escapes in one tokenising pass; no chained replace() un-escaping that includes the backslash escape")
    rep.rule("R20.8", "line framing by LF only: no splitlines() / argument-less split() in config.py")
    rep.rule("R20.7", "presence of a subsection by identity (empty != absent); the multi-value store's two representations are updated together")
    rep.rule("R20.1", "TABLE-AGREE: reader escape table inverts every escape the writer emits; backslash escaped first")
    rep.rule("R20.2", "every byte special to the reader outside quotes (anywhere / at an edge) is escaped or forces quoting")
    rep.rule("R20.3", "subsection escapes are restored by the reader; LF/NUL refused; quote-toggling scanners are escape-aware")
    rep.rule("R20.5", "TABLE-AGREE against a frozen reference of git's parse_value: only escapes git knows; bytes git folds are escaped/quoted")
    rep.rule("R20.6", "normalised keys (lower_key) are compared only with normalised keys")
    rep.rule("R20.4", "ConfigFile.write_to_path writes through the lock protocol")
    rep.not_decided += ["multi-valued key order", "case rules", "what git itself reads (only the table relation is decided)"]
    rep.assumptions += ["from_file splits the input into lines at LF, so LF always ends a value",
                        "bytes.strip() without argument removes the six ASCII whitespace bytes"]
    m = prog.module(CFG_PY)
    F = Folder(prog, m)

    def fn(name):
        f = m.funcs.get(name)
        if f is None:
            raise AnalysisError(f"{CFG_PY}:{name} not found")
        return f
    esc, fmt, parse = fn("_escape_value"), fn("_format_string"), fn("_parse_string")
    # ---- W
    chain = replace_chain(esc.node, F)
    if not chain:
        raise AnalysisError("_escape_value: no .replace() chain found (unknown writer shape)")
    W = {}
    for a, b, ln in chain:
        if not (isinstance(a, bytes) and isinstance(b, bytes) and len(a) == 1 and len(b) == 2 and b[:1] == b"\\"):
            raise AnalysisError(f"_escape_value: replace({a!r}, {b!r}) is not a one-byte -> backslash-letter escape")
        W[a[0]] = b[1]
    # ---- R
    if "_ESCAPE_TABLE" not in m.consts:
        raise AnalysisError("_ESCAPE_TABLE not found")
    R = F.fold(m.consts["_ESCAPE_TABLE"])
    uses_table = any(isinstance(x, ast.Name) and x.id == "_ESCAPE_TABLE" for x in ast.walk(parse.node))
    rep.ob("R20.1", CFG_PY, "_parse_string", "reader consults _ESCAPE_TABLE", uses_table, "", parse.node.lineno)
    for byte, letter in sorted(W.items()):
        ok = R.get(letter) == byte
        rep.ob("R20.1", CFG_PY, "_escape_value", f"escape of {bytes([byte])!r} as \\{chr(letter)} is known to the reader", ok,
               f"the writer emits \\{chr(letter)} for {bytes([byte])!r} but the reader's table maps that letter to "
               f"{R.get(letter)!r}: the value reads back as a backslash followed by '{chr(letter)}'",
               next(ln for a, b, ln in chain if a[0] == byte))
    rep.ob("R20.1", CFG_PY, "_escape_value", "backslash is escaped first", chain[0][0] == b"\\",
           "a later escape's backslash would be doubled", chain[0][2])
    # ---- S from the reader's dispatch
    loopvar = None
    for x in ast.walk(parse.node):
        if isinstance(x, ast.Assign) and isinstance(x.value, ast.Subscript) and isinstance(x.targets[0], ast.Name):
            loopvar = x.targets[0].id
            break
    if loopvar is None:
        raise AnalysisError("_parse_string: loop byte variable not found")
    S_any, S_edge = set(), set()
    for x in ast.walk(parse.node):
        if isinstance(x, ast.Compare) and isinstance(x.left, ast.Name) and x.left.id == loopvar and len(x.ops) == 1:
            try:
                v = F.fold(x.comparators[0])
            except Unfoldable:
                continue
            vals = {v} if isinstance(v, int) else set(v)
            if isinstance(x.ops[0], ast.In) and vals <= ASCII_WS:
                S_edge |= vals
            elif isinstance(x.ops[0], (ast.Eq, ast.In)):
                S_any |= vals
    S_any.add(ord("\n"))
    strips = [c for c in ast.walk(parse.node) if isinstance(c, ast.Call) and isinstance(c.func, ast.Attribute)
              and c.func.attr in ("strip", "lstrip", "rstrip")]
    for c in strips:
        if not c.args:
            S_edge |= ASCII_WS
        else:
            S_edge |= set(F.fold(c.args[0]))
    if len(S_any) < 4:
        raise AnalysisError(f"_parse_string: dispatch extraction found only {sorted(S_any)}")
    # ---- Q from the writer
    Q_any, Q_edge = set(), set()
    params = [a.arg for a in fmt.node.args.args]
    val = params[0]
    for x in ast.walk(fmt.node):
        if isinstance(x, ast.Compare) and len(x.ops) == 1 and isinstance(x.ops[0], ast.In) \
                and isinstance(x.comparators[0], ast.Name) and x.comparators[0].id == val:
            try:
                Q_any |= set(F.fold(x.left))
            except Unfoldable:
                pass
        if isinstance(x, ast.Call) and isinstance(x.func, ast.Attribute) and x.func.attr in ("startswith", "endswith") \
                and isinstance(x.func.value, ast.Name) and x.func.value.id == val and x.args:
            try:
                a = F.fold(x.args[0])
            except Unfoldable:
                continue
            for item in ([a] if isinstance(a, bytes) else a):
                if len(item) == 1:
                    Q_edge |= set(item)
        # value[:1] in X / value[-1:] in X
        if isinstance(x, ast.Compare) and len(x.ops) == 1 and isinstance(x.ops[0], ast.In) \
                and isinstance(x.left, ast.Subscript) and isinstance(x.left.value, ast.Name) and x.left.value.id == val:
            try:
                a = F.fold(x.comparators[0])
                for item in ([a] if isinstance(a, bytes) else a):
                    Q_edge |= set(item if isinstance(item, bytes) else bytes([item]))
            except Unfoldable:
                pass
        # any(b in value for b in X): every element of the constant table X forces quoting wherever it occurs
        if isinstance(x, ast.Call) and callee_name(x) == "any" and x.args and isinstance(x.args[0], (ast.GeneratorExp, ast.ListComp)) \
                and len(x.args[0].generators) == 1 and isinstance(x.args[0].generators[0].target, ast.Name):
            gen = x.args[0]
            tv = gen.generators[0].target.id
            e = gen.elt
            if isinstance(e, ast.Compare) and len(e.ops) == 1 and isinstance(e.ops[0], ast.In) and isinstance(e.left, ast.Name) and e.left.id == tv \
                    and isinstance(e.comparators[0], ast.Name) and e.comparators[0].id == val and not gen.generators[0].ifs:
                try:
                    for item in F.fold(gen.generators[0].iter):
                        Q_any |= set(item if isinstance(item, bytes) else bytes([item]))
                except (Unfoldable, TypeError):
                    pass
    starts = {f.attr for c in ast.walk(fmt.node) if isinstance(c, ast.Call) and isinstance((f := c.func), ast.Attribute)
              and f.attr in ("startswith", "endswith")}
    if not Q_any and not Q_edge:
        raise AnalysisError("_format_string: no quoting condition understood (unknown writer shape)")
    # the quoted branch wraps the escaped value in quotes
    quoted_ok = False
    # a local bound once to `_escape_value(value)` stands for that call (`escaped = _escape_value(value); return b'"' + escaped + b'"'`)
    once_ = {}
    for x in ast.walk(fmt.node):
        if isinstance(x, (ast.Assign, ast.AnnAssign)) and getattr(x, "value", None) is not None:
            t_ = x.targets[0] if isinstance(x, ast.Assign) else x.target
            if isinstance(t_, ast.Name):
                once_.setdefault(t_.id, []).append(x.value)
    esc_names = {k for k, v in once_.items() if len(v) == 1 and isinstance(v[0], ast.Call) and callee_name(v[0]) == "_escape_value"}
    for r in ast.walk(fmt.node):
        if isinstance(r, ast.Return) and isinstance(r.value, ast.BinOp):
            txt = norm(r.value)
            if txt.startswith("b'\"' +") and txt.endswith("+ b'\"'") and ("_escape_value" in txt or any(
                    isinstance(y, ast.Name) and y.id in esc_names for y in ast.walk(r.value))):
                quoted_ok = True
    rep.ob("R20.2", CFG_PY, "_format_string", "quoted branch is '\"' + escape(value) + '\"'", quoted_ok, "", fmt.node.lineno)
    unq = [r for r in ast.walk(fmt.node) if isinstance(r, ast.Return) and ((isinstance(r.value, ast.Call) and callee_name(r.value) == "_escape_value")
                                                                          or (isinstance(r.value, ast.Name) and r.value.id in esc_names))]
    rep.ob("R20.2", CFG_PY, "_format_string", "unquoted branch still escapes", bool(unq), "", fmt.node.lineno)
    if Q_edge and starts != {"startswith", "endswith"} and not any(
            isinstance(x, ast.Subscript) for x in ast.walk(fmt.node)):
        rep.ob("R20.2", CFG_PY, "_format_string", "both ends are tested", False,
               f"only {sorted(starts)} is tested", fmt.node.lineno)
    E = set(W)
    for b in sorted(S_any):
        ok = b in Q_any or b in E
        rep.ob("R20.2", CFG_PY, "_format_string", f"byte {bytes([b])!r} (special anywhere outside quotes) is escaped or quoted", ok,
               f"the reader gives {bytes([b])!r} a meaning outside quotes but the writer neither escapes it nor quotes the "
               f"value: the value is cut or altered on read", fmt.node.lineno)
    for b in sorted(S_edge):
        ok = b in Q_edge or b in Q_any or b in E
        rep.ob("R20.2", CFG_PY, "_format_string", f"byte {bytes([b])!r} (removed at either end outside quotes) is escaped or quoted", ok,
               f"the reader strips {bytes([b])!r} at the ends of an unquoted value but the writer does not quote such a value",
               fmt.node.lineno)
    rep.extra["tables"] = {"W": {repr(bytes([k])): "\\" + chr(v) for k, v in W.items()},
                           "R": {chr(k): repr(bytes([v])) for k, v in R.items()},
                           "S_any": repr(bytes(sorted(S_any))), "S_edge": repr(bytes(sorted(S_edge))),
                           "Q_any": repr(bytes(sorted(Q_any))), "Q_edge": repr(bytes(sorted(Q_edge)))}
    # ---- R20.3 subsections
    es, us = fn("_escape_subsection"), fn("_unescape_subsection")
    sub_chain = replace_chain(es.node, F)
    if not sub_chain:
        raise AnalysisError("_escape_subsection: no replace chain")
    rep.ob("R20.3", CFG_PY, "_escape_subsection", "backslash is escaped first", sub_chain[0][0] == b"\\", "", sub_chain[0][2])
    # reader: generic `\x -> x`
    generic = False
    for x in ast.walk(us.node):
        if isinstance(x, ast.Compare) and any(isinstance(c, ast.Constant) and c.value == b"\\" for c in ast.walk(x)):
            generic = True
    for a, b, ln in sub_chain:
        ok = generic and len(b) == 2 and b[:1] == b"\\" and b[1:] == a
        rep.ob("R20.3", CFG_PY, "_escape_subsection", f"escape {a!r} -> {b!r} restored by the reader", ok,
               "the subsection reader drops the backslash of \\x and keeps x; the writer must emit exactly \\ + the byte", ln)
    refused = set()
    for x in ast.walk(es.node):
        if isinstance(x, ast.Compare) and isinstance(x.ops[0], ast.In) and isinstance(x.left, ast.Constant):
            refused |= set(x.left.value)
        elif isinstance(x, ast.Compare) and isinstance(x.ops[0], ast.In) and isinstance(x.left, ast.Name):
            # `for b in (b"\n", b"\0"): if b in name: raise` - the loop variable of a loop over a tuple of constants
            for lp in ast.walk(es.node):
                if isinstance(lp, ast.For) and isinstance(lp.target, ast.Name) and lp.target.id == x.left.id:
                    vals = F.try_fold(lp.iter)
                    if isinstance(vals, (tuple, list, set, frozenset)) and all(isinstance(v, bytes) for v in vals):
                        for v in vals:
                            refused |= set(v)
    raises = any(isinstance(x, ast.Raise) for x in ast.walk(es.node))
    rep.ob("R20.3", CFG_PY, "_escape_subsection", "LF and NUL are refused", raises and {0, 10} <= refused,
           f"refused={sorted(refused)}", es.node.lineno)
    # quote-toggling scanners must be escape-aware
    n_scanners = 0
    for q, f in m.funcs.items():
        if "." in q:
            continue
        toggles = [x for x in ast.walk(f.node) if isinstance(x, ast.Assign) and isinstance(x.value, ast.UnaryOp)
                   and isinstance(x.value.op, ast.Not) and isinstance(x.targets[0], ast.Name)
                   and isinstance(x.value.operand, ast.Name) and x.value.operand.id == x.targets[0].id]
        if not toggles:
            continue
        n_scanners += 1
        local = {}
        for x in ast.walk(f.node):
            if isinstance(x, ast.Assign) and isinstance(x.targets[0], ast.Name):
                local[x.targets[0].id] = x.value
        LF = Folder(prog, m, local)
        knows_backslash = False
        for x in ast.walk(f.node):
            if isinstance(x, ast.Compare):
                for cpt in [x.left] + x.comparators:
                    v = LF.try_fold(cpt)
                    if v in (ord("\\"), b"\\"):
                        knows_backslash = True
        rep.ob("R20.3", CFG_PY, q, "quote-toggling scanner skips the byte after a backslash", knows_backslash,
               "this scanner toggles its in-quotes flag on every '\"' but never looks at '\\': an escaped quote written by "
               "_escape_subsection flips it, and a following '#' or ';' is then taken for a comment", f.node.lineno)
    # the same scanners written as a regular expression: a pattern that knows the quote must know the backslash too
    import re._parser as rp  # regex syntax trees (stdlib)

    def _lits(tree, acc):
        for op, av in tree:
            if str(op) in ("LITERAL", "NOT_LITERAL"):
                acc.add(av)
            elif str(op) == "IN":
                _lits(av, acc)
            elif str(op) == "RANGE":
                acc.update(range(av[0], av[1] + 1))
            elif str(op) in ("MAX_REPEAT", "MIN_REPEAT", "POSSESSIVE_REPEAT"):
                _lits(av[2], acc)
            elif str(op) == "SUBPATTERN":
                _lits(av[3], acc)
            elif str(op) == "BRANCH":
                for alt in av[1]:
                    _lits(alt, acc)
            elif str(op) in ("ASSERT", "ASSERT_NOT"):
                _lits(av[1], acc)
            elif str(op) == "ATOMIC_GROUP":
                _lits(av, acc)
    for q in ("_strip_comments", "_parse_section_header_line"):
        f = fn(q)
        used = {x.id for x in ast.walk(f.node) if isinstance(x, ast.Name)}
        pats = [c.args[0] for c in ast.walk(f.node) if isinstance(c, ast.Call) and (dotted(c.func) or "").startswith("re.") and c.args]
        pats += [v.args[0] for k, v in m.consts.items() if k in used and isinstance(v, ast.Call) and dotted(v.func) == "re.compile" and v.args]
        for pe in pats:
            pv = F.try_fold(pe)
            if not isinstance(pv, (bytes, str)):
                continue
            try:
                acc: set[int] = set()
                _lits(rp.parse(pv), acc)
            except Exception as ex:  # noqa: BLE001
                raise AnalysisError(f"{q}: cannot parse regular expression {pv!r}: {ex}")
            if ord('"') not in acc:
                continue
            n_scanners += 1
            rep.ob("R20.3", CFG_PY, q, f"quote-aware pattern {pv!r} is escape-aware", ord("\\") in acc,
                   "this pattern delimits quoted strings by '\"' but has no notion of '\\': the escaped quote that _escape_subsection writes "
                   "ends the string for it, and a following '#' or ';' is taken for a comment", pe.lineno)
    if n_scanners < 3:
        raise AnalysisError(f"expected >= 3 quote-aware scanners (flag-toggling loops or patterns) in config.py, found {n_scanners}")
    # ---- R20.5 frozen reference of git's own value reader (config.c:parse_value): escapes it knows, whitespace it folds
    GIT_ESCAPES = set(b'ntb\\"')
    for byte, letter in sorted(W.items()):
        rep.ob("R20.5", CFG_PY, "_escape_value", f"escape \\{chr(letter)} is one git knows", letter in GIT_ESCAPES,
               f"git's parse_value only knows \\n \\t \\b \\\\ \\\": a file containing \\{chr(letter)} is fatal for git ('bad config line')",
               next(ln for a, b, ln in chain if a[0] == byte))
    for b_ in (9, 10, 13):
        ok = b_ in Q_any or b_ in E
        rep.ob("R20.5", CFG_PY, "_format_string", f"byte {bytes([b_])!r}, which git folds to a space when unquoted, is escaped or forces quoting", ok,
               f"git replaces an unquoted {bytes([b_])!r} anywhere in a value by a space: the value git reads differs from the one written",
               fmt.node.lineno)
    # ---- R20.6 normalised-key discipline of the case-insensitive multi-dict: a key normalised with lower_key() is only
    # ever compared with another normalised key
    n_cmp = 0
    for q, f in m.funcs.items():
        if "#" in q:
            continue
        normalised = {s_.targets[0].id for s_ in ast.walk(f.node) if isinstance(s_, ast.Assign) and isinstance(s_.targets[0], ast.Name)
                      and isinstance(s_.value, ast.Call) and callee_name(s_.value) == "lower_key"}
        fparams = {a.arg for a in f.node.args.args}
        for x in ast.walk(f.node):
            if isinstance(x, ast.Compare) and len(x.ops) == 1 and isinstance(x.ops[0], (ast.Eq, ast.NotEq, ast.In, ast.NotIn)):
                sides = [x.left, x.comparators[0]]
                lk = [s_ for s_ in sides if isinstance(s_, ast.Call) and callee_name(s_) == "lower_key"]
                if len(lk) != 1:
                    continue
                other = sides[1] if sides[0] is lk[0] else sides[0]
                n_cmp += 1
                ok = not (isinstance(other, ast.Name) and other.id in fparams and other.id not in normalised)
                rep.ob("R20.6", CFG_PY, q, f"`{norm(x, 60)}` compares normalised with normalised", ok,
                       f"`{norm(lk[0])}` is compared with the raw parameter `{norm(other)}`: keys spelled with capitals never match, so an "
                       f"unset through such a spelling leaves the entry in the written file", x.lineno)
    if n_cmp < 1:
        raise AnalysisError("no comparison against lower_key(...) found in config.py")
    # ---- R20.4
    wp = fn("ConfigFile.write_to_path")
    gfs = [c for c in ast.walk(wp.node) if is_gitfile_call(prog, m, c) and "w" in (gitfile_mode(c) or "")]
    raw = [c for c in ast.walk(wp.node) if isinstance(c, ast.Call) and dotted(c.func) in ("open", "os.open")]
    rep.ob("R20.4", CFG_PY, wp.qual, "written through GitFile", bool(gfs) and not raw, "", wp.node.lineno)
    rep.floor("R20.1", 5)
    rep.floor("R20.2", 8)
    r20_7(prog, rep)
    r20_8(prog, rep)
    r20_9(prog, rep)
    r20_10(prog, rep)
    r20_11(prog, rep)
    rep.floor("R20.3", 6)
