"""R07.3 — who may write a protected file (WHO-MAY).

A write-mode builtin open / os.open / os.fdopen, os.rename / os.replace, shutil.move whose path expression
*resolves* (one level of local definitions inlined) to a protected name must be inside dulwich/file.py, i.e. go
through the lock protocol.  Sites whose path does not resolve to a protected name are counted and listed in the
evidence, never reported.
"""
from __future__ import annotations

import ast
import re

from sa.load import Program, arg_of, callee_name, dotted, norm

# Role table: files the repository itself writes through GitFile somewhere (confirmed by reading: refs,
# packed-refs, index, config, shallow, info/alternates, commit-graph, multi-pack-index) plus the reftable backend's
# tables.list.  Deliberately NOT in the table: HEAD of a work tree that is being created (worktree.py, repo.py:
# the file does not exist before and nobody reads an unregistered work tree), brand-new uniquely named reftable
# table files, and pack indexes written by `dulwich pack-objects` to a user-chosen basename (cli.py).
PROTECTED = [
    (re.compile(r"""['"]refs['"]\s*,\s*['"]bisect['"]|refs/bisect"""), "ref file (refs/bisect/*)"),
    (re.compile(r"""\brefpath\(|['"]refs['"],\s*['"](heads|tags|remotes)['"]"""), "ref file"),
    (re.compile(r"""packed-refs"""), "packed-refs"),
    (re.compile(r"""tables\.list"""), "reftable tables.list"),
    (re.compile(r""",\s*b?['"]index['"]\)$|\bindex_path\(\)"""), "index"),
    (re.compile(r""",\s*b?['"]config['"]\)$"""), "config"),
    (re.compile(r""",\s*b?['"]shallow['"]\)$"""), "shallow"),
    (re.compile(r"""alternates"""), "info/alternates"),
    (re.compile(r"""commit-graph|multi-pack-index"""), "commit-graph / multi-pack-index"),
]


def _write_mode(c: ast.Call) -> bool:
    d = dotted(c.func)
    if d in ("open", "io.open"):
        mode = arg_of(c, 1, "mode")
        if mode is None:
            return False
        t = norm(mode)
        return any(ch in t for ch in ("w", "a", "x", "+"))
    if d == "os.open":
        return any(f in norm(c) for f in ("O_WRONLY", "O_RDWR", "O_CREAT", "O_TRUNC", "O_APPEND"))
    return d in ("os.rename", "os.replace", "shutil.move")


def resolve(mod, f, e: ast.AST, depth=0) -> str:
    """Text of a path expression with local single-assignment names inlined (depth 2)."""
    txt = norm(e, 400)
    if f is None or depth > 1:
        return txt
    for n in {x.id for x in ast.walk(e) if isinstance(x, ast.Name)}:
        defs = [s for s in ast.walk(f.node) if isinstance(s, ast.Assign) and len(s.targets) == 1
                and isinstance(s.targets[0], ast.Name) and s.targets[0].id == n]
        if len(defs) == 1:
            txt = re.sub(rf"\b{re.escape(n)}\b", resolve(mod, f, defs[0].value, depth + 1).replace("\\", "\\\\"), txt)
    return txt


def run(prog: Program, rep):
    rep.rule("R07.3", "WHO-MAY: write-mode open / rename of a path that resolves to a protected name (refs, HEAD, packed-refs, "
                      "index, config, shallow, alternates, commit-graph, midx, *.idx) happens only through dulwich/file.py")
    n_sites = n_resolved = 0
    unresolved = []
    for m in prog.modules.values():
        if m.rel == "dulwich/file.py":
            continue
        for c in ast.walk(m.tree):
            if not (isinstance(c, ast.Call) and _write_mode(c)):
                continue
            f = m.enclosing_func(c)
            d = dotted(c.func)
            targets = [c.args[-1]] if d in ("os.rename", "os.replace", "shutil.move") and len(c.args) >= 2 else (c.args[:1])
            if not targets:
                continue
            n_sites += 1
            txt = resolve(m, f, targets[0])
            hit = None
            for pat, what in PROTECTED:
                if pat.search(txt):
                    hit = what
                    break
            if hit is None:
                unresolved.append(f"{m.rel}:{c.lineno}")
                continue
            # renames that *are* the lock protocol's own users are fine when the source is a GitFile lock; pack install
            # renames a temp pack to .pack (not protected).  Everything else resolving to a protected name is reported.
            n_resolved += 1
            rep.ob("R07.3", m.rel, f.qual if f else "<module>", f"{d} of {hit}: {norm(targets[0], 60)}", False,
                   f"{hit} is written in place with {d}(...) instead of the lock protocol: truncate-then-write is visible to "
                   f"readers (empty or torn content), two writers are not excluded and a failed write leaves partial content",
                   c.lineno)
    rep.count("raw write sites outside file.py", n_sites)
    rep.count("raw write sites resolving to a protected name", n_resolved)
    rep.note(f"{len(unresolved)} raw write sites do not resolve to a protected name (work-tree files, temp files, "
             f"worktree pointers, logs); first: {unresolved[:12]}")
    # positive control: the rule's matcher must recognise a protected write when it sees one
    probe = ast.parse("def _probe(d):\n    p = os.path.join(d, 'packed-refs')\n    with open(p, 'wb') as f:\n        f.write(b'')\n")
    pf = probe.body[0]

    class _F:
        node = pf
    call = next(c for c in ast.walk(pf) if isinstance(c, ast.Call) and dotted(c.func) == "open")
    rep.ob("R07.3", "selftest/fixture", "_probe", "positive control: a raw write of packed-refs is recognised",
           _write_mode(call) and any(p.search(resolve(None, _F, call.args[0])) for p, _ in PROTECTED), "", 0)
