"""R07.3 — who may write a protected file (placeholder until the path folder exists)."""


def run(prog, rep):
    return
