"""C16 — ref backends obey one contract.

R16.1 old_ref=None means unconditional: under that fact no `return False` is reachable in any backend's
      set_if_equals / remove_if_equals (partial evaluation).
R16.2 conditional methods are total: every normal path returns a bool-typed expression.
R16.3 a missing ref compares as the zero id in every backend.
R16.4 writable backends override the abstract operations with compatible signatures.
R16.5 check_ref_format tests every rule of git-check-ref-format (frozen reference table).
R16.6 packed-refs writer and readers agree on separator, peeled prefix and header.
"""
from __future__ import annotations

import ast

from sa.cfg import node_exprs
from sa.common import cfg_of
from sa.consts import Folder, Unfoldable
from sa.load import AnalysisError, Program, callee_name, dotted, norm, params
from sa.peval import NONE, reachable_returns

REFS_PY = "dulwich/refs.py"
COND = ("set_if_equals", "remove_if_equals")
ABSTRACT = ("allkeys", "read_loose_ref", "get_packed_refs", "set_if_equals", "add_if_new", "remove_if_equals",
            "set_symbolic_ref")


def backends(prog: Program):
    """(class name, module) of every class in the RefsContainer hierarchy."""
    out = []
    for cname in sorted(prog.subclasses("RefsContainer")):
        for c in prog.classes.get(cname, []):
            out.append(c)
    return out


def _is_abstract(f) -> bool:
    body = [s for s in f.node.body if not (isinstance(s, ast.Expr) and isinstance(s.value, ast.Constant))]
    # abstract = ends by raising NotImplementedError at top level and never returns a value
    return bool(body) and isinstance(body[-1], ast.Raise) and "NotImplementedError" in norm(body[-1]) \
        and not any(isinstance(x, (ast.Return, ast.Yield)) for x in ast.walk(f.node))


def _delegates(f, names) -> bool:
    """The method's only returns are calls of a same-named method on another object."""
    rets = [r for r in ast.walk(f.node) if isinstance(r, ast.Return)]
    return bool(rets) and all(isinstance(r.value, ast.Call) and callee_name(r.value) in names for r in rets)


def r16_12(prog: Program, rep):
    """pack_refs changes nothing observable: a SYMBOLIC ref stays symbolic.  In DiskRefsContainer.pack_refs every path to the
    store into the set of refs to pack passes a test of the raw ref contents for the symref marker whose marker side leaves
    the iteration (git pack-refs never packs symbolic refs)."""
    from sa.flow import must_pass
    from sa.cfg import node_calls
    m = prog.module("dulwich/refs.py")
    f = m.funcs.get("DiskRefsContainer.pack_refs")
    if f is None:
        raise AnalysisError("DiskRefsContainer.pack_refs not found")
    g = cfg_of(prog, f)
    stores = [i for i, n in g.nodes.items() if n.kind == "stmt" and isinstance(n.ast, ast.Assign) and isinstance(n.ast.targets[0], ast.Subscript)
              and "pack" in norm(n.ast.targets[0].value)]
    if not stores:
        raise AnalysisError("pack_refs: the store into the refs-to-pack mapping not found")
    tests = {}
    for i, n in g.nodes.items():
        if n.kind == "test" and ("SYMREF" in norm(n.ast) or "b'ref: '" in norm(n.ast)) and "startswith" in norm(n.ast):
            tests[i] = "false" if norm(n.ast).startswith("not ") else "true"
    # with the 'is symbolic' edge as the only way on, the store must be unreachable
    from sa.flow import reach
    leak = []
    for t, lab in tests.items():
        # None-flag sensitive: an extracted predicate may answer "symbolic" by returning None (`sha = None ... if sha: store`)
        from sa.flow import reach_ps
        r = reach_ps(g, [b for b, l in g.succ[t] if l == lab], avoid=set(k for k in g.nodes if g.nodes[k].kind == "for_iter"
                                                                        and not (isinstance(g.nodes[k].ast.target, ast.Name) and g.nodes[k].ast.target.id == "_once")))
        leak += [x for x in stores if x in r]
    # a path that avoids the marker test is accepted only through the 'no loose file' side of a None test of the same contents
    # (a ref that exists only in packed-refs cannot be symbolic)
    none_edges = {}
    for i, n in g.nodes.items():
        if n.kind == "test" and isinstance(n.ast, ast.Compare) and len(n.ast.ops) == 1 and isinstance(n.ast.comparators[0], ast.Constant) \
                and n.ast.comparators[0].value is None and isinstance(n.ast.ops[0], (ast.Is, ast.IsNot)):
            none_edges[i] = "true" if isinstance(n.ast.ops[0], ast.Is) else "false"
    bad = must_pass(g, stores, list(tests), edge_ok=lambda a_, b_, l: not (a_ in none_edges and l == none_edges[a_]))
    rep.ob("R16.12", m.rel, f.qual, "a symbolic ref is recognised (raw contents start with the symref marker) and skipped before a ref is put on the pack list",
           bool(tests) and not bad and not leak,
           "every ref is resolved and packed, then its loose file removed: refs/remotes/origin/HEAD becomes a plain packed ref frozen at its current target and "
           "no longer follows the branch it pointed at", g.nodes[stores[0]].line)


def r16_13(prog: Program, rep):
    """SIBLINGS-AGREE on the preparation of a ref-file write in the files backend.  Every method of DiskRefsContainer that
    takes the lock of a ref file in order to WRITE it (set_if_equals, add_if_new, set_symbolic_ref) first (a) removes empty
    directories standing at the path of the file - a failed or interrupted update of refs/heads/a/b leaves refs/heads/a/
    behind, and an unconditional write of refs/heads/a must still take effect - and (b) creates the parent directories.
    remove_if_equals only needs (b)."""
    from sa.flow import must_pass
    from sa.cfg import node_calls
    from sa.common import is_gitfile_call, gitfile_mode
    m = prog.module("dulwich/refs.py")
    n = 0
    for q, f in sorted(m.funcs.items()):
        if not q.startswith("DiskRefsContainer.") or "#" in q:
            continue
        g = cfg_of(prog, f)
        locks = []
        for i, nd in g.nodes.items():
            for c in node_calls(nd):
                if is_gitfile_call(prog, m, c) and "w" in (gitfile_mode(c) or "") and c.args and isinstance(c.args[0], ast.Name):
                    # the path is a ref path: some definition of the name is self.refpath(..)
                    if any(isinstance(s_, ast.Assign) and isinstance(s_.targets[0], ast.Name) and s_.targets[0].id == c.args[0].id and isinstance(s_.value, ast.Call)
                           and callee_name(s_.value) == "refpath" for s_ in ast.walk(f.node)):
                        locks.append((i, c))
        if not locks:
            continue
        writes = any(isinstance(c, ast.Call) and isinstance(c.func, ast.Attribute) and c.func.attr == "write" for c in ast.walk(f.node))
        for i, c in locks:
            n += 1
            var = c.args[0].id
            mk = [j for j, nd in g.nodes.items() for cc in node_calls(nd) if callee_name(cc) == "ensure_dir_exists" and var in norm(cc)]
            bad = must_pass(g, [i], mk)
            rep.ob("R16.13", m.rel, f.qual, f"the parent directories of `{var}` are created before its lock is taken", bool(mk) and not bad,
                   "the lock file is opened in a directory that may not exist yet (siblings call ensure_dir_exists first): the operation fails with "
                   "FileNotFoundError for the first ref below a new directory", c.lineno)
            if writes:
                rm = [j for j, nd in g.nodes.items() for cc in node_calls(nd) if callee_name(cc) in ("_remove_empty_dirs_at", "remove_empty_directories") and var in norm(cc)]
                bad2 = must_pass(g, [i], rm)
                rep.ob("R16.13", m.rel, f.qual, f"empty directories standing at `{var}` are removed before the ref file is written", bool(rm) and not bad2,
                       "a failed or interrupted update of refs/heads/a/b leaves the empty directory refs/heads/a: the rename of the lock file onto it fails "
                       "(IsADirectoryError) and add_if_new takes the directory for an existing ref, although no ref is in the way", c.lineno)
    if n < 4:
        raise AnalysisError(f"expected >= 4 ref-file lock sites in DiskRefsContainer, found {n}")


def _packed_probes(fnode, module=None):
    """Statements of a function body that refuse a name colliding with a PACKED ref: {'up': [...], 'down': [...]}.
    up   = a loop that walks the ancestors of the name (os.path.dirname) and raises when one is found in packed refs;
    down = a test / loop with startswith(<name> + b"/") over the packed names that raises."""
    packedish = {t.id for x in ast.walk(fnode) if isinstance(x, ast.Assign) and isinstance(x.value, ast.Call) and callee_name(x.value) == "get_packed_refs"
                 for t in x.targets if isinstance(t, ast.Name)}

    def mentions_packed(node):
        return any((isinstance(y, ast.Name) and y.id in packedish) or (isinstance(y, ast.Call) and callee_name(y) == "get_packed_refs") for y in ast.walk(node))

    slash = any(isinstance(y, ast.BinOp) and isinstance(y.op, ast.Add) and isinstance(y.right, ast.Constant) and y.right.value == b"/" for y in ast.walk(fnode))
    # module-level generators that climb the ancestors of a name (a loop over os.path.dirname that yields)
    climbers = set()
    if module is not None:
        for q_, f_ in module.funcs.items():
            if f_.cls is None and "#" not in q_ and any(isinstance(y, (ast.Yield, ast.YieldFrom)) for y in ast.walk(f_.node)) \
                    and any(isinstance(y, ast.Call) and callee_name(y) == "dirname" for y in ast.walk(f_.node)):
                climbers.add(f_.name)

    def climbs(node):
        return any(isinstance(y, ast.Call) and (callee_name(y) == "dirname" or callee_name(y) in climbers) for y in ast.walk(node))
    out = {"up": [], "down": []}
    for x in ast.walk(fnode):
        if isinstance(x, (ast.While, ast.For)) and any(isinstance(y, ast.Raise) for y in ast.walk(x)) and mentions_packed(x):
            if climbs(x):
                out["up"].append(x.test if isinstance(x, ast.While) else x.iter)
            if slash and any(isinstance(y, ast.Call) and callee_name(y) == "startswith" for y in ast.walk(x)):
                out["down"].append(x.test if isinstance(x, ast.While) else x.iter)
        # the same search spelled `if any(<packed lookup> for p in <ancestors of the name>): raise`
        if isinstance(x, ast.If) and any(isinstance(y, ast.Raise) for y in x.body) and mentions_packed(x.test) and climbs(x.test) \
                and any(isinstance(y, ast.Call) and callee_name(y) in ("any", "next") for y in ast.walk(x.test)):
            out["up"].append(x.test)
        if isinstance(x, ast.If) and slash and any(isinstance(y, ast.Raise) for y in x.body) and mentions_packed(x.test) \
                and any(isinstance(y, ast.Call) and callee_name(y) == "startswith" for y in ast.walk(x.test)):
            out["down"].append(x.test)
    return out


def r16_15(prog: Program, rep):
    """SIBLINGS-AGREE on the file/directory collision test against PACKED refs.  Between loose refs the file system refuses
    refs/heads/a next to refs/heads/a/b; a packed ref has no file or directory in the way, so every method of DiskRefsContainer that
    takes a ref file's lock in order to write it probes packed-refs first, upwards (an ancestor of the name is a packed ref) and
    downwards (a packed ref lives below the name) - in its own body or through a method of the class that does."""
    from sa.flow import must_pass
    from sa.cfg import node_calls
    from sa.common import is_gitfile_call, gitfile_mode
    m = prog.module("dulwich/refs.py")
    helpers = {}
    for q, f in m.funcs.items():
        if q.startswith("DiskRefsContainer.") and "#" not in q:
            pr = _packed_probes(f.node, m)
            if pr["up"] or pr["down"]:
                helpers[f.name] = pr
    n = 0
    for q, f in sorted(m.funcs.items()):
        if not q.startswith("DiskRefsContainer.") or "#" in q:
            continue
        if not any(isinstance(c, ast.Call) and isinstance(c.func, ast.Attribute) and c.func.attr == "write" for c in ast.walk(f.node)):
            continue
        g = cfg_of(prog, f)
        locks = []
        for i, nd in g.nodes.items():
            for c in node_calls(nd):
                if is_gitfile_call(prog, m, c) and "w" in (gitfile_mode(c) or "") and c.args and isinstance(c.args[0], ast.Name):
                    if any(isinstance(s_, ast.Assign) and isinstance(s_.targets[0], ast.Name) and s_.targets[0].id == c.args[0].id and isinstance(s_.value, ast.Call)
                           and callee_name(s_.value) == "refpath" for s_ in ast.walk(f.node)):
                        locks.append((i, c))
        own = _packed_probes(f.node, m)
        for i, c in locks:
            for d, what in (("up", "an ancestor of the name that is a packed ref"), ("down", "a packed ref below the name")):
                through = [j for e in own[d] for j in g.nodes_containing(e)]
                through += [j for j, nd in g.nodes.items() for cc in node_calls(nd)
                            if isinstance(cc.func, ast.Attribute) and cc.func.attr in helpers and helpers[cc.func.attr][d] and cc.func.attr != f.name]
                bad = must_pass(g, [i], through)
                n += 1
                rep.ob("R16.15", m.rel, f.qual, f"{what} is looked for before `{c.args[0].id}` is locked for writing", bool(through) and not bad,
                       "the name is written although it collides, as file versus directory, with a ref that lives only in packed-refs: both refs exist "
                       "afterwards (git refuses the name; so does dulwich while the other ref is loose - packing changes the outcome)", c.lineno)
    if n < 6:
        raise AnalysisError(f"expected >= 6 (writer, direction) pairs in DiskRefsContainer, found {n}")


def r16_16(prog: Program, rep):
    """TABLE-AGREE, reftable ref records: the suffix_and_type field (name suffix length << 3 | value type) is written and read with
    ONE codec that is total over the lengths a ref name can have - git's reftable varint, the offset encoding of varint.c (most
    significant 7-bit group first, every continuation group biased by one).  A fixed two-byte form is only right below 256, i.e. for
    suffixes shorter than 32 bytes: longer names were acknowledged and lost."""
    m = prog.module("dulwich/reftable.py")
    rr = m.funcs.get("RefRecord.encode"), m.funcs.get("RefRecord.decode")
    if None in rr:
        raise AnalysisError("reftable.RefRecord.encode/decode not found")

    def field_codec(fn, kind):
        # the function whose result carries / reads the field: a call whose argument shifts the suffix length by 3, or the first
        # call that reads from the stream into a name containing 'suffix'
        for c in ast.walk(fn.node):
            if isinstance(c, ast.Call) and isinstance(c.func, ast.Name) and c.func.id in m.funcs:
                if kind == "enc" and any(isinstance(y, ast.BinOp) and isinstance(y.op, ast.LShift) and isinstance(y.right, ast.Constant) and y.right.value == 3
                                         for a_ in c.args for y in ast.walk(a_)):
                    return m.funcs[c.func.id]
                if kind == "dec":
                    st = m.enclosing_stmt(c)
                    if isinstance(st, ast.Assign) and isinstance(st.targets[0], ast.Name) and "suffix" in st.targets[0].id and "type" in st.targets[0].id:
                        return m.funcs[c.func.id]
        return None
    enc, dec = field_codec(rr[0], "enc"), field_codec(rr[1], "dec")
    if enc is None or dec is None:
        raise AnalysisError("reftable: the codec functions of the suffix_and_type field not found")
    loops_e = [x for x in ast.walk(enc.node) if isinstance(x, (ast.While, ast.For))]
    bias_e = any(isinstance(x, ast.AugAssign) and isinstance(x.op, ast.Sub) and isinstance(x.value, ast.Constant) and x.value.value == 1 for l in loops_e for x in ast.walk(l))
    src_e = norm(enc.node, 100000)
    msb_e = "reversed(" in src_e or ".insert(0," in src_e or "[::-1]" in src_e
    rep.ob("R16.16", m.rel, enc.qual, "the suffix_and_type writer is a varint loop (total over name lengths): msb first, continuation groups biased by one",
           bool(loops_e) and bias_e and msb_e,
           f"loop={bool(loops_e)} bias={bias_e} msb-first={msb_e}: a fixed-width form cannot hold (len(name) << 3 | type) for names of 32 bytes and more - "
           "the record is written in a form the reader cannot decode (the write is acknowledged, the ref does not exist) or the encoder raises", enc.node.lineno)
    loops_d = [x for x in ast.walk(dec.node) if isinstance(x, ast.While)]
    # the per-byte update of the accumulator, composed whatever way it is spelled (as R11.5 does for the index codec)
    from sa.common import compose_update, expr_key
    from sa.consts import Folder
    import re as _re
    F_ = Folder(prog, m)
    step = False
    for l in loops_d:
        accs = {(s_.targets[0] if isinstance(s_, ast.Assign) else s_.target).id for s_ in l.body if isinstance(s_, (ast.Assign, ast.AugAssign))
                and isinstance((s_.targets[0] if isinstance(s_, ast.Assign) else s_.target), ast.Name)
                and (any(isinstance(y, ast.BinOp) and isinstance(y.op, ast.LShift) for y in ast.walk(s_)) or (isinstance(s_, ast.AugAssign) and isinstance(s_.op, ast.LShift)))}
        for acc in accs:
            e_ = compose_update([s_ for s_ in l.body if isinstance(s_, (ast.Assign, ast.AugAssign))
                                 and norm(s_.targets[0] if isinstance(s_, ast.Assign) else s_.target) == acc], acc)
            step = step or bool(_re.fullmatch(r"Add\(BitAnd\(127,\w+\),LShift\(Add\(1," + acc + r"\),7\)\)", expr_key(e_, F_)))
    growing = any(isinstance(x, ast.BinOp) and isinstance(x.op, ast.LShift) and isinstance(x.right, ast.Name) for x in ast.walk(dec.node))
    rep.ob("R16.16", m.rel, dec.qual, "the suffix_and_type reader inverts the writer: per byte ((acc + 1) << 7) + (byte & 0x7f), no second format guessed",
           bool(loops_d) and step and not growing,
           f"loop={bool(loops_d)} biased-step={step} little-endian-shift={growing}: reader and writer of the field disagree for some lengths", dec.node.lineno)


def r16_14(prog: Program, rep):
    """add_if_new of the files backend: the existence test made under the lock looks the RESOLVED name up in packed-refs (the name
    whose file is locked), not the name the caller passed - through HEAD that is the symbolic ref, which is never packed."""
    m = prog.module("dulwich/refs.py")
    f = m.funcs.get("DiskRefsContainer.add_if_new")
    if f is None:
        raise AnalysisError("DiskRefsContainer.add_if_new not found")
    ps = [a.arg for a in f.node.args.args]
    raw = ps[1] if len(ps) > 1 else "name"
    tests = [c for c in ast.walk(f.node) if isinstance(c, ast.Compare) and isinstance(c.ops[0], (ast.In, ast.NotIn)) and "get_packed_refs()" in norm(c.comparators[0])]
    if not tests:
        raise AnalysisError("add_if_new: membership test in get_packed_refs() not found")
    bad = [c for c in tests if isinstance(c.left, ast.Name) and c.left.id == raw]
    rep.ob("R16.14", m.rel, f.qual, "the packed-refs lookup under the lock uses the resolved name", not bad,
           f"`{norm(bad[0])}` looks up the caller's name: for add_if_new(HEAD, ..) on a branch that exists only in packed-refs the branch is taken for new "
           f"and overwritten (first commit racing with pack_refs)" if bad else "", tests[0].lineno)


def run(prog: Program, rep, tier="quick"):
    rep.rule("R16.1", "UNREACHABLE-UNDER(old_ref is None): no `return False` in set_if_equals/remove_if_equals of any backend")
    rep.rule("R16.2", "set_if_equals/add_if_new/remove_if_equals return a bool expression on every normal path")
    rep.rule("R16.3", "SIBLINGS-AGREE: the value compared with old_ref defaults to ZERO_SHA when the ref is absent")
    rep.rule("R16.4", "writable backends override the abstract operations; overrides accept the base signature")
    rep.rule("R16.5", "TABLE-AGREE: check_ref_format tests every rule of git-check-ref-format(1), each on a path to False")
    rep.rule("R16.14", "add_if_new looks the resolved name up in packed-refs")
    rep.rule("R16.16", "TABLE-AGREE: reftable suffix_and_type is written and read with one total varint codec (git's offset encoding)")
    rep.rule("R16.15", "SIBLINGS-AGREE: every ref-file write of the files backend refuses names colliding with a PACKED ref, upwards and downwards")
    rep.rule("R16.13", "SIBLINGS-AGREE: every ref-file write of the files backend first removes empty directories in the way and creates the parent directories")
    r16_13(prog, rep)
    r16_14(prog, rep)
    r16_15(prog, rep)
    r16_16(prog, rep)
    rep.rule("R16.12", "pack_refs never packs a symbolic ref (packing refs changes nothing observable)")
    r16_12(prog, rep)
    rep.rule("R16.11", "add_if_new decides existence through the backend's merged read and the resolved value; namespace views answer in their own names")
    rep.rule("R16.10", "TABLE-AGREE with git: symref resolution depth (SYMREF_MAXDEPTH = 5)")
    rep.rule("R16.9", "unconditional (old_ref=None) set/remove always take effect: no `return True` without a state mutation before it")
    rep.rule("R16.7", "files backend: after symref resolution, paths and file/directory conflict probes use the resolved name")
    rep.rule("R16.8", "files backend: every successful delete passes the empty-parent-directory cleanup")
    rep.rule("R16.6", "packed-refs grammar: writer and readers agree on '<sha> SP <name> LF', '^<sha> LF', header")
    rep.not_decided += ["equality with the map model over operation sequences", "directory/file conflicts",
                        "git's own view of the directory"]
    bks = backends(prog)
    if len(bks) < 4:
        raise AnalysisError(f"RefsContainer hierarchy has {len(bks)} classes, expected >= 4")
    rep.count("classes in the RefsContainer hierarchy", len(bks))
    base = prog.func(REFS_PY, "RefsContainer.set_if_equals")
    for cls in bks:
        m = cls.module
        own = {name: m.funcs.get(f"{cls.name}.{name}") for name in ABSTRACT + ("__setitem__", "__delitem__")}
        # ---- R16.1 / R16.2 / R16.3
        for name in ("set_if_equals", "add_if_new", "remove_if_equals"):
            f = own[name]
            if f is None or _is_abstract(f):
                continue
            if name in COND:
                out = []
                env = {"old_ref": NONE}
                reachable_returns(f.node.body, env, out,
                                  lambda r: isinstance(r.value, ast.Constant) and r.value.value is False)
                rep.ob("R16.1", m.rel, f.qual, "old_ref=None is unconditional", not out,
                       "with old_ref=None (documented: unconditional) a `return False` is still reachable: "
                       "refs[x] = value over an existing ref / del refs[x] silently does nothing",
                       out[0].lineno if out else f.node.lineno, [r.lineno for r in out])
                # R16.9 unconditional operations take effect: under old_ref=None every `return True` is preceded by a
                # mutation of the backend's state (tests decided by that fact are evaluated, the rest is path-insensitive)
                from sa.peval import ev
                from sa.common import cfg_of
                from sa.flow import must_pass
                from sa.cfg import node_calls
                g9 = cfg_of(prog, f)
                rets9 = [i for i, n in g9.nodes.items() if n.kind == "stmt" and isinstance(n.ast, ast.Return)
                         and isinstance(n.ast.value, ast.Constant) and n.ast.value.value is True]
                if rets9:
                    def effect(n):
                        a = n.ast
                        if n.kind != "stmt":
                            return False
                        if isinstance(a, ast.Delete) and any(isinstance(t, ast.Subscript) for t in a.targets):
                            return True
                        if isinstance(a, (ast.Assign, ast.AugAssign)) and any(isinstance(t, ast.Subscript) for t in (a.targets if isinstance(a, ast.Assign) else [a.target])):
                            return True
                        for c in node_calls(n):
                            if callee_name(c) in ("pop", "_write_ref_update", "_remove_packed_ref", "remove", "unlink", "write", "_update_ref",
                                                  "add_packed_refs", "_notify", "delete", "_remove_ref", "set_symbolic_ref", "_write_ref"):
                                return True
                        return False
                    eff9 = {i for i, n in g9.nodes.items() if effect(n)}
                    env9 = {"old_ref": NONE}

                    def edge9(a, b, l):
                        n = g9.nodes[a]
                        if n.kind == "test" and l in ("true", "false"):
                            t = ev(n.ast, env9)[1]
                            if t is not None and (l == "true") != t:
                                return False
                        return True
                    # accepted idiom (set only): "the ref already has the requested value" - the true edge of an equality
                    # test between a value that was read and the new value counts as the effect being in place
                    newp = [a.arg for a in f.node.args.args][3:4] if name == "set_if_equals" else []
                    for i9, n9 in g9.nodes.items():
                        if n9.kind == "test" and isinstance(n9.ast, ast.Compare) and len(n9.ast.ops) == 1 and isinstance(n9.ast.ops[0], ast.Eq) and newp \
                                and newp[0] in {x.id for x in ast.walk(n9.ast) if isinstance(x, ast.Name)}:
                            for b9, l9 in g9.succ[i9]:
                                if l9 == "true":
                                    eff9.add(b9)
                    bad9 = must_pass(g9, rets9, eff9, edge_ok=edge9)
                    rep.ob("R16.9", m.rel, f.qual, "with old_ref=None every `return True` follows a mutation of the backend's state", not bad9,
                           "an unconditional update/delete can answer True without having changed anything (an early `return True` on a "
                           "lookup that does not see every kind of ref): the ref is still there afterwards",
                           g9.nodes[bad9[0]].line if bad9 else f.node.lineno)
                deleg = _delegates(f, COND)
                zero = any(isinstance(x, ast.Name) and x.id in ("ZERO_SHA",) for x in ast.walk(f.node)) or \
                    any(isinstance(x, ast.Attribute) and x.attr in ("zero_oid", "ZERO_SHA") for x in ast.walk(f.node))
                rep.ob("R16.3", m.rel, f.qual, "absent ref compares as ZERO_SHA", zero or deleg,
                       "the current value of a missing ref is not defaulted to the zero id before it is compared with "
                       "old_ref: set_if_equals(name, ZERO_SHA, new) cannot create a ref", f.node.lineno)
            # R16.2 totality: every return carries a bool-typed expression and the body cannot fall off its end
            bad = []
            for r in ast.walk(f.node):
                if isinstance(r, ast.Return) and f.module.enclosing_func(r) is f:
                    v = r.value
                    ok = v is not None and (
                        (isinstance(v, ast.Constant) and isinstance(v.value, bool))
                        or isinstance(v, (ast.Compare, ast.BoolOp, ast.Call, ast.Name))
                        or (isinstance(v, ast.UnaryOp) and isinstance(v.op, ast.Not)))
                    if not ok:
                        bad.append(r.lineno)
            falls = reachable_returns(f.node.body, {}, [], lambda r: False)
            rep.ob("R16.2", m.rel, f.qual, "returns a bool on every normal path", not bad and not falls,
                   ("a normal path falls off the end of the function (returns None)" if falls else
                    f"a return carries a non-bool value (lines {bad})"), f.node.lineno)
        # ---- R16.4
        writable = any(own[n] is not None and not _is_abstract(own[n]) for n in ("set_if_equals", "add_if_new",
                                                                               "remove_if_equals", "set_symbolic_ref"))
        if cls.name != "RefsContainer" and writable:
            for name in ABSTRACT:
                res = prog.method(cls.name, name)
                ok = res is not None and not _is_abstract(res)
                rep.ob("R16.4", m.rel, cls.name, f"implements {name}", ok,
                       f"{cls.name} is writable but {name} resolves to the abstract base", cls.node.lineno)
                basef = prog.module(REFS_PY).funcs.get(f"RefsContainer.{name}")
                if ok and basef is not None and res.cls != "RefsContainer":
                    bp, op = params(basef.node), params(res.node)
                    has_kwargs = res.node.args.kwarg is not None
                    missing = [p for p in bp if p not in op]
                    # positional order of the shared leading parameters
                    lead = [p for p in bp if p in op]
                    order_ok = [p for p in op if p in lead] == lead
                    rep.ob("R16.4", m.rel, res.qual, "accepts every call made through the base signature",
                           (not missing or has_kwargs) and order_ok,
                           f"parameters of the base not accepted: {missing}", res.node.lineno)
    # ---- R16.7 resolved-name discipline in the files backend: once a method has resolved a symbolic ref to `realname`,
    # the file path and the file/directory conflict probe are computed from it, never from the name it was called with
    dm = prog.module(REFS_PY)
    n7 = 0
    probe_helpers = {f_.name for q_, f_ in dm.funcs.items() if f_.cls == "DiskRefsContainer" and "#" not in q_
                     and any(_packed_probes(f_.node, dm).values())}
    for q, f in dm.funcs.items():
        if f.cls != "DiskRefsContainer" or "#" in q:
            continue
        defs = [s_ for s_ in ast.walk(f.node) if isinstance(s_, ast.Assign) and isinstance(s_.targets[0], ast.Name) and s_.targets[0].id == "realname"]
        if not defs:
            continue
        pnames = [a.arg for a in f.node.args.args[1:2]]
        # "after the resolution" by control flow, not by line number (inlined helper code keeps the helper's line numbers)
        g7 = cfg_of(prog, f)
        from sa.flow import reach as _reach7
        from sa.cfg import node_calls as _nc7
        after = _reach7(g7, [i for i, n in g7.nodes.items() if n.kind == "stmt" and n.ast in defs])
        later_calls = {id(c) for i in after for c in _nc7(g7.nodes[i])}
        for c in ast.walk(f.node):
            if isinstance(c, ast.Call) and id(c) in later_calls and (callee_name(c) == "refpath" or dotted(c.func) == "os.path.dirname"
                                                                                    or (callee_name(c) in probe_helpers and callee_name(c) != f.name)) and c.args:
                used = {x.id for x in ast.walk(c.args[0]) if isinstance(x, ast.Name)}
                if not used & (set(pnames) | {"realname"}):
                    continue
                n7 += 1
                rep.ob("R16.7", REFS_PY, f.qual, f"{norm(c, 50)} uses the resolved name", not (used & set(pnames)),
                       f"after the symbolic ref was resolved to `realname`, `{norm(c, 50)}` is computed from the name the "
                       f"method was called with: through a symref the path or the file/directory conflict probe belongs to "
                       f"the wrong ref", c.lineno)
    if n7 < 3:
        raise AnalysisError(f"expected >= 3 path computations after symref resolution, found {n7}")
    # ---- R16.8 deleting a ref cleans up the directories that became empty (so that the name can be reused as a ref):
    # every successful return of remove_if_equals passes the rmdir loop
    rf = prog.func(REFS_PY, "DiskRefsContainer.remove_if_equals")
    g = cfg_of(prog, rf)
    rets = [i for i, n in g.nodes.items() if n.kind == "stmt" and isinstance(n.ast, ast.Return)
            and isinstance(n.ast.value, ast.Constant) and n.ast.value.value is True]
    rmdir = [i for i, n in g.nodes.items() for c in __import__("sa.cfg", fromlist=["node_calls"]).node_calls(n) if dotted(c.func) == "os.rmdir"]
    from sa.flow import must_pass as _mp
    # the loop may legitimately end before reaching rmdir when the name has no parent below refs/: accept the loop head
    # (any node of the loop that contains the rmdir counts - its test, its first statement - however the loop is spelled)
    loops8 = [w for w in ast.walk(rf.node) if isinstance(w, (ast.While, ast.For)) and any(isinstance(c, ast.Call) and dotted(c.func) == "os.rmdir" for c in ast.walk(w))]
    inner = {id(x) for w in loops8 for x in ast.walk(w)}
    heads = [i for i, n in g.nodes.items() if n.ast is not None and id(n.ast) in inner]
    bad = _mp(g, rets, set(rmdir) | set(heads))
    rep.ob("R16.8", REFS_PY, rf.qual, "every successful delete passes the empty-parent-directory cleanup", bool(rets) and bool(rmdir) and not bad,
           "a `return True` is reachable without the cleanup of parent directories: an empty directory (left by the lock "
           "file's ensure_dir_exists or by pack_refs) then blocks re-creating a ref of the same name as the directory",
           g.nodes[bad[0]].line if bad else rf.node.lineno)
    # ---- R16.10 symbolic-ref depth: git resolves chains of up to SYMREF_MAXDEPTH = 5 symbolic hops; the loop bound of
    # follow() must be the test `depth > 5` (or an equivalent spelling), evaluated after the increment
    fo = prog.func(REFS_PY, "RefsContainer.follow")
    from sa.common import var_cmp, same_int_test
    Ff = Folder(prog, prog.module(REFS_PY))
    bounds = []
    for x in ast.walk(fo.node):
        if isinstance(x, ast.If) and any(isinstance(r, ast.Raise) and "SymrefLoop" in norm(r) for r in x.body):
            v = var_cmp(x.test, Ff)
            if v is not None:
                bounds.append((x, v))
    ok10 = len(bounds) == 1 and same_int_test(bounds[0][1][1], bounds[0][1][2], ">", 5)
    rep.ob("R16.10", REFS_PY, fo.qual, "symbolic refs are followed for as many hops as git follows them (raise only when depth > 5)", ok10,
           (f"the loop gives up when `{norm(bounds[0][0].test)}`" if bounds else "no depth bound found") +
           ": a loop-free chain that git still resolves raises SymrefLoop here (and updates through it detach HEAD)",
           bounds[0][0].lineno if bounds else fo.node.lineno)
    # ---- R16.11 add_if_new decides existence through the backend's own merged read (the one lookups use) and looks at the value
    # that read returns; a namespace view answers in the names of the view
    EXIST_READS = {"follow", "read_loose_ref", "read_ref", "get_packed_refs", "__contains__"}
    n11 = 0
    for cls in bks:
        m11 = cls.module
        f11 = m11.funcs.get(f"{cls.name}.add_if_new")
        if f11 is None or _is_abstract(f11) or _delegates(f11, ("add_if_new",)):
            continue
        n11 += 1
        reads = [c for c in ast.walk(f11.node) if isinstance(c, ast.Call) and callee_name(c) in EXIST_READS and isinstance(c.func, ast.Attribute)
                 and isinstance(c.func.value, ast.Name) and c.func.value.id == "self"]
        in_tests = [x for x in ast.walk(f11.node) if isinstance(x, ast.Compare) and isinstance(x.ops[0], (ast.In, ast.NotIn)) and norm(x.comparators[0]).startswith("self._refs")]
        rep.ob("R16.11", m11.rel, f11.qual, "existence is decided through the backend's merged read (follow / read_loose_ref / the ref map)", bool(reads) or bool(in_tests),
               "add_if_new scans the storage by itself instead of using the read the lookups use: records that the merged view interprets (a deletion "
               "record, a newer table) count as 'exists' or are missed", f11.node.lineno)
        # the value follow() returns is looked at (a symref chain whose target exists only packed / under another name)
        for a_ in [x for x in ast.walk(f11.node) if isinstance(x, ast.Assign) and isinstance(x.value, ast.Call) and callee_name(x.value) == "follow"
                   and isinstance(x.targets[0], ast.Tuple) and len(x.targets[0].elts) == 2]:
            v2 = a_.targets[0].elts[1]
            used = isinstance(v2, ast.Name) and v2.id != "_" and any(isinstance(y, ast.Name) and y.id == v2.id and isinstance(y.ctx, ast.Load) for y in ast.walk(f11.node))
            rep.ob("R16.11", m11.rel, f11.qual, "the value follow() resolves to decides whether the ref exists", used,
                   "the resolved value is thrown away: whether the ref exists is then decided from one file name / one packed entry, which misses a "
                   "symbolic ref whose target exists only in packed-refs (add_if_new through HEAD overwrites it)", a_.lineno)
    if n11 < 3:
        raise AnalysisError(f"expected >= 3 own add_if_new implementations, found {n11}")
    ns = prog.module(REFS_PY).funcs.get("NamespacedRefsContainer.get_packed_refs")
    if ns is None:
        raise AnalysisError("NamespacedRefsContainer.get_packed_refs not found")
    strip_vars = {x.targets[0].id for x in ast.walk(ns.node) if isinstance(x, ast.Assign) and isinstance(x.targets[0], ast.Name) and isinstance(x.value, ast.Call)
                  and callee_name(x.value) == "_strip_namespace"}
    strip_vars |= {x.target.id for x in ast.walk(ns.node) if isinstance(x, ast.NamedExpr) and isinstance(x.value, ast.Call) and callee_name(x.value) == "_strip_namespace"}

    def stripped_key(k):
        return any((isinstance(y, ast.Call) and callee_name(y) == "_strip_namespace") or (isinstance(y, ast.Name) and y.id in strip_vars) for y in ast.walk(k))
    keys = [x.key for x in ast.walk(ns.node) if isinstance(x, ast.DictComp)] + \
        [x.targets[0].slice for x in ast.walk(ns.node) if isinstance(x, ast.Assign) and isinstance(x.targets[0], ast.Subscript)]
    rep.ob("R16.11", REFS_PY, ns.qual, "the namespace view keys its packed refs by the stripped names", bool(keys) and all(stripped_key(k) for k in keys),
           "the dict is keyed by the names of the underlying container: the inherited read_ref looks up the view's (stripped) name and never finds "
           "a packed-only ref", ns.node.lineno)
    # ---- R16.5
    m = prog.module(REFS_PY)
    crf = prog.func(REFS_PY, "check_ref_format")
    F = Folder(prog, m)
    src = norm(crf.node, 100000)
    pname = crf.node.args.args[0].arg
    found = {}

    # expressions in REJECTING position: their truth makes the function answer False.  Roots: the condition of an `if` whose
    # body returns False, and E in `return not E`; through and/or operands and through any(<generator>) to its element.
    rejecting = set()

    def propagate(e):
        rejecting.add(id(e))
        if isinstance(e, ast.BoolOp):
            for v_ in e.values:
                propagate(v_)
        elif isinstance(e, ast.Call) and callee_name(e) == "any" and e.args and isinstance(e.args[0], (ast.GeneratorExp, ast.ListComp)):
            propagate(e.args[0].elt)
    for x in ast.walk(crf.node):
        if isinstance(x, ast.If) and any(isinstance(s_, ast.Return) and isinstance(s_.value, ast.Constant) and s_.value.value is False for s_ in x.body):
            propagate(x.test)
        if isinstance(x, ast.Return) and isinstance(x.value, ast.UnaryOp) and isinstance(x.value.op, ast.Not):
            propagate(x.value.operand)

    def on_false_path(test_node) -> bool:
        return id(test_node) in rejecting
    in_tests, eq_tests, starts, ends, lt_tests, sub_in = set(), set(), set(), set(), set(), set()
    for x in ast.walk(crf.node):
        if isinstance(x, ast.Compare) and len(x.ops) == 1 and on_false_path(x):
            op = x.ops[0]
            try:
                if isinstance(op, ast.In) and isinstance(x.left, ast.Constant):
                    in_tests.add(x.left.value)
                elif isinstance(op, ast.NotIn) and isinstance(x.left, ast.Constant):
                    in_tests.add(("notin", x.left.value))
                elif isinstance(op, ast.Eq):
                    eq_tests.add(F.fold(x.comparators[0]))
                elif isinstance(op, ast.Lt):
                    lt_tests.add(F.fold(x.comparators[0]))
                elif isinstance(op, ast.In):
                    v = F.fold(x.comparators[0])
                    sub_in.add(frozenset(v) if not isinstance(v, (bytes, str)) else frozenset(v))
            except Unfoldable:
                pass
        if isinstance(x, ast.Call) and isinstance(x.func, ast.Attribute) and x.func.attr in ("startswith", "endswith") \
                and x.args and isinstance(x.args[0], ast.Constant) and on_false_path(x):
            (starts if x.func.attr == "startswith" else ends).add(x.args[0].value)
        if isinstance(x, ast.UnaryOp) and isinstance(x.op, ast.Not) and isinstance(x.operand, ast.Name) and on_false_path(x):
            found["empty component"] = True
    if len(in_tests) + len(eq_tests) + len(starts) + len(ends) < 5:
        raise AnalysisError("check_ref_format: extractor recognised fewer than 5 tests (function rewritten into an "
                            "unknown shape?)")
    charset = set()
    for s in sub_in:
        charset |= set(s)
    REF = [
        ("exact '@' is refused", b"@" in eq_tests),
        ("a name without '/' is refused", ("notin", b"/") in in_tests),
        ("'..' is refused", b".." in in_tests),
        ("control bytes < 0o40 are refused", 0o40 in lt_tests),
        ("DEL, space, ~ ^ : ? * [ are refused", set(b"\177 ~^:?*[") <= charset),
        ("trailing '/' or '.' is refused", {ord("/"), ord(".")} <= charset or (b"/" in ends and b"." in ends)),
        ("'@{' is refused", b"@{" in in_tests),
        ("backslash is refused", b"\\" in in_tests),
        ("empty component is refused", found.get("empty component", False)),
        ("component starting with '.' is refused", b"." in starts),
        ("component ending with '.lock' is refused", b".lock" in ends),
    ]
    for what, ok in REF:
        rep.ob("R16.5", REFS_PY, "check_ref_format", what, ok,
               "a rule of git-check-ref-format(1) is not tested (or not on a path returning False)", crf.node.lineno)
    # every conditional in the function leads to `return False` (no rule turned into a no-op)
    noop = [x for x in ast.walk(crf.node) if isinstance(x, ast.If) and not any(
        isinstance(s, ast.Return) and isinstance(s.value, ast.Constant) and s.value.value is False for s in x.body)]
    rep.ob("R16.5", REFS_PY, "check_ref_format", "every test returns False", not noop,
           f"a test no longer rejects: `{norm(noop[0].test, 60)}`" if noop else "", noop[0].lineno if noop else crf.node.lineno)
    last_ = crf.node.body[-1]
    final_true = isinstance(last_, ast.Return) and ((isinstance(last_.value, ast.Constant) and last_.value.value is True) or
                                                    (isinstance(last_.value, ast.UnaryOp) and isinstance(last_.value.op, ast.Not) and id(last_.value.operand) in rejecting))
    rep.ob("R16.5", REFS_PY, "check_ref_format", "falls through to True", final_true, "", crf.node.lineno)
    # the refs container applies the check on every name it writes
    chk = prog.func(REFS_PY, "RefsContainer._check_refname")
    uses = any(isinstance(c, ast.Call) and callee_name(c) == "check_ref_format" for c in ast.walk(chk.node))
    raises = any(isinstance(x, ast.Raise) for x in ast.walk(chk.node))
    rep.ob("R16.5", REFS_PY, chk.qual, "_check_refname applies check_ref_format and raises", uses and raises, "", chk.node.lineno)
    for cls in bks:
        for name in ("set_if_equals", "remove_if_equals", "set_symbolic_ref", "add_if_new"):
            f = cls.module.funcs.get(f"{cls.name}.{name}")
            if f is None or _is_abstract(f) or cls.name not in ("DiskRefsContainer", "DictRefsContainer"):
                continue
            calls = any(isinstance(c, ast.Call) and callee_name(c) == "_check_refname" for c in ast.walk(f.node))
            if name == "remove_if_equals" and cls.name == "DictRefsContainer":
                continue   # removing an invalid name from a map cannot create it
            rep.ob("R16.5", cls.module.rel, f.qual, "validates the ref name before writing", calls,
                   "a ref is written without _check_refname", f.node.lineno)
    # ---- R16.6 packed-refs grammar
    w = prog.func(REFS_PY, "write_packed_refs")
    wsrc = norm(w.node, 100000)
    gl = prog.func("dulwich/objects.py", "git_line")
    sep_ok = "b' '.join" in norm(gl.node, 10000) and "b'\\n'" in norm(gl.node, 10000)
    rep.ob("R16.6", REFS_PY, "write_packed_refs", "entries written as git_line(sha, name) = sha SP name LF",
           "git_line(" in wsrc and sep_ok, "", w.node.lineno)
    rep.ob("R16.6", REFS_PY, "write_packed_refs", "peeled lines written as '^' + sha + LF", "b'^' +" in wsrc and "+ b'\\n'" in wsrc,
           "", w.node.lineno)
    rep.ob("R16.6", REFS_PY, "write_packed_refs", "sorted by name", "sorted(" in wsrc, "", w.node.lineno)
    sp = prog.func(REFS_PY, "_split_ref_line")
    ssrc = norm(sp.node, 100000)
    rep.ob("R16.6", REFS_PY, "_split_ref_line", "split on SP into exactly two fields, sha and name validated",
           "split(b' ')" in ssrc and "valid_hexsha" in ssrc and "check_ref_format" in ssrc and "!= 2" in ssrc, "", sp.node.lineno)
    for rn in ("read_packed_refs", "read_packed_refs_with_peeled"):
        r = prog.func(REFS_PY, rn)
        rsrc = norm(r.node, 100000)
        rep.ob("R16.6", REFS_PY, rn, "comment '#' skipped, peeled prefix '^' recognised, lines through _split_ref_line",
               "startswith(b'#')" in rsrc and "startswith(b'^')" in rsrc and "_split_ref_line" in rsrc, "", r.node.lineno)
        # every yield is of a validated line
        ys = [y for y in ast.walk(r.node) if isinstance(y, (ast.Yield, ast.YieldFrom))]
        rep.ob("R16.6", REFS_PY, rn, "yields only validated entries", bool(ys) and all(
            "_split_ref_line" in norm(y) or any(isinstance(nm, ast.Name) and nm.id in ("sha", "name") for nm in ast.walk(y))
            for y in ys), "", r.node.lineno)
    hdr = [c for c in ast.walk(w.node) if isinstance(c, ast.Constant) and isinstance(c.value, bytes) and c.value.startswith(b"# pack-refs")]
    gpr = prog.func(REFS_PY, "DiskRefsContainer.get_packed_refs")
    rd_hdr = [c for c in ast.walk(gpr.node) if isinstance(c, ast.Constant) and isinstance(c.value, bytes) and c.value.startswith(b"# pack-refs")]
    rep.ob("R16.6", REFS_PY, "write_packed_refs", "header written by the writer is the one the reader looks for",
           bool(hdr) and bool(rd_hdr) and hdr[0].value.rstrip(b"\n").startswith(rd_hdr[0].value.rstrip(b"\n")),
           f"writer {hdr[0].value if hdr else None!r} reader {rd_hdr[0].value if rd_hdr else None!r}", w.node.lineno)
    rep.floor("R16.1", 6)
    rep.floor("R16.2", 9)
    rep.floor("R16.3", 6)
    rep.floor("R16.4", 14)
    rep.floor("R16.5", 13)
    rep.floor("R16.6", 8)
