"""C04 — hostile input contained; failed ingestion leaves no trace: containment STRUCTURE of ingestion paths.

R04.1 success implies an integrity event: every normal path of an ingestion routine that makes objects visible
      passes trailer verification or a complete materialisation of the installed file.
R04.2 abort pairing for every `f, commit, abort = add_pack()` user (RELEASE-ON-EXIT).
R04.3 rollback in _complete_pack removes every file it created, closes the pack and re-raises.
R04.4 atomic visibility: no store mutation inside a loop that is still consuming the incoming pack.
R04.5 inflate is bounded at every decompress call; the two zlib chunk readers agree (siblings).
R04.6 names come from content: ingestion never takes an object's name from the stream.
R04.7 delta-chain walks are cycle guarded (visited set on the ref-delta branch, zero check on the ofs branch).
R04.8 stored checksums are verified on read (index file, packed-refs lines).
"""
from __future__ import annotations

import ast

from sa.cfg import EXC_LABELS, node_calls, node_exprs, _walk_shallow
from sa.common import cfg_of
from sa.flow import Product, lines, must_pass, path, reach, reaching_defs
from sa.load import AnalysisError, Program, arg_of, callee_name, dotted, norm

OS_PY = "dulwich/object_store.py"
PACK = "dulwich/pack.py"
VISIBILITY = {"_add_cached_pack", "add_object", "_upload_pack", "_complete_pack", "add_objects"}
INTEGRITY = {"verify", "check", "check_length_and_checksum", "_complete_pack", "sorted_entries"}
FALLIBLE_ITERS = ("PackInflater", "PackIndexer", "iter_unpacked", "iterobjects", "read_objects", "_walk_all_chains",
                  "for_pack_data", "iterentries")


def nodes_calling(g, pred):
    return [i for i, n in g.nodes.items() if any(pred(c) for c in node_calls(n))]


def ingestion_routines(prog: Program):
    """Role: commit closures of add_pack() and add_thin_pack methods in object_store.py."""
    m = prog.module(OS_PY)
    out = []
    for q, f in m.funcs.items():
        if "#" in q:
            continue
        if q.endswith("add_pack.<locals>.commit") or (f.name == "add_thin_pack" and f.cls):
            if len(f.node.body) == 1 and isinstance(f.node.body[0], ast.Raise):
                continue
            body = [s for s in f.node.body if not (isinstance(s, ast.Expr) and isinstance(s.value, ast.Constant))]
            if len(body) == 1 and isinstance(body[0], ast.Raise):
                continue
            out.append(f)
    return out


def r04_1(prog: Program, rep):
    routines = ingestion_routines(prog)
    if len(routines) < 4:
        raise AnalysisError(f"expected >= 4 ingestion routines, found {[f.qual for f in routines]}")
    for f in routines:
        g = cfg_of(prog, f)
        vis = nodes_calling(g, lambda c: callee_name(c) in VISIBILITY)
        # delegating routines (add_thin_pack -> add_pack + commit) are covered through their callee
        delegates = nodes_calling(g, lambda c: isinstance(c.func, ast.Name) and c.func.id == "commit")
        if not vis and delegates:
            rep.ob("R04.1", OS_PY, f.qual, "delegates to add_pack().commit", True, "", f.node.lineno)
            continue
        if not vis:
            rep.ob("R04.1", OS_PY, f.qual, "ingestion routine makes objects visible", False,
                   "no visibility event recognised (extractor)", f.node.lineno)
            continue
        integ = nodes_calling(g, lambda c: callee_name(c) in INTEGRITY and not (callee_name(c) == "check" and "sha" in norm(c)))
        # complete materialisation: a drained list(...)/for over a fallible iterator of the pack
        drained = [i for i, n in g.nodes.items() if any(
            isinstance(c, ast.Call) and callee_name(c) in ("list", "tuple", "sorted") and c.args
            and any(k in norm(c.args[0]) for k in FALLIBLE_ITERS) for c in node_calls(n))]
        through = set(integ) | set(drained)
        bad = must_pass(g, vis, through)
        # _complete_pack as visibility is also its own integrity event (validated inside, see R04.3/R09.2)
        bad = [b for b in bad if not any(callee_name(c) == "_complete_pack" for c in node_calls(g.nodes[b]))]
        rep.ob("R04.1", OS_PY, f.qual, "visibility is preceded by trailer verification or full materialisation", not bad,
               "objects become visible on a path that neither verified the pack trailer nor materialised every object",
               g.nodes[bad[0]].line if bad else f.node.lineno, lines(g, path(g, [g.entry], bad[0], avoid=through)) if bad else [])
    cp = prog.func(OS_PY, "DiskObjectStore._complete_pack")
    g = cfg_of(prog, cp)
    cache = nodes_calling(g, lambda c: callee_name(c) == "_add_cached_pack")
    chk = nodes_calling(g, lambda c: callee_name(c) == "check_length_and_checksum")
    infl = [i for i, n in g.nodes.items() if n.kind == "for_init" and "PackInflater" in norm(n.ast.iter)]
    rep.ob("R04.1", OS_PY, cp.qual, "installed pack: length/checksum check and full inflate precede visibility",
           bool(cache) and bool(chk) and bool(infl) and not must_pass(g, cache, chk) and not must_pass(g, cache, infl),
           "", cp.node.lineno)


def r04_2(prog: Program, rep):
    n = 0
    for m in prog.modules.values():
        for q, f in m.funcs.items():
            if "#" in q:
                continue
            for s in ast.walk(f.node):
                if not (isinstance(s, ast.Assign) and isinstance(s.value, ast.Call) and callee_name(s.value) == "add_pack"
                        and isinstance(s.targets[0], ast.Tuple) and len(s.targets[0].elts) == 3):
                    continue
                if m.enclosing_func(s) is not f:
                    continue
                _, commit, abort = [t.id for t in s.targets[0].elts]
                g = cfg_of(prog, f)
                here = g.nodes_of(s)
                if not here:
                    continue
                n += 1
                problems = []

                def node_fn(node, st):
                    if node.kind == "handled" and st == "HELD_EXC":
                        st = "HELD"
                    for c in node_calls(node):
                        if isinstance(c.func, ast.Name) and c.func.id == commit:
                            if st == "HELD_EXC":
                                problems.append(("commit-after-exception", node.id, st))
                            if st in ("HELD", "HELD_EXC"):
                                st = "DONE"
                        elif isinstance(c.func, ast.Name) and c.func.id == abort:
                            if st in ("HELD", "HELD_EXC"):
                                st = "DONE"
                    return st

                def edge_fn(node, st, label, succ):
                    if label in ("exc", "raise") and st == "HELD":
                        return "HELD_EXC"
                    return st
                start = [(b, "HELD") for h in here for b, l in g.succ[h] if l not in EXC_LABELS]
                prod = Product(g, start, node_fn, edge_fn)
                for st in prod.states_at(g.exit_normal):
                    if st != "DONE":
                        problems.append(("no-commit-or-abort-on-normal-exit", g.exit_normal, st))
                for st in prod.states_at(g.exit_raise):
                    if st != "DONE":
                        problems.append(("no-abort-on-exception", g.exit_raise, st))
                key = f"{norm(s, 70)}"
                kinds = sorted({k for k, _, _ in problems})
                if not kinds:
                    rep.ob("R04.2", m.rel, f.qual, key, True, "", s.lineno)
                for k in kinds:
                    nid, st = next((a, b) for kk, a, b in problems if kk == k)
                    rep.ob("R04.2", m.rel, f.qual, f"{k}: {key}", False,
                           {"commit-after-exception": "commit() is reachable after an exception was raised while the pack was written",
                            "no-commit-or-abort-on-normal-exit": "a normal path neither commits nor aborts the incoming pack",
                            "no-abort-on-exception": "an exception path leaves the half-written pack file behind without abort()"}[k],
                           g.nodes[nid].line or s.lineno, lines(g, prod.witness(nid, st)) if (nid, st) in prod.at else [])
    if n < 4:
        raise AnalysisError(f"expected >= 4 users of add_pack(), found {n}")


def r04_3(prog: Program, rep):
    cp = prog.func(OS_PY, "DiskObjectStore._complete_pack")
    m = cp.module
    tries = [t for t in ast.walk(cp.node) if isinstance(t, ast.Try) and any(
        isinstance(c, ast.Call) and callee_name(c) == "check_length_and_checksum" for s in t.body for c in ast.walk(s))]
    if not tries:
        raise AnalysisError("_complete_pack: validation try-block not found")
    t = tries[0]
    hs = [h for h in t.handlers if h.type is None or "BaseException" in norm(h.type)]
    rep.ob("R04.3", OS_PY, cp.qual, "validation failure is caught by a catch-all handler", bool(hs),
           "the rollback only runs for some exception types: a validation failure of another type (ValueError from a parser, "
           "KeyboardInterrupt) leaves the rejected pack installed and visible", t.lineno)
    if not hs:
        if not t.handlers:
            return
        hs = [t.handlers[0]]
    h = hs[0]
    removed = {norm(c.args[0]) for c in ast.walk(h) if isinstance(c, ast.Call) and dotted(c.func) in ("os.remove", "os.unlink") and c.args}
    # `for p in (a, b): os.remove(p)` removes a and b
    for lp in ast.walk(h):
        if isinstance(lp, ast.For) and isinstance(lp.target, ast.Name) and isinstance(lp.iter, (ast.Tuple, ast.List)) and lp.target.id in removed:
            removed |= {norm(e) for e in lp.iter.elts}
    # files created before the try: rename target, GitFile target, bitmap path
    created = set()
    for s in ast.walk(cp.node):
        if isinstance(s, ast.Call) and getattr(s, "lineno", 0) < t.lineno:
            if dotted(s.func) in ("os.rename", "os.replace") and len(s.args) == 2:
                created.add(norm(s.args[1]))
            if callee_name(s) == "GitFile" and s.args:
                created.add(norm(s.args[0]))
            if callee_name(s) == "write_bitmap" and s.args:
                created.add(norm(s.args[0]))
    # resolve simple local aliases: target_bitmap_path = pack_base_name + '.bitmap'
    alias = {}
    for s in ast.walk(cp.node):
        if isinstance(s, ast.Assign) and isinstance(s.targets[0], ast.Name):
            alias[s.targets[0].id] = norm(s.value)
    def canon(x):
        return alias.get(x, x)
    missing = [c for c in created if canon(c) not in {canon(r) for r in removed} and c not in removed]
    rep.ob("R04.3", OS_PY, cp.qual, "rollback removes every file created before validation", not missing and len(created) >= 2,
           f"created {sorted(created)}; the handler leaves behind {sorted(missing)}: a pack that failed validation stays usable",
           h.lineno)
    closes = any(isinstance(c, ast.Call) and isinstance(c.func, ast.Attribute) and c.func.attr == "close" for c in ast.walk(h))
    reraises = any(isinstance(x, ast.Raise) and x.exc is None for x in h.body)
    rep.ob("R04.3", OS_PY, cp.qual, "rollback closes the pack and re-raises", closes and reraises, "", h.lineno)
    # the steps of the rollback do not depend on one another: no call that can raise stands unguarded in front of a removal
    def has_remove(x):
        return any(isinstance(c, ast.Call) and dotted(c.func) in ("os.remove", "os.unlink") for c in ast.walk(x))
    last = max((i for i, st in enumerate(h.body) if has_remove(st)), default=-1)
    naked = [st for st in h.body[:last] if isinstance(st, (ast.Expr, ast.Assign)) and any(isinstance(c, ast.Call) for c in ast.walk(st))]
    rep.ob("R04.3", OS_PY, cp.qual, "no unguarded call stands in front of the removals of the rollback", last >= 0 and not naked,
           (f"`{norm(naked[0], 50)}` can raise (closing a mapped pack fails with BufferError while the frames of the exception in flight still hold views "
            f"of it) and the removals behind it are skipped: the rejected pack stays installed and its objects visible") if naked else "no removal in the handler",
           naked[0].lineno if naked else h.lineno)


def r04_15(prog: Program, rep):
    """VALIDATION BEFORE VISIBILITY ON DISK.  A pack is a member of the repository - for every other process, for C git, for another
    DiskObjectStore on the same directory - from the moment pack-<sha>.pack has its pack-<sha>.idx next to it.  The object-level
    validation of an incoming pack (the pass that parses every object, the only place where a malformed tree or tag is noticed)
    therefore precedes the commit of the index file in _complete_pack; done afterwards, a pack that ends up rejected is a usable
    pack while it is being checked (R04.1/R04.3 decide that it is removed again and never enters THIS store's cache)."""
    from sa.common import is_gitfile_call, gitfile_mode
    f = prog.func(OS_PY, "DiskObjectStore._complete_pack")
    m = f.module
    g = cfg_of(prog, f)
    acq = [i for i, n in g.nodes.items() if n.kind == "with_enter"
           and is_gitfile_call(prog, m, n.ast.items[n.info].context_expr) and "w" in (gitfile_mode(n.ast.items[n.info].context_expr) or "")]
    if not acq:
        raise AnalysisError("_complete_pack: index written through GitFile not found")
    with_stmt = g.nodes[acq[0]].ast
    commit = [i for i, n in g.nodes.items() if n.kind == "with_exit_ok" and n.ast is with_stmt]
    infl = [i for i, n in g.nodes.items() if n.kind == "for_init" and "PackInflater" in norm(n.ast.iter)]
    infl += [i for i, n in g.nodes.items() for c in node_calls(n) if callee_name(c) in ("list", "tuple") and c.args and "PackInflater" in norm(c.args[0])]
    if not commit or not infl:
        raise AnalysisError(f"_complete_pack: index commit ({len(commit)}) or the object-level validation pass ({len(infl)}) not found")
    bad = must_pass(g, commit, infl)
    rep.ob("R04.15", OS_PY, f.qual, "every object of the incoming pack is parsed before its index file is committed (the pack becomes usable on disk)",
           not bad, "the .pack/.idx pair is in place before the objects have been parsed: for the duration of the validation pass every other reader "
           "of the repository (another process, C git, a second store object) sees and can use the objects of a pack that is then rejected and "
           "removed - a second ingestion of the same pack takes the 'already there' return on the strength of the unvalidated one",
           g.nodes[commit[0]].line)


def r04_4(prog: Program, rep):
    n = 0
    m = prog.module(OS_PY)
    for f in [f for q, f in m.funcs.items() if "#" not in q and (f.cls or "").endswith("ObjectStore")]:
        for loop in [x for x in ast.walk(f.node) if isinstance(x, ast.For)]:
            it = norm(loop.iter)
            if not any(k in it for k in FALLIBLE_ITERS) or m.enclosing_func(loop) is not f:
                continue
            n += 1
            muts = [c for c in ast.walk(loop) if isinstance(c, ast.Call) and callee_name(c) in ("add_object", "_add_cached_pack")
                    or (isinstance(c, ast.Assign) and False)]
            stores = [x for x in ast.walk(loop) if isinstance(x, ast.Subscript) and isinstance(x.ctx, ast.Store)
                      and (dotted(x.value) or "").startswith("self._data")]
            bad = muts or stores
            rep.ob("R04.4", OS_PY, f.qual, f"no store mutation inside `for ... in {norm(loop.iter, 50)}`", not bad,
                   "objects are added to the store while the incoming pack is still being inflated: a failure part-way "
                   "(missing delta base, corrupt object) leaves the earlier objects visible", loop.lineno)
    if n < 1:
        raise AnalysisError("no loop over a fallible pack iterator found in ingestion routines")
    # the same discipline for every consumer of the lazy pack inflater outside the object stores (bundles): no add_object inside a
    # loop that iterates PackInflater directly, and where objects are added from a materialised list the pack's trailer is verified
    # (check()) before the first add
    for m2 in prog.modules.values():
        if m2.rel == OS_PY or not m2.rel.startswith("dulwich/") or m2.rel.startswith("dulwich/tests/"):
            continue
        for q, f in m2.funcs.items():
            if "#" in q or "PackInflater" not in norm(f.node, 200000):
                continue
            g = cfg_of(prog, f)
            adds = nodes_calling(g, lambda c: callee_name(c) == "add_object")
            if not adds:
                continue
            lazy = [x for x in ast.walk(f.node) if isinstance(x, ast.For) and "PackInflater" in norm(x.iter)
                    and any(isinstance(c, ast.Call) and callee_name(c) == "add_object" for c in ast.walk(x))]
            mat = [i for i, nd in g.nodes.items() if any(isinstance(c, ast.Call) and callee_name(c) in ("list", "tuple") and c.args
                                                         and "PackInflater" in norm(c.args[0]) for c in node_calls(nd))]
            chk = nodes_calling(g, lambda c: isinstance(c.func, ast.Attribute) and c.func.attr in ("check", "check_length_and_checksum", "verify"))
            ok = not lazy and bool(mat) and not must_pass(g, adds, mat) and bool(chk) and not must_pass(g, adds, chk)
            n += 1
            rep.ob("R04.4", m2.rel, f.qual, "pack trailer verified and every object materialised before the first add_object", ok,
                   "objects are stored one by one while the pack is still being inflated and/or its checksum is never compared: a damaged "
                   "pack (bundle) fails part-way and leaves the earlier objects in the store", (lazy[0].lineno if lazy else f.node.lineno))
    # the memory store commit: materialise first, then add
    mc = prog.func(OS_PY, "MemoryObjectStore.add_pack.<locals>.commit")
    g = cfg_of(prog, mc)
    adds = nodes_calling(g, lambda c: callee_name(c) == "add_object")
    mat = [i for i, nd in g.nodes.items() if any(isinstance(c, ast.Call) and callee_name(c) in ("list", "tuple") and c.args
                                                 and "PackInflater" in norm(c.args[0]) for c in node_calls(nd))]
    rep.ob("R04.4", OS_PY, mc.qual, "every object is materialised before the first add_object", bool(adds) and bool(mat) and not must_pass(g, adds, mat),
           "add_object is reachable before the whole pack was inflated", mc.node.lineno)


def _remaining_bound(fn_node) -> bool:
    """The max_length handed to decompress() inside the read loop subtracts the running output counter (the variable that
    grows by len(<decompressed>)), so that the TOTAL inflated is bounded, not each call on its own."""
    counters = {x.target.id for x in ast.walk(fn_node) if isinstance(x, ast.AugAssign) and isinstance(x.op, ast.Add) and isinstance(x.target, ast.Name)
                and isinstance(x.value, ast.Call) and callee_name(x.value) == "len"}
    defs = {}
    for x in ast.walk(fn_node):
        if isinstance(x, ast.Assign) and isinstance(x.targets[0], ast.Name):
            defs.setdefault(x.targets[0].id, []).append(x.value)
    for c in ast.walk(fn_node):
        if isinstance(c, ast.Call) and isinstance(c.func, ast.Attribute) and c.func.attr == "decompress" and len(c.args) >= 2:
            b = c.args[1]
            exprs = [b] + (defs.get(b.id, []) if isinstance(b, ast.Name) else [])
            ok = any(isinstance(y, ast.BinOp) and isinstance(y.op, ast.Sub) and any(isinstance(z, ast.Name) and z.id in counters for z in ast.walk(y.right))
                     for e in exprs for y in ast.walk(e))
            if not ok:
                return False
    return bool(counters)


def r04_9(prog: Program, rep):
    """receive.maxInputSize: every read callable that add_thin_pack hands to the pack reader after _bound_read_callables is a
    counting wrapper - no raw callback parameter is returned, and the wrapped pair is what reaches the reader."""
    m = prog.module(OS_PY)
    f = m.funcs.get("_bound_read_callables")
    if f is None:
        raise AnalysisError("_bound_read_callables not found")
    params = {a.arg for a in f.node.args.args}
    raw = []
    n_ret = 0
    for r in ast.walk(f.node):
        if isinstance(r, ast.Return) and m.enclosing_func(r) is f and r.value is not None:
            n_ret += 1
            elts = r.value.elts if isinstance(r.value, ast.Tuple) else [r.value]
            for e in elts:
                if isinstance(e, ast.Name) and e.id in params:
                    raw.append(e)
    rep.ob("R04.9", OS_PY, f.qual, "no raw read callback is returned: every non-None element is a counting wrapper", n_ret >= 1 and not raw,
           f"`{raw[0].id}` is returned as it came in: bytes read through it are never counted against max_input_size, so a pack larger "
           f"than receive.maxInputSize is accepted and installed" if raw else "", raw[0].lineno if raw else f.node.lineno)
    # every wrapper (a nested def that calls one of the parameters) also calls the counter
    chk = [q for q, fn in m.funcs.items() if q.startswith(f.qual + ".<locals>.") and any(isinstance(x, ast.Raise) for x in ast.walk(fn.node))]
    wr = [fn for q, fn in m.funcs.items() if q.startswith(f.qual + ".<locals>.") and any(
        isinstance(c, ast.Call) and isinstance(c.func, ast.Name) and c.func.id in params | {"read"} for c in ast.walk(fn.node))]
    cnames = {q.split(".")[-1] for q in chk}
    bad = [fn for fn in wr if not any(isinstance(c, ast.Call) and isinstance(c.func, ast.Name) and c.func.id in cnames for c in ast.walk(fn.node))]
    rep.ob("R04.9", OS_PY, f.qual, "every wrapper counts what it read before returning it", bool(chk) and bool(wr) and not bad,
           f"{bad[0].qual} reads without counting" if bad else "", f.node.lineno)
    at = m.funcs.get("DiskObjectStore.add_thin_pack")
    if at is None:
        raise AnalysisError("DiskObjectStore.add_thin_pack not found")
    src = norm(at.node, 100000)
    rep.ob("R04.9", OS_PY, at.qual, "the wrapped pair replaces the callbacks before the pack is read", "read_all, read_some = _bound_read_callables(" in src
           and src.index("_bound_read_callables(") < src.index("PackStreamCopier(") if "PackStreamCopier(" in src else False, "", at.node.lineno)


def r04_10(prog: Program, rep):
    """A rejected pack leaves no temporary file: for every tempfile.mkstemp() of the disk store's ingestion routines, each
    exceptional way out of the routine (or of the commit closure it hands out) passes the removal of that path.  The
    exception edge of the hand-over to _complete_pack is followed as well: its own rollback (R04.3) only covers what it
    created itself."""
    m = prog.module(OS_PY)
    n = 0
    for q, f in sorted(m.funcs.items()):
        if ".<locals>." in q:
            continue
        for a in [x for x in ast.walk(f.node) if isinstance(x, ast.Assign) and isinstance(x.value, ast.Call) and dotted(x.value.func) == "tempfile.mkstemp"
                  and m.enclosing_func(x) is f and isinstance(x.targets[0], ast.Tuple) and len(x.targets[0].elts) == 2]:
            pv = x_.id if isinstance((x_ := a.targets[0].elts[1]), ast.Name) else None
            if pv is None:
                continue
            closures = [fn for qq, fn in m.funcs.items() if qq.startswith(q + ".<locals>.") and fn.name == "commit"]
            targets = closures or [f]
            for t in targets:
                n += 1
                g = cfg_of(prog, t)
                rm = {i for i, nd in g.nodes.items() for c in node_calls(nd)
                      if (dotted(c.func) in ("os.remove", "os.unlink") or callee_name(c) == "_remove_readonly") and c.args
                      and isinstance(c.args[0], ast.Name) and c.args[0].id == pv}
                # a sibling closure that removes the path (abort) counts as the removal where it is called
                removers = {fn.name for qq, fn in m.funcs.items() if qq.startswith(q + ".<locals>.") and fn is not t and any(
                    isinstance(c, ast.Call) and dotted(c.func) in ("os.remove", "os.unlink") and c.args and isinstance(c.args[0], ast.Name) and c.args[0].id == pv
                    for c in ast.walk(fn.node))}
                rm |= {i for i, nd in g.nodes.items() for c in node_calls(nd) if isinstance(c.func, ast.Name) and c.func.id in removers}
                if t is f:
                    mk = g.nodes_containing(a.value)
                    start = [b for i in mk for b, l in g.succ[i] if l not in EXC_LABELS]
                else:
                    start = [g.entry]
                BENIGN = {"tell", "seek", "suppress", "fileno", "close"}

                def edge_ok(a_, b_, l_, g=g):
                    # exception edges of bookkeeping calls on the local file object and of entering suppress() are not failures
                    # of the ingestion
                    if l_ not in EXC_LABELS:
                        return True
                    nd = g.nodes[a_]
                    cs = node_calls(nd)
                    if nd.kind in ("with_enter", "with_exit_ok", "with_exit_exc"):
                        ce = nd.ast.items[nd.info].context_expr
                        return not (isinstance(ce, ast.Call) and callee_name(ce) == "suppress")
                    return not (cs and all(callee_name(c) in BENIGN for c in cs))
                bad = must_pass(g, [g.exit_raise], rm, start=start, edge_ok=edge_ok)
                rep.ob("R04.10", OS_PY, t.qual, f"every failing exit removes the temporary file `{pv}`", bool(rm) and not bad,
                       "a pack that is rejected while it is verified, indexed or completed leaves its temporary file behind in the "
                       "object directory", t.node.lineno, lines(g, path(g, start, g.exit_raise, avoid=rm, edge_ok=edge_ok)) if bad else [])
    if n < 2:
        raise AnalysisError(f"expected >= 2 mkstemp-based ingestion routines in object_store.py, found {n}")


def r04_11(prog: Program, rep):
    """Sentinel scans end at end of input.  A loop that takes one byte at a time from a stream until it sees a sentinel
    must leave the loop when the read comes back EMPTY (explicit test with raise / break / return on the empty side) or use
    the byte in a way that raises on b"" (ord(..), x[0]); otherwise a truncated file makes it spin forever."""
    n = 0
    for rel in ("dulwich/index.py", PACK):
        m = prog.module(rel)
        for q, f in sorted(m.funcs.items()):
            for w in [x for x in ast.walk(f.node) if isinstance(x, ast.While) and m.enclosing_func(x) is f]:
                reads = []
                for x in ast.walk(w):
                    tgt = val = None
                    if isinstance(x, ast.Assign) and isinstance(x.targets[0], ast.Name):
                        tgt, val = x.targets[0].id, x.value
                    elif isinstance(x, ast.NamedExpr) and isinstance(x.target, ast.Name):
                        tgt, val = x.target.id, x.value
                    if tgt and isinstance(val, ast.Call) and ((isinstance(val.func, ast.Attribute) and val.func.attr == "read") or
                                                              (isinstance(val.func, ast.Name) and val.func.id in ("read", "read_all", "read_some"))) \
                            and val.args and isinstance(val.args[0], ast.Constant) and val.args[0].value == 1:
                        reads.append((tgt, x))
                for v, site in reads:
                    n += 1
                    # (a) an emptiness test of v whose empty side leaves the loop
                    ok = False
                    for t in [t for t in ast.walk(w) if isinstance(t, ast.If)]:
                        e = t.test
                        neg = isinstance(e, ast.UnaryOp) and isinstance(e.op, ast.Not) and isinstance(e.operand, ast.Name) and e.operand.id == v
                        pos = isinstance(e, ast.Name) and e.id == v
                        eq = isinstance(e, ast.Compare) and len(e.ops) == 1 and isinstance(e.ops[0], ast.Eq) and isinstance(e.left, ast.Name) and e.left.id == v \
                            and isinstance(e.comparators[0], ast.Constant) and e.comparators[0].value in (b"", "")
                        ln = "len(" in norm(e) and v in norm(e)
                        arm = t.body if (neg or eq or ln) else t.orelse if pos else None
                        if arm is not None and any(isinstance(s_, (ast.Raise, ast.Break, ast.Return)) for s_ in arm):
                            ok = True
                    # (b) a use that raises on an empty read
                    if not ok:
                        ok = any(isinstance(c, ast.Call) and isinstance(c.func, ast.Name) and c.func.id == "ord" and any(isinstance(y, ast.Name) and y.id == v for y in ast.walk(c))
                                 for c in ast.walk(w)) or \
                            any(isinstance(sb, ast.Subscript) and isinstance(sb.value, ast.Name) and sb.value.id == v and not isinstance(sb.slice, ast.Slice) for sb in ast.walk(w))
                    rep.ob("R04.11", rel, q, f"the byte-wise scan `{norm(site, 40)}` ends at end of input", ok,
                           "the loop has no exit for an empty read: on a file truncated inside the scanned field it never terminates", site.lineno)
    if n < 3:      # 3 on the pinned original tree, 4 since the index v4 varint repair
        raise AnalysisError(f"expected >= 3 byte-wise stream scans in index.py / pack.py, found {n}")


def r04_12(prog: Program, rep):
    """A pack is visible only as a PAIR: the directory scan of the disk store opens <base> only when both <base>.pack and
    <base>.idx are present (the rollback of a rejected pack removes them one after the other)."""
    m = prog.module(OS_PY)
    f = m.funcs.get("DiskObjectStore._update_pack_cache")
    if f is None:
        raise AnalysisError("DiskObjectStore._update_pack_cache not found")
    consts = set()
    conds = []
    for x in ast.walk(f.node):
        if isinstance(x, ast.If):
            conds.append(x.test)
        elif isinstance(x, ast.comprehension):
            conds.extend(x.ifs)
    for t in conds:
        for y in ast.walk(t):
            if isinstance(y, ast.Constant) and isinstance(y.value, str) and y.value in (".pack", ".idx"):
                # how it is used: endswith (suffix filter) or as part of a membership test
                consts.add(y.value)
    memb = any(isinstance(y, ast.Compare) and isinstance(y.ops[0], ast.In) and any(isinstance(z, ast.Constant) and z.value in (".idx", ".pack") for z in ast.walk(y.left))
               for t in conds for y in ast.walk(t))
    rep.ob("R04.12", OS_PY, f.qual, "a pack is opened only when both its .pack and its .idx are in the directory listing", consts == {".pack", ".idx"} and memb,
           f"the scan filters on {sorted(consts)} only: while a rejected pack is rolled back (or when removing one of the two files fails) the "
           f"objects of the orphaned file become visible", f.node.lineno)


def r04_5(prog: Program, rep):
    n = 0
    for m in prog.modules.values():
        for c in ast.walk(m.tree):
            if not (isinstance(c, ast.Call) and isinstance(c.func, ast.Attribute) and c.func.attr == "decompress"):
                continue
            f = m.enclosing_func(c)
            recv = dotted(c.func.value) or norm(c.func.value, 30)
            if recv in ("lzma", "bz2", "brotli", "gzip"):
                continue
            n += 1
            bounded = len(c.args) >= 2 or any(k.arg == "max_length" for k in c.keywords)
            if recv == "zlib":
                bounded = False
            rep.ob("R04.5", m.rel, f.qual if f else "<module>", f"{norm(c, 60)} passes an output bound", bounded,
                   "inflate without max_length: a small crafted stream expands without limit", c.lineno)
    if n < 5:
        raise AnalysisError(f"expected >= 5 decompress call sites, found {n}")
    pm = prog.module(PACK)
    feats = {}
    for name in ("read_zlib_chunks", "read_zlib_chunks_at"):
        f = pm.funcs.get(name)
        if f is None:
            raise AnalysisError(f"{name} not found")
        src = norm(f.node, 100000)
        feats[name] = {
            "bounded decompress": any(isinstance(c, ast.Call) and isinstance(c.func, ast.Attribute) and c.func.attr == "decompress"
                                      and len(c.args) >= 2 for c in ast.walk(f.node)),
            "unconsumed_tail rejected": any(isinstance(x, ast.If) and "unconsumed_tail" in norm(x.test)
                                            and any(isinstance(s, ast.Raise) for s in x.body) for x in ast.walk(f.node)),
            "final length compared": any(isinstance(x, ast.If) and "!=" in norm(x.test) and "decomp_len" in norm(x.test)
                                         and any(isinstance(s, ast.Raise) for s in x.body) for x in ast.walk(f.node)),
            "EOF rejected": "EOF before end of zlib stream" in src,
            "bound is what REMAINS (shrinks by what was produced)": _remaining_bound(f.node),
            "negative size rejected": any(isinstance(x, ast.If) and any(
                isinstance(cmp_, ast.Compare) and isinstance(cmp_.ops[0], (ast.Lt, ast.LtE)) and "decomp_len" in norm(cmp_)
                for cmp_ in ast.walk(x.test)) and any(isinstance(s, ast.Raise) for s in x.body) for x in ast.walk(f.node)),
        }
    for feat in feats["read_zlib_chunks"]:
        a, b = feats["read_zlib_chunks"][feat], feats["read_zlib_chunks_at"][feat]
        rep.ob("R04.5", PACK, "read_zlib_chunks / read_zlib_chunks_at", f"siblings agree: {feat}", a and b,
               f"read_zlib_chunks={a} read_zlib_chunks_at={b}", pm.funcs["read_zlib_chunks"].node.lineno)
    # OFS delta base offset: zero is rejected before it is returned, both unpackers route through it
    dd = pm.funcs.get("_decode_delta_base_offset")
    if dd is None:
        raise AnalysisError("_decode_delta_base_offset not found")
    g = cfg_of(prog, dd)
    rets = [i for i, n in g.nodes.items() if n.kind == "stmt" and isinstance(n.ast, ast.Return)]
    zt = [i for i, n in g.nodes.items() if n.kind == "test" and isinstance(n.ast, ast.Compare) and "0" in norm(n.ast)
          and isinstance(n.ast.ops[0], (ast.Eq, ast.LtE, ast.Lt))]
    rep.ob("R04.5", PACK, dd.qual, "zero/negative delta base offset rejected before return", bool(zt) and not must_pass(g, rets, zt),
           "", dd.node.lineno)
    for name in ("unpack_object", "unpack_object_at"):
        f = pm.funcs.get(name)
        if f is None:
            raise AnalysisError(f"{name} not found")
        rep.ob("R04.5", PACK, name, "OFS_DELTA base offset decoded by _decode_delta_base_offset",
               any(isinstance(c, ast.Call) and callee_name(c) == "_decode_delta_base_offset" for c in ast.walk(f.node)), "", f.node.lineno)


def r04_6(prog: Program, rep):
    pm = prog.module(PACK)
    f = pm.funcs.get("PackIndexer._result")
    if f is None:
        raise AnalysisError("PackIndexer._result not found")
    rep.ob("R04.6", PACK, f.qual, "index entries are named by unpacked.sha()", ".sha()" in norm(f.node, 10000), "", f.node.lineno)
    us = pm.funcs.get("UnpackedObject.sha")
    rep.ob("R04.6", PACK, "UnpackedObject.sha", "sha() computes obj_sha over the resolved chunks when not cached",
           us is not None and "obj_sha(" in norm(us.node, 10000), "", us.node.lineno if us else 0)
    # no ingestion path constructs UnpackedObject(sha=<stream bytes>) : only writers of packs may pass sha=
    allowed_funcs = {"full_unpacked_object", "unpack_object", "unpack_object_at", "get_unpacked_object", "iter_unpacked",
                     "iter_unpacked_subset", "get_stored_checksum"}
    n = 0
    for m in [pm]:     # scope: the pack reader/ingestion code; stores re-wrapping their own objects are not ingestion
        for c in ast.walk(m.tree):
            if isinstance(c, ast.Call) and callee_name(c) == "UnpackedObject":
                kw = {k.arg: k.value for k in c.keywords}
                if "sha" in kw and not (isinstance(kw["sha"], ast.Constant) and kw["sha"].value is None):
                    fn = m.enclosing_func(c)
                    src = norm(kw["sha"])
                    # sha taken from an existing object's own hash is content derived
                    ok = ".sha()" in src or "digest()" in src or ".id" in src or src in ("sha", "None")
                    n += 1
                    rep.ob("R04.6", m.rel, fn.qual if fn else "<module>", f"UnpackedObject(sha={src}) is content derived", ok,
                           "an unpacked object is given a name that does not come from hashing content", c.lineno)
    dci = pm.funcs.get("DeltaChainIterator._resolve_object")
    if dci is not None:
        src = norm(dci.node, 100000)
        rep.ob("R04.6", PACK, dci.qual, "resolved objects are rebuilt from inflated chunks (apply_delta / stored chunks)",
               "apply_delta(" in src and "obj_chunks" in src, "", dci.node.lineno)


def r04_7(prog: Program, rep):
    pm = prog.module(PACK)
    f = prog.func(PACK, "Pack.resolve_object")
    loops = [w for w in ast.walk(f.node) if isinstance(w, ast.While) and "DELTA_TYPES" in norm(w.test)]
    if not loops:
        raise AnalysisError("Pack.resolve_object: delta chain loop not found")
    w = loops[0]
    # sets defined in the function
    sets = {s.targets[0].id for s in ast.walk(f.node) if isinstance(s, ast.Assign) and isinstance(s.targets[0], ast.Name)
            and (isinstance(s.value, (ast.Set, ast.SetComp)) or (isinstance(s.value, ast.Call) and callee_name(s.value) == "set"))}
    ref_branch = [x for x in ast.walk(w) if isinstance(x, ast.If) and "REF_DELTA" in norm(x.test)]
    ok = False
    for br in ref_branch:
        arm = [x for s_ in br.body for x in ast.walk(s_)]          # the REF_DELTA arm itself (not the elif arms hanging off it)
        for x in arm:
            if not (isinstance(x, ast.If) and any(isinstance(s, ast.Raise) for s in x.body)):
                continue
            # the membership test may be one conjunct of the condition (`off is not None and off in seen`)
            conj = x.test.values if isinstance(x.test, ast.BoolOp) and isinstance(x.test.op, ast.And) else [x.test]
            for t_ in conj:
                if isinstance(t_, ast.Compare) and len(t_.ops) == 1 and isinstance(t_.ops[0], ast.In) \
                        and isinstance(t_.comparators[0], ast.Name) and t_.comparators[0].id in sets:
                    # and the set grows on the chain: the ref-delta branch itself records the offset it moved to (every
                    # hop through a ref delta must be remembered, not only the start and the ofs hops)
                    grows = any(isinstance(c, ast.Call) and isinstance(c.func, ast.Attribute) and c.func.attr == "add"
                                and dotted(c.func.value) == t_.comparators[0].id for c in arm)
                    ok = ok or grows
    rep.ob("R04.7", PACK, f.qual, "ref-delta branch tests a visited set (which grows along the chain) and raises", ok,
           "the ref-delta branch of the chain walk only detects a delta based on itself: a cycle of two or more crafted "
           "ref deltas loops forever with unbounded memory", w.lineno)
    ofs_branch = [x for x in ast.walk(w) if isinstance(x, ast.If) and "OFS_DELTA" in norm(x.test)]
    dec = any("base_offset - delta_offset" in norm(x, 100000) or "base_offset -= delta_offset" in norm(x, 100000) for x in ofs_branch)
    rep.ob("R04.7", PACK, f.qual, "ofs-delta branch strictly decreases the offset (delta_offset >= 1 by R04.5)", dec, "", w.lineno)


def r04_8(prog: Program, rep):
    ir = prog.func("dulwich/index.py", "Index.read")
    g = cfg_of(prog, ir)
    chk = nodes_calling(g, lambda c: callee_name(c) == "check_sha")
    upd = nodes_calling(g, lambda c: callee_name(c) == "read_index_dict_with_version")
    # every normal exit that read entries passes check_sha
    starts = [b for u in upd for b, l in g.succ[u] if l not in EXC_LABELS]
    bad = must_pass(g, [g.exit_normal], chk, start=starts) if starts else [g.exit_normal]
    rep.ob("R04.8", "dulwich/index.py", ir.qual, "index checksum verified on every normal path that read entries", bool(chk) and not bad,
           "Index.read can return normally without check_sha: a damaged index is accepted", ir.node.lineno)
    cs = prog.func(PACK, "SHA1Reader.check_sha")
    src = norm(cs.node, 100000)
    rep.ob("R04.8", PACK, cs.qual, "check_sha compares the stored with the computed digest and raises ChecksumMismatch",
           "ChecksumMismatch" in src and any(isinstance(x, ast.Compare) and "digest()" in norm(x) for x in ast.walk(cs.node)), "", cs.node.lineno)
    for rn in ("read_packed_refs", "read_packed_refs_with_peeled"):
        f = prog.func("dulwich/refs.py", rn)
        ys = [y for y in ast.walk(f.node) if isinstance(y, ast.Yield)]
        ok = bool(ys) and all("_split_ref_line" in norm(y) or all(
            isinstance(e, ast.Name) and e.id in ("sha", "name") or isinstance(e, (ast.Constant, ast.Call))
            for e in (y.value.elts if isinstance(y.value, ast.Tuple) else [y.value])) for y in ys)
        rep.ob("R04.8", "dulwich/refs.py", rn, "every yielded entry went through _split_ref_line (sha and name validated)", ok, "", f.node.lineno)
    pd = prog.func(PACK, "PackData.check")
    src = norm(pd.node, 100000)
    rep.ob("R04.8", PACK, pd.qual, "PackData.check compares stored and computed pack checksum",
           "ChecksumMismatch" in src and "calculate_checksum()" in src and "get_stored_checksum()" in src, "", pd.node.lineno)
    vf = prog.func(PACK, "PackStreamCopier.verify")
    src = norm(vf.node, 100000)
    rep.ob("R04.8", PACK, vf.qual, "stream copier drains the indexer (trailer compared by PackStreamReader)", "for " in src, "", vf.node.lineno)
    psr = [f for q, f in prog.module(PACK).funcs.items() if f.cls == "PackStreamReader"]
    joined = " ".join(norm(f.node, 100000) for f in psr)
    rep.ob("R04.8", PACK, "PackStreamReader", "stream reader compares the trailer with the running digest and raises ChecksumMismatch",
           "ChecksumMismatch" in joined and "digest()" in joined, "", psr[0].node.lineno if psr else 0)


def r04_14(prog: Program, rep):
    """A loose object file cut short must not inflate to a shorter object: _decompress tests that the zlib stream has ENDED (eof)
    before it returns the data."""
    m = prog.module("dulwich/objects.py")
    f = m.funcs.get("_decompress")
    if f is None:
        raise AnalysisError("objects._decompress not found")
    g = cfg_of(prog, f)
    rets = [i for i, n in g.nodes.items() if n.kind == "stmt" and isinstance(n.ast, ast.Return) and n.ast.value is not None]
    eof = [i for i, n in g.nodes.items() if n.kind == "test" and ".eof" in norm(n.ast)]
    uses_obj = any(isinstance(c, ast.Call) and dotted(c.func) == "zlib.decompressobj" for c in ast.walk(f.node))
    whole = any(isinstance(c, ast.Call) and dotted(c.func) == "zlib.decompress" for c in ast.walk(f.node))     # zlib.decompress() itself raises on a truncated stream
    bad = must_pass(g, rets, eof) if uses_obj else []
    rep.ob("R04.14", m.rel, f.qual, "the end of the zlib stream is checked before the inflated data is returned", (uses_obj and bool(eof) and not bad) or (whole and not uses_obj),
           "decompressobj().decompress() of a truncated stream returns the prefix it could inflate: a loose object file cut short reads as a SHORTER object under "
           "the original name (get_raw, iterobjects_subset), and pack_loose_objects packs it as a different object and deletes the original", f.node.lineno)


def run(prog: Program, rep, tier="quick"):
    rep.rule("R04.1", "MUST-PRECEDE: visibility events of ingestion routines are preceded by trailer verification or full materialisation")
    rep.rule("R04.2", "RELEASE-ON-EXIT for every add_pack() user: abort on exception paths, commit|abort on normal paths, no commit after a handler")
    rep.rule("R04.14", "a truncated loose object is an error: the zlib stream's eof is tested before the data is returned")
    rep.rule("R04.3", "rollback of _complete_pack removes every created file, closes, re-raises")
    rep.rule("R04.4", "NEVER-BEFORE: no store mutation while the incoming pack is still being consumed")
    rep.rule("R04.15", "VALIDATION BEFORE VISIBILITY ON DISK: every object of an incoming pack is parsed before the .idx is committed next to the .pack")
    rep.rule("R04.5", "every decompress call passes an output bound; zlib chunk readers agree; ofs base offset zero-checked")
    rep.rule("R04.6", "object names in indexes come from hashing content")
    rep.rule("R04.7", "delta-chain walk is cycle guarded")
    rep.rule("R04.11", "byte-wise sentinel scans over a stream have an exit for the empty read (truncated input terminates)")
    rep.rule("R04.12", "the pack directory scan opens a pack only as a .pack/.idx pair")
    rep.rule("R04.10", "RELEASE-ON-EXIT for temporary pack files: removed on every exceptional exit of the ingestion routine / commit closure")
    rep.rule("R04.9", "input-size cap: every read callable handed on by _bound_read_callables counts what it reads")
    rep.rule("R04.8", "stored checksums are verified on read")
    rep.not_decided += ["that every corrupt byte is noticed (zlib/SHA do that at run time)", "promptness",
                        "the family of exception types that can escape", "temp files left by a failed add_thin_pack (not visible objects)"]
    r04_1(prog, rep)
    r04_2(prog, rep)
    r04_3(prog, rep)
    r04_14(prog, rep)
    r04_4(prog, rep)
    r04_15(prog, rep)
    r04_5(prog, rep)
    r04_6(prog, rep)
    r04_7(prog, rep)
    r04_8(prog, rep)
    # a damaged packed-refs file leaves no usable cache behind (same engine as R14.4; only that obligation is kept here)
    from rules import c14
    before = len(rep.obs)
    c14.r14_4(prog, rep)
    kept = [o for o in rep.obs[before:] if "parsed to the end" in o.key]
    del rep.obs[before:]
    for o in kept:
        o.rule = "R04.8"
        rep.obs.append(o)
    if not kept:
        raise AnalysisError("R04.8: the packed-refs cache obligation was not produced")
    r04_9(prog, rep)
    r04_10(prog, rep)
    r04_11(prog, rep)
    r04_12(prog, rep)
    from sa.common import alias_guard
    alias_guard(prog, rep, "R04.2", {"add_pack"})
    from sa.common import share as _share
    from rules import c11 as _c11
    _share(rep, lambda: _c11.r11_7(prog, rep), "R04.13", lambda o: True,
           "a truncated or altered index trailer is rejected (shared with R11.7): the acceptance predicate of SHA1Reader.check_sha over a finite abstraction")
    rep.floor("R04.1", 4)
    rep.floor("R04.2", 4)
    rep.floor("R04.3", 1)
    rep.floor("R04.5", 12)
    rep.floor("R04.8", 6)
