"""C09 — a crash at any instant leaves a consistent repository: ORDER of effects on every path.

R09.1 objects before refs: a ref is never pointed at a locally built object before add_object(s) of it.
R09.2 pack install order in DiskObjectStore._complete_pack: flush/fsync/close -> rename -> index lock ->
      index commit -> validation -> visible in the pack cache.
R09.3 loose objects are written through the lock protocol with the fsync option passed through.
R09.4 new before old: repack/pack_loose_objects never delete before add_objects.
R09.5 packed-refs: no loose ref removal precedes the commit of the new packed-refs; on deletion the packed
      entry goes before the loose file.
R09.6 prune removes only files older than the grace period.
"""
from __future__ import annotations

import ast
import os

from sa.cfg import EXC_LABELS, node_calls, node_exprs, _walk_shallow
from sa.common import cfg_of, gitfile_mode, is_gitfile_call
from sa.flow import lines, must_pass, path, reach, reaching_defs
from sa.load import AnalysisError, Program, arg_of, callee_name, dotted, norm

OS_PY = "dulwich/object_store.py"
REFS_PY = "dulwich/refs.py"
OBJ_CTORS = {"Commit", "Tag", "Tree", "Blob"}


def nodes_calling(g, pred):
    return [i for i, n in g.nodes.items() if any(pred(c) for c in node_calls(n))]


def never_before(rep, rule, g, f, b_nodes, a_nodes, key, detail, need_a=True):
    """NEVER-BEFORE(B, A): no A is reachable from a B."""
    if need_a and not a_nodes:
        rep.ob(rule, f.module.rel, f.qual, key, False, "the event that must come first is absent", f.node.lineno)
        return
    r = reach(g, b_nodes)
    bad = [a for a in a_nodes if a in r]
    w = lines(g, path(g, b_nodes, bad[0])) if bad else []
    rep.ob(rule, f.module.rel, f.qual, key, not bad, detail, g.nodes[bad[0]].line if bad else f.node.lineno, w)


def r09_1(prog: Program, rep):
    n = 0
    for f in prog.all_funcs():
        # local objects built by a ShaFile constructor
        built = {}
        for x in ast.walk(f.node):
            if isinstance(x, ast.Assign) and len(x.targets) == 1 and isinstance(x.targets[0], ast.Name) \
                    and isinstance(x.value, ast.Call) and callee_name(x.value) in OBJ_CTORS and not x.value.args:
                built[x.targets[0].id] = x
        if not built:
            continue
        ref_writes = []
        for x in ast.walk(f.node):
            if isinstance(x, ast.Call) and isinstance(x.func, ast.Attribute) and x.func.attr in ("set_if_equals", "add_if_new"):
                val = arg_of(x, 2 if x.func.attr == "set_if_equals" else 1, None)
                ref_writes.append((x, val))
            if isinstance(x, ast.Assign) and any(isinstance(t, ast.Subscript) and (dotted(t.value) or "").endswith("refs")
                                                 for t in x.targets):
                ref_writes.append((x, x.value))
        g = None
        for w, val in ref_writes:
            if not (isinstance(val, ast.Attribute) and val.attr == "id" and isinstance(val.value, ast.Name)
                    and val.value.id in built):
                continue
            if m_enclosing(f, w) is not f:
                continue
            obj = val.value.id
            g = g or cfg_of(prog, f)
            wn = g.nodes_containing(w)
            adds = nodes_calling(g, lambda c: callee_name(c) in ("add_object", "add_objects")
                                 and any(isinstance(a, ast.Name) and a.id == obj for a_ in c.args for a in ast.walk(a_)))
            bad = must_pass(g, wn, adds)
            n += 1
            rep.ob("R09.1", f.module.rel, f.qual, f"{norm(w, 70)} after add_object({obj})", bool(adds) and not bad,
                   f"a ref is pointed at {obj}.id on a path where {obj} has not been added to the object store: a crash "
                   f"in between leaves a ref naming a missing object", w.lineno,
                   lines(g, path(g, [g.entry], bad[0], avoid=set(adds))) if bad else [])
    rep.count("ref writes of locally built objects", n)


def m_enclosing(f, node):
    return f.module.enclosing_func(node)


def r09_2(prog: Program, rep):
    f = prog.func(OS_PY, "DiskObjectStore._complete_pack")
    m = f.module
    g = cfg_of(prog, f)
    fparam = f.node.args.args[1].arg      # the open temp file
    pparam = f.node.args.args[2].arg      # its path
    rename = nodes_calling(g, lambda c: dotted(c.func) in ("os.rename", "os.replace") and c.args
                           and isinstance(c.args[0], ast.Name) and c.args[0].id == pparam)
    if not rename:
        raise AnalysisError("_complete_pack: rename of the temp pack into place not found")
    flush = nodes_calling(g, lambda c: dotted(c.func) == f"{fparam}.flush")
    close = nodes_calling(g, lambda c: dotted(c.func) == f"{fparam}.close")
    fsync = nodes_calling(g, lambda c: dotted(c.func) == "os.fsync")
    Q = f.qual
    for evs, what in ((flush, "flush"), (close, "close")):
        bad = must_pass(g, rename, evs)
        rep.ob("R09.2", OS_PY, Q, f"{what} of the temp pack precedes its rename", bool(evs) and not bad,
               f"the pack can be renamed into place without {what}", g.nodes[rename[0]].line)
    opt = [i for i, n in g.nodes.items() if n.kind == "test" and "fsync" in (dotted(n.ast) or "")]
    r = reach(g, [g.entry], avoid=set(fsync), include_srcs=True, edge_ok=lambda a, b, l: not (a in opt and l == "false"))
    rep.ob("R09.2", OS_PY, Q, "fsync (when configured) precedes the rename", bool(fsync) and not any(x in r for x in rename),
           "rename reachable with fsync configured but not performed", g.nodes[rename[0]].line)
    acq = [i for i, n in g.nodes.items() if n.kind == "with_enter"
           and is_gitfile_call(prog, m, n.ast.items[n.info].context_expr) and "w" in (gitfile_mode(n.ast.items[n.info].context_expr) or "")]
    if not acq:
        raise AnalysisError("_complete_pack: index written through GitFile not found")
    bad = must_pass(g, acq, rename)
    rep.ob("R09.2", OS_PY, Q, "pack renamed into place before the index is written", not bad,
           "the index lock is taken on a path that has not yet renamed the pack: an .idx without its .pack can appear",
           g.nodes[acq[0]].line)
    with_stmt = g.nodes[acq[0]].ast
    commit = [i for i, n in g.nodes.items() if n.kind == "with_exit_ok" and n.ast is with_stmt]
    cache = nodes_calling(g, lambda c: callee_name(c) == "_add_cached_pack")
    if not cache:
        raise AnalysisError("_complete_pack: _add_cached_pack not found")
    bad = must_pass(g, cache, commit)
    rep.ob("R09.2", OS_PY, Q, "index committed before the pack becomes visible in the cache", not bad,
           "", g.nodes[cache[0]].line)
    # an existing pack with the same name must be noticed before the rename: the check has to look at the pack
    # DIRECTORY (self.packs rescans it), not only at the packs this process happens to have opened
    rescan = [i for i, n in g.nodes.items() if n.kind == "for_init" and norm(n.ast.iter).replace(" ", "") in ("self.packs", "list(self.packs)")]
    rescan += nodes_calling(g, lambda c: callee_name(c) == "_update_pack_cache")
    bad = must_pass(g, rename, rescan)
    rep.ob("R09.2", OS_PY, Q, "existing packs are looked up with a directory rescan before the rename", bool(rescan) and not bad,
           "the 'already packed' test only consults the in-memory pack cache: a fresh process renames the new .pack over an "
           "existing pack of the same name while the old .idx is still in place; a crash before the index is rewritten leaves "
           "a pack paired with the wrong index", g.nodes[rename[0]].line)
    chk = nodes_calling(g, lambda c: callee_name(c) == "check_length_and_checksum")
    bad = must_pass(g, cache, chk)
    rep.ob("R09.2", OS_PY, Q, "installed pack is validated before it becomes visible in the cache", bool(chk) and not bad,
           "", g.nodes[cache[0]].line)


def r09_3(prog: Program, rep):
    f = prog.func(OS_PY, "DiskObjectStore.add_object")
    m = f.module
    gfs = [c for c in ast.walk(f.node) if is_gitfile_call(prog, m, c) and "w" in (gitfile_mode(c) or "")]
    raw = [c for c in ast.walk(f.node) if isinstance(c, ast.Call) and dotted(c.func) in ("open", "os.open", "io.open")]
    rep.ob("R09.3", OS_PY, f.qual, "loose object written through the lock protocol", bool(gfs) and not raw,
           "loose object file is opened directly: a crash leaves a truncated object under its final name",
           (raw[0].lineno if raw else f.node.lineno))
    for c in gfs:
        kw = {k.arg: k.value for k in c.keywords}
        ok = "fsync" in kw and "fsync" in norm(kw["fsync"])
        rep.ob("R09.3", OS_PY, f.qual, "fsync option passed through to the lock file", ok,
               "core.fsyncObjectFiles is not passed to GitFile", c.lineno)


def r09_4(prog: Program, rep):
    for qual in ("PackBasedObjectStore.pack_loose_objects", "PackBasedObjectStore.repack"):
        f = prog.func(OS_PY, qual)
        g = cfg_of(prog, f)
        dels = nodes_calling(g, lambda c: callee_name(c) in ("delete_loose_object", "_remove_pack", "_remove_loose_object"))
        adds = nodes_calling(g, lambda c: callee_name(c) == "add_objects")
        if not dels:
            raise AnalysisError(f"{qual}: no deletion event found")
        never_before(rep, "R09.4", g, f, dels, adds, "no add_objects after a deletion (new pack before old data goes)",
                     "objects are deleted on a path that only afterwards writes the replacement pack")
        # and every deletion is preceded by the add when there is something to add: deletions are not reachable
        # from entry while avoiding add_objects *and* the emptiness guard's false side
        guards = [i for i, n in g.nodes.items() if n.kind == "test" and isinstance(n.ast, ast.Name) and n.ast.id == "objects"]
        r = reach(g, [g.entry], avoid=set(adds), include_srcs=True,
                  edge_ok=lambda a, b, l: not (a in guards and l == "false"))
        bad = [d for d in dels if d in r]
        rep.ob("R09.4", OS_PY, qual, "every deletion is preceded by add_objects (unless nothing was collected)", not bad,
               "a deletion is reachable without the replacement pack having been written",
               g.nodes[bad[0]].line if bad else f.node.lineno)


def _remove_calls(g, pred_arg=None):
    return nodes_calling(g, lambda c: dotted(c.func) in ("os.remove", "os.unlink"))


def r09_10(prog: Program, rep):
    """Objects before the index: a function that both stores blobs and writes the index stores the blobs FIRST - no add_object
    is reachable after the index was written (a crash in between leaves an index naming blobs that do not exist)."""
    n = 0
    for rel in ("dulwich/worktree.py", "dulwich/porcelain/__init__.py", "dulwich/index.py", "dulwich/stash.py"):
        if rel not in prog.modules and not os.path.exists(os.path.join(prog.root, rel)):
            continue
        m = prog.module(rel)
        for q, f in sorted(m.funcs.items()):
            if "#" in q:
                continue
            src = norm(f.node, 200000)
            if "add_object(" not in src or ".write()" not in src:
                continue
            g = cfg_of(prog, f)
            iw = [i for i, nd in g.nodes.items() for c in node_calls(nd) if isinstance(c.func, ast.Attribute) and c.func.attr == "write" and not c.args
                  and "index" in norm(c.func.value).lower() and m.enclosing_func(c) is f]
            ao = [i for i, nd in g.nodes.items() for c in node_calls(nd) if callee_name(c) in ("add_object", "add_objects") and m.enclosing_func(c) is f]
            if not iw or not ao:
                continue
            n += 1
            never_before(rep, "R09.10", g, f, iw, ao, "no object is stored after the index was written (objects first)",
                         "blobs are stored after index.write(): a crash in between leaves the index (and the next commit's tree) naming objects "
                         "that were never written")
    if n < 1:
        raise AnalysisError("no function that stores objects and writes the index was found")


def r09_5(prog: Program, rep):
    m = prog.module(REFS_PY)
    f = prog.func(REFS_PY, "DiskRefsContainer.add_packed_refs")
    g = cfg_of(prog, f)
    rm = _remove_calls(g)
    acq = [i for i, n in g.nodes.items() if n.kind == "with_enter"
           and is_gitfile_call(prog, m, n.ast.items[n.info].context_expr)]
    if acq:
        ws = g.nodes[acq[0]].ast
        commit = [i for i, n in g.nodes.items() if n.kind == "with_exit_ok" and n.ast is ws]
    else:
        # the explicit form: h = GitFile(.., "wb") ... h.close() commits
        hs = [n.ast.targets[0].id for n in g.nodes.values() if n.kind == "stmt" and isinstance(n.ast, ast.Assign) and isinstance(n.ast.targets[0], ast.Name)
              and is_gitfile_call(prog, m, n.ast.value) and "w" in (gitfile_mode(n.ast.value) or "")]
        if not hs:
            raise AnalysisError("add_packed_refs: packed-refs lock (GitFile(.., 'wb')) not found")
        commit = [i for i, n in g.nodes.items() for c in node_calls(n) if isinstance(c.func, ast.Attribute) and c.func.attr == "close"
                  and isinstance(c.func.value, ast.Name) and c.func.value.id in hs]
        if not commit:
            raise AnalysisError("add_packed_refs: commit (close) of the packed-refs lock not found")
    never_before(rep, "R09.5", g, f, rm, commit, "no loose ref removed before the new packed-refs is committed",
                 "loose refs are removed while the new packed-refs is still only a lock file: a crash or a failing "
                 "write in between loses the refs")
    # deletion order: packed entry first, then the loose file
    n = 0
    for q, fn in m.funcs.items():
        if fn.cls is None or fn.qual != f"{fn.cls}.{fn.name}":
            continue
        calls = [c for c in ast.walk(fn.node) if isinstance(c, ast.Call) and callee_name(c) == "_remove_packed_ref"]
        if not calls:
            continue
        g = cfg_of(prog, fn)
        rp = nodes_calling(g, lambda c: callee_name(c) == "_remove_packed_ref")
        rm = _remove_calls(g)
        if not rm:
            continue
        n += 1
        never_before(rep, "R09.5", g, fn, rm, rp, "packed entry removed before the loose file",
                     "the loose ref file is removed while packed-refs still holds an (older) value for it: a crash or a "
                     "reader in between sees a stale value come back")
    if n < 2:
        raise AnalysisError(f"expected >= 2 ref-deleting functions calling _remove_packed_ref, found {n}")


def r09_6(prog: Program, rep):
    f = prog.func(OS_PY, "DiskObjectStore.prune")
    g = cfg_of(prog, f)
    rm = _remove_calls(g)
    if len(rm) < 2:
        raise AnalysisError("prune: removal sites not found")
    for r in rm:
        c = next(c for c in node_calls(g.nodes[r]) if dotted(c.func) in ("os.remove", "os.unlink"))
        arg = c.args[0]
        # dominating test `time.time() - mtime > grace_period` whose mtime is getmtime(same path)
        tests = []
        for i, n in g.nodes.items():
            if n.kind == "test" and isinstance(n.ast, ast.Compare) and "grace" in norm(n.ast) and "time" in norm(n.ast):
                tests.append(i)
        r2 = reach(g, [g.entry], include_srcs=True, edge_ok=lambda a, b, l: not (a in tests and l == "true"))
        ok = bool(tests) and r not in r2
        rep.ob("R09.6", OS_PY, f.qual, f"{norm(c)} guarded by the grace-period test", ok,
               "a temporary file is removed without checking its age: an in-flight pack of a concurrent writer is destroyed",
               c.lineno)


def r09_11(prog: Program, rep):
    """OBJECTS BEFORE THE SHALLOW BOUNDARY MOVES.  `.git/shallow` cuts the history; removing a commit from it makes its parents
    part of every ref's closure.  In every function that installs a pack AND applies a shallow update to the same repository the
    update comes after the install on all paths; and the graph walker that the in-process fetch hands to the negotiation - whose
    `update_shallow` is the target's live `Repo.update_shallow` and is called by find_missing_objects before a single object has
    been produced - has that callback re-bound first."""
    n = 0
    INSTALL = {"add_pack_data", "add_thin_pack", "commit"}

    def alias_names(f):
        out = set()
        for x in ast.walk(f.node):
            if isinstance(x, ast.Assign) and len(x.targets) == 1 and isinstance(x.targets[0], ast.Name) \
                    and isinstance(x.value, ast.Attribute) and x.value.attr == "update_shallow":
                out.add(x.targets[0].id)
        return out

    def applies(c, aliases):
        if isinstance(c.func, ast.Attribute) and c.func.attr == "update_shallow":
            return not (isinstance(c.func.value, ast.Name) and c.func.value.id == "self")
        return isinstance(c.func, ast.Name) and c.func.id in aliases

    for rel in ("dulwich/repo.py", "dulwich/client.py"):
        m = prog.module(rel)
        for f in m.funcs.values():
            al = alias_names(f)
            calls = [x for x in _walk_shallow(f.node) if isinstance(x, ast.Call)]
            if not any(applies(c, al) for c in calls) or not any(callee_name(c) in INSTALL for c in calls):
                continue
            g = cfg_of(prog, f)
            ap = nodes_calling(g, lambda c: applies(c, al))
            inst = nodes_calling(g, lambda c: callee_name(c) in INSTALL)
            bad = must_pass(g, ap, inst)
            n += 1
            rep.ob("R09.11", rel, f.qual, "the shallow file of the receiving repository is updated only after the pack is installed", not bad,
                   "the boundary is moved while the objects behind it are not in the store yet: a crash (or a failed transfer) leaves refs "
                   "whose closure is broken - git commits the shallow file after index-pack", g.nodes[bad[0]].line if bad else f.node.lineno)
    # the in-process fetch: the walker's live callback
    repo = prog.module("dulwich/repo.py")
    fmo, fe = repo.funcs.get("BaseRepo.find_missing_objects"), repo.funcs.get("BaseRepo.fetch")
    if fmo is None or fe is None:
        raise AnalysisError("BaseRepo.find_missing_objects / BaseRepo.fetch not found")
    calls_cb = any((isinstance(x, ast.Call) and callee_name(x) == "getattr" and len(x.args) >= 2 and isinstance(x.args[1], ast.Constant)
                    and x.args[1].value == "update_shallow")
                   or (isinstance(x, ast.Call) and isinstance(x.func, ast.Attribute) and x.func.attr == "update_shallow")
                   for x in ast.walk(fmo.node))
    g = cfg_of(prog, fe)
    neg = [(i, c) for i, nd in g.nodes.items() for c in node_calls(nd) if callee_name(c) == "fetch_pack_data"]
    if not neg:
        raise AnalysisError("BaseRepo.fetch: call of fetch_pack_data not found")
    al = alias_names(fe)
    for i, c in neg:
        w = arg_of(c, 1, "graph_walker")
        ok = not calls_cb
        why = "find_missing_objects does not call the walker's update_shallow"
        if calls_cb:
            why = "the walker is built in the call: its update_shallow is the target's live Repo.update_shallow"
            if isinstance(w, ast.Name):
                reb = []
                for j, nd in g.nodes.items():
                    a = nd.ast
                    if isinstance(a, ast.Assign) and any(isinstance(t, ast.Attribute) and t.attr == "update_shallow" and isinstance(t.value, ast.Name)
                                                         and t.value.id == w.id for t in a.targets):
                        live = isinstance(a.value, ast.Attribute) and a.value.attr == "update_shallow" \
                            or any(isinstance(y, ast.Call) and applies(y, al) for y in ast.walk(a.value))
                        if not live:
                            reb.append(j)
                bad = must_pass(g, [i], reb)
                ok = bool(reb) and not bad
                why = "" if ok else f"`{w.id}.update_shallow` is still the target's live callback when the negotiation runs"
        n += 1
        rep.ob("R09.11", repo.rel, fe.qual, "the walker handed to the negotiation cannot rewrite the target's shallow file before the pack exists", ok,
               why + ": find_missing_objects calls it before a single object has been produced", g.nodes[i].line)
    return n


def _ref_writes(g):
    """(node, name expression, value expression or None) for every ref write of the CFG: refs[N] = v, set_if_equals(N, old, v),
    add_if_new(N, v), and X.commit(ref=N, ...) with a ref that is not None (value None: the commit it creates)."""
    out = []
    for i, nd in g.nodes.items():
        a = nd.ast
        if isinstance(a, ast.Assign):
            for t in a.targets:
                if isinstance(t, ast.Subscript) and (dotted(t.value) or "").endswith("refs"):
                    out.append((i, t.slice, a.value))
        for c in node_calls(nd):
            cn = callee_name(c)
            if cn == "set_if_equals":
                out.append((i, arg_of(c, 0, "name"), arg_of(c, 2, "new_ref")))
            elif cn == "add_if_new":
                out.append((i, arg_of(c, 0, "name"), arg_of(c, 1, "ref")))
            elif cn == "commit" and isinstance(c.func, ast.Attribute):
                r = arg_of(c, None, "ref")
                if r is not None and not (isinstance(r, ast.Constant) and r.value is None):
                    out.append((i, r, None))
    return out


def r09_12(prog: Program, rep):
    """OLD OR NEW, NOTHING IN BETWEEN.  A function that creates a commit for a ref writes that ref ONCE, with the id of the commit it
    created: no write of the same ref with another value (a 'parking' value such as HEAD) precedes it.  Decided for the stash ref in
    Stash.push and, generally, as NEVER-BEFORE(write of N, commit(ref=N)) in every function that commits onto a named ref."""
    n = 0
    st = prog.module("dulwich/stash.py")
    f = st.funcs.get("Stash.push")
    if f is None:
        raise AnalysisError("Stash.push not found")
    g = cfg_of(prog, f)
    rd = reaching_defs(g)
    ws = [(i, nm, v) for i, nm, v in _ref_writes(g) if nm is not None and norm(nm) == "self._ref"]
    if not ws:
        raise AnalysisError("Stash.push: no write of the stash ref found")
    for i, nm, v in ws:
        ok = v is None
        if isinstance(v, ast.Name):
            ds = rd[i].get(v.id, frozenset())
            ok = bool(ds) and all(d >= 0 and isinstance(g.nodes[d].ast, (ast.Assign, ast.AnnAssign)) and isinstance(g.nodes[d].ast.value, ast.Call)
                                  and callee_name(g.nodes[d].ast.value) == "commit" for d in ds)
        n += 1
        rep.ob("R09.12", st.rel, f.qual, "the stash ref is only ever set to the id returned by commit()", ok,
               f"`{norm(v) if v is not None else ''}` is written to refs/stash: between this write and the final one the ref holds a value that "
               "is neither the previous stash nor the new one (a crash there loses the previous stash)", g.nodes[i].line)
    wn = [i for i, _, _ in ws]
    twice = [b for a in wn for b in wn if b in reach(g, [a])]
    n += 1
    rep.ob("R09.12", st.rel, f.qual, "the stash ref is written at most once on every path", not twice,
           "two durable writes of refs/stash on one path", g.nodes[twice[0]].line if twice else f.node.lineno)
    # generally: no function parks a ref before committing onto it
    for m in prog.modules.values():
        if not m.rel.startswith("dulwich/") or m.rel.startswith("dulwich/tests/"):
            continue
        for f in m.funcs.values():
            if not any(isinstance(x, ast.Call) and callee_name(x) == "commit" and any(k.arg == "ref" for k in x.keywords) for x in _walk_shallow(f.node)):
                continue
            g = cfg_of(prog, f)
            ws = _ref_writes(g)
            commits = [(i, nm) for i, nm, v in ws if v is None]
            for i, nm in commits:
                before = [j for j, nm2, v2 in ws if v2 is not None and nm2 is not None and norm(nm2) == norm(nm) and i in reach(g, [j])]
                n += 1
                rep.ob("R09.12", m.rel, f.qual, f"no other write of `{norm(nm)}` precedes the commit onto it", not before,
                       "the ref is parked on a temporary value before the commit that updates it exists", g.nodes[before[0]].line if before else g.nodes[i].line)
    return n


def run(prog: Program, rep, tier="quick"):
    rep.rule("R09.1", "objects before refs: every ref write of a locally built object's id is dominated by add_object(s) of it")
    rep.rule("R09.2", "_complete_pack: flush/fsync/close < rename < index lock < index commit & validation < pack cache")
    rep.rule("R09.3", "loose objects go through the lock protocol with the fsync option")
    rep.rule("R09.10", "objects before the index: no add_object after index.write() in the staging functions")
    rep.rule("R09.4", "repack/pack_loose_objects: NEVER-BEFORE(delete, add_objects)")
    rep.rule("R09.5", "NEVER-BEFORE(remove loose ref, commit packed-refs); deletion removes the packed entry first")
    rep.rule("R09.6", "prune removes only after the grace-period test")
    rep.rule("R09.12", "old or new, nothing in between: a ref is written once, with the commit created for it (no parking value)")
    rep.rule("R09.11", "objects before the shallow boundary moves: the receiving repository's shallow file is updated after the pack is installed")
    rep.not_decided += ["that the enumerated effects are all the effects", "torn sector writes, directory fsync",
                        "reopening the repository at each crash point (a runtime enumeration)"]
    rep.assumptions += ["effects are calls resolved to os.*, GitFile, add_object(s), _add_cached_pack"]
    r09_1(prog, rep)
    r09_2(prog, rep)
    r09_3(prog, rep)
    r09_4(prog, rep)
    r09_5(prog, rep)
    r09_6(prog, rep)
    rep.floor("R09.1", 3)
    rep.floor("R09.2", 6)
    rep.floor("R09.4", 4)
    rep.floor("R09.5", 3)
    r09_10(prog, rep)
    r09_11(prog, rep)
    r09_12(prog, rep)
    rep.floor("R09.12", 3)
    rep.floor("R09.11", 2)
    from sa.common import share
    from rules import c07
    share(rep, lambda: c07.r07_4(prog, rep), "R09.9", lambda o: True,
          "a stale lock left by a crash fails the next writer instead of making it skip the write (shared with R07.4)")
    share(rep, lambda: c07.r07_2(prog, rep), "R09.8", lambda o: o.rule in ("R07.2", "R07.2c"),
          "a failure never commits (shared with R07.2): on every path where an exception propagates the lock file is discarded, not renamed over "
          "the target - otherwise an interrupted write leaves a truncated index / ref / config")
    share(rep, lambda: c07.r07_1(prog, rep), "R09.7", lambda o: o.rule == "R07.1b",
          "durability point of every locked write (shared with R07.1b): flush, fsync when configured and close of the handle precede the rename")
    rep.floor("R09.6", 2)
