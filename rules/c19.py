"""C19 — pkt-line and side-band framing.

R19.1 the length field of the frame encoder is bounded (<= 65520) by a dominating raising test.
R19.2 constants cohere: side-band chunk + channel byte + header <= 65520; buffered writer default; both
      decoders handle flush before the `< 4` rejection and never compute size-4 for size < 4; both compare
      the obtained payload length with the prefix.
R19.3 one strict length parser: every hex conversion of a pkt length goes through _parse_pkt_line_length,
      which checks width and alphabet before int(_, 16).
R19.4 the channel byte of a side-band packet is read only after a non-emptiness test.
R19.5 the flush sentinel is recognised by identity: loops over read_pkt_line() results do not stop on an
      empty (falsy) payload.
"""
from __future__ import annotations

import ast

from sa.cfg import node_calls, node_exprs, _walk_shallow
from sa.common import cfg_of
from sa.consts import Folder, Unfoldable
from sa.flow import must_pass, reach, reaching_defs, lines, path
from sa.load import AnalysisError, Program, arg_of, callee_name, dotted, norm

PROTO = "dulwich/protocol.py"
MAX_PKT = 65520


def _fold_len_bounds(prog, m, f):
    """Tests in f that compare len(<param>) (+4) with a constant and raise/split on the true side."""
    F = Folder(prog, m)
    out = []
    for x in ast.walk(f.node):
        if isinstance(x, ast.Compare) and len(x.ops) == 1 and "len(" in norm(x.left):
            try:
                c = F.fold(x.comparators[0])
            except Unfoldable:
                continue
            if isinstance(c, int):
                plus = 4 if "+ 4" in norm(x.left) else 0
                out.append((x, type(x.ops[0]).__name__, c, plus))
    return out


def run(prog: Program, rep, tier="quick"):
    rep.rule("R19.1", "frame encoder: the formatted length is dominated by a raising bound test <= 65520")
    rep.rule("R19.2", "TABLE-AGREE on framing constants and decoder ordering (flush before <4; size-4 only for size>=4; "
                      "obtained length compared with prefix)")
    rep.rule("R19.3", "WHO-MAY: hex length conversion only in the strict parser, guarded by width and alphabet tests")
    rep.rule("R19.4", "side-band channel byte read only after a non-emptiness test")
    rep.rule("R19.5", "flush sentinel tested by identity (is None), never by truthiness of the payload")
    rep.not_decided += ["reassembly under arbitrary read chunking (buffer arithmetic of ReceivableProtocol)",
                        "capability list round trip"]
    m = prog.module(PROTO)
    F = Folder(prog, m)
    # ---- R19.1 encoder(s): functions formatting len(x)+4 with width-4 hex
    encoders = []
    for q, f in m.funcs.items():
        for x in ast.walk(f.node):
            if isinstance(x, ast.FormattedValue) and x.format_spec is not None and "04x" in norm(x.format_spec) \
                    and "len(" in norm(x.value) and "+ 4" in norm(x.value):
                if isinstance(m.parents.get(m.parents.get(x)), (ast.Call, ast.Attribute, ast.BinOp, ast.Return)) or True:
                    encoders.append((f, x))
            if isinstance(x, ast.BinOp) and isinstance(x.op, ast.Mod) and isinstance(x.left, ast.Constant) \
                    and isinstance(x.left.value, (bytes, str)) and "04x" in str(x.left.value) and "len(" in norm(x.right):
                encoders.append((f, x))
    encoders = [(f, x) for f, x in encoders if not any(isinstance(p, ast.Raise) for p in _ancestors(m, x))
                and not _in_logging(m, x)]
    if not encoders:
        raise AnalysisError("no pkt-line frame encoder found (formats len(x)+4 as %04x)")
    for f, x in encoders:
        g = cfg_of(prog, f)
        nodes = g.nodes_containing(x)
        bounds = _fold_len_bounds(prog, m, f)
        ok = False
        detail = "a payload longer than 65516 bytes is framed with a 5-digit length prefix (malformed frame)"
        for cmp_, op, c, plus in bounds:
            limit = c - plus + 4 if op in ("Gt",) else (c - plus + 3 if op == "GtE" else None)
            # len(data) > c  (raise)  => max total = c + 4 ; len(data)+4 > c => max total = c
            if op == "Gt":
                max_total = c + 4 - plus
            elif op == "GtE":
                max_total = c + 3 - plus
            else:
                continue
            if max_total > MAX_PKT:
                detail = f"the bound admits frames of {max_total} bytes (> {MAX_PKT})"
                continue
            tn = [i for i, n in g.nodes.items() if n.kind == "test" and n.ast is cmp_]
            if not tn:
                continue
            # the true side must not reach the formatting (raises or returns a split)
            tside = [b for i in tn for b, l in g.succ[i] if l == "true"]
            r = reach(g, tside, include_srcs=True)
            if not any(n in r for n in nodes) and not must_pass(g, nodes, tn):
                ok = True
        rep.ob("R19.1", PROTO, f.qual, f"length formatted by {norm(x, 50)} is bounded", ok, detail, x.lineno)
    # ---- R19.2
    ws = prog.func(PROTO, "Protocol.write_sideband")
    chunks = set()
    for x in ast.walk(ws.node):
        if isinstance(x, ast.Slice):
            for b in (x.lower, x.upper):
                if b is not None:
                    v = F.try_fold(b)
                    if isinstance(v, int):
                        chunks.add(v)
    rep.ob("R19.2", PROTO, ws.qual, "side-band chunk + channel byte + 4 <= 65520 and one slice constant",
           len(chunks) == 1 and max(chunks) + 1 + 4 <= MAX_PKT,
           f"slice constants {sorted(chunks)}: data would be dropped or frames exceed the maximum", ws.node.lineno)
    loops = [x for x in ast.walk(ws.node) if isinstance(x, ast.While)]
    rep.ob("R19.2", PROTO, ws.qual, "side-band writer loops until the blob is consumed", bool(loops), "", ws.node.lineno)
    bw = prog.func(PROTO, "BufferedPktLineWriter.__init__")
    dflt = None
    a = bw.node.args
    for arg, d in zip(a.args[-len(a.defaults):], a.defaults):
        if arg.arg == "bufsize":
            dflt = F.try_fold(d)
    rep.ob("R19.2", PROTO, bw.qual, "default buffer <= 65515", isinstance(dflt, int) and 0 < dflt <= 65515,
           f"bufsize default {dflt}", bw.node.lineno)
    for qual, payload_pat in (("Protocol.read_pkt_line", "size - 4"), ("PktLineParser.parse", "4:size")):
        f = prog.func(PROTO, qual)
        g = cfg_of(prog, f)
        lt4 = [i for i, n in g.nodes.items() if n.kind == "test" and isinstance(n.ast, ast.Compare)
               and norm(n.ast).replace(" ", "") in ("size<4",)]
        use = [i for i, n in g.nodes.items() if any(payload_pat in norm(e) for e in node_exprs(n)) and n.kind in ("stmt", "test")]
        if not use:
            raise AnalysisError(f"{qual}: payload extraction `{payload_pat}` not found")
        # payload extraction unreachable when the false edges of `size < 4` are cut
        r = reach(g, [g.entry], include_srcs=True, edge_ok=lambda a_, b, l: not (a_ in lt4 and l == "false"))
        ok = bool(lt4) and not any(u in r for u in use)
        rep.ob("R19.2", PROTO, qual, "payload extracted only after `size < 4` was rejected", ok,
               "read(size - 4) / buf[4:size] is reachable for a length below 4: negative read or an endless parser loop",
               g.nodes[use[0]].line)
        zero = [i for i, n in g.nodes.items() if n.kind == "test" and isinstance(n.ast, ast.Compare)
                and norm(n.ast).replace(" ", "") in ("size==0",)]
        bad = must_pass(g, lt4, zero)
        rep.ob("R19.2", PROTO, qual, "flush (0000) handled before the < 4 rejection", bool(zero) and not bad,
               "", g.nodes[lt4[0]].line if lt4 else f.node.lineno)
        parse = [i for i, n in g.nodes.items() for c in node_calls(n) if callee_name(c) == "_parse_pkt_line_length"]
        rep.ob("R19.3", PROTO, qual, "length prefix goes through _parse_pkt_line_length", bool(parse) and not must_pass(g, use, parse),
               "", f.node.lineno)
    f = prog.func(PROTO, "Protocol.read_pkt_line")
    src = norm(f.node, 100000)
    rep.ob("R19.2", PROTO, f.qual, "obtained payload length compared with the prefix", "len(pkt_contents) + 4 != size" in src
           or "len(pkt_contents) != size - 4" in src, "", f.node.lineno)
    f = prog.func(PROTO, "PktLineParser.parse")
    src = norm(f.node, 100000)
    rep.ob("R19.2", PROTO, f.qual, "frame delivered only when fully buffered", "size <= len(buf)" in src or "len(buf) >= size" in src,
           "", f.node.lineno)
    # ---- R19.3 strict parser
    pl = prog.func(PROTO, "_parse_pkt_line_length")
    g = cfg_of(prog, pl)
    conv = [i for i, n in g.nodes.items() for c in node_calls(n) if dotted(c.func) == "int" and len(c.args) == 2
            and F.try_fold(c.args[1]) == 16]
    tests = [i for i, n in g.nodes.items() if n.kind == "test"]
    tsrc = " ".join(norm(g.nodes[i].ast) for i in tests)
    width = "len(" in tsrc and "4" in tsrc
    alpha = "issuperset" in tsrc or "in _HEX" in tsrc or "isalnum" in tsrc or "all(" in tsrc or "fullmatch" in tsrc or "match" in tsrc
    dominated = bool(conv) and bool(tests) and not must_pass(g, conv, tests)
    rep.ob("R19.3", PROTO, pl.qual, "int(_, 16) guarded by width == 4 and hex-alphabet tests", width and alpha and dominated,
           "int(x, 16) also accepts '-', '+', '0x', '_' and whitespace: a negative or oversized length reaches read()",
           pl.node.lineno)
    hexset = F.try_fold(m.consts.get("_HEX_DIGITS")) if "_HEX_DIGITS" in m.consts else None
    if hexset is not None:
        rep.ob("R19.3", PROTO, "_HEX_DIGITS", "alphabet is exactly the 22 hex digits", set(hexset) == set(b"0123456789abcdefABCDEF"),
               f"{sorted(hexset)}", m.consts["_HEX_DIGITS"].lineno)
    n_other = 0
    for rel in (PROTO, "dulwich/client.py", "dulwich/server.py"):
        mm = prog.module(rel)
        for c in ast.walk(mm.tree):
            if isinstance(c, ast.Call) and dotted(c.func) == "int" and len(c.args) == 2 and Folder(prog, mm).try_fold(c.args[1]) == 16:
                ff = mm.enclosing_func(c)
                if ff is pl:
                    continue
                n_other += 1
                rep.ob("R19.3", rel, ff.qual if ff else "<module>", f"no other hex length conversion: {norm(c, 50)}", False,
                       "a second, unguarded int(_, 16) on transport data", c.lineno)
    rep.count("other int(_,16) sites in protocol/client/server", n_other)
    # ---- R19.4 channel byte
    n_ch = 0
    for rel in (PROTO, "dulwich/client.py", "dulwich/server.py"):
        mm = prog.module(rel)
        for q, ff in mm.funcs.items():
            if "#" in q:
                continue
            sites = [c for c in ast.walk(ff.node) if isinstance(c, ast.Call) and dotted(c.func) == "ord" and c.args
                     and isinstance(c.args[0], ast.Subscript) and isinstance(c.args[0].value, ast.Name)
                     and c.args[0].value.id in ("pkt", "data", "line", "packet")
                     and "channel" in norm(mm.enclosing_stmt(c)).lower()]
            if not sites:
                continue
            g = cfg_of(prog, ff)
            for c in sites:
                var = c.args[0].value.id
                n_ch += 1
                nodes = g.nodes_containing(c)
                tests = {}
                for i, n in g.nodes.items():
                    if n.kind == "test":
                        t = norm(n.ast).replace(" ", "")
                        if t == var or t == f"len({var})" or t == f"len({var})>0" or t == f"len({var})>=1":
                            tests[i] = "true"
                        if t in (f"len({var})==0", f"len({var})<1"):
                            tests[i] = "false"
                r = reach(g, [g.entry], include_srcs=True, edge_ok=lambda a_, b, l: not (a_ in tests and l == tests[a_]))
                ok = bool(tests) and not any(x in r for x in nodes)
                rep.ob("R19.4", rel, ff.qual, f"channel byte {norm(c)} read after a non-emptiness test", ok,
                       "ord() of an empty slice raises TypeError (not a protocol error) on an empty side-band packet",
                       c.lineno)
    if n_ch < 1:
        raise AnalysisError("no side-band channel byte read found")
    # ---- R19.5 sentinel by identity
    n_loops = 0
    # scope: the framing layer itself (protocol.py).  Loops in client.py/server.py that read command or ACK
    # lines stop on an empty line too, but there an empty line is invalid *content*, not a framing matter.
    for rel in (PROTO,):
        mm = prog.module(rel)
        for q, ff in mm.funcs.items():
            if "#" in q:
                continue
            assigns = [x for x in ast.walk(ff.node) if isinstance(x, ast.Assign) and isinstance(x.targets[0], ast.Name)
                       and isinstance(x.value, ast.Call) and callee_name(x.value) == "read_pkt_line"]
            if not assigns:
                continue
            names = {x.targets[0].id for x in assigns}
            for w in ast.walk(ff.node):
                if isinstance(w, ast.While) and mm.enclosing_func(w) is ff:
                    # loop re-reads inside the body: it is a sequence loop
                    if not any(isinstance(x, ast.Assign) and x in assigns for x in ast.walk(w)):
                        continue
                    t = w.test
                    tests = t.values if isinstance(t, ast.BoolOp) else [t]
                    for tt in tests:
                        if isinstance(tt, ast.Name) and tt.id in names:
                            n_loops += 1
                            rep.ob("R19.5", rel, ff.qual, f"while {norm(w.test, 60)}", False,
                                   "the loop stops on an empty payload (b'' is falsy) as if it were a flush-pkt: an empty "
                                   "pkt-line (0004) silently truncates the sequence", w.lineno)
                        elif isinstance(tt, ast.Compare) and isinstance(tt.left, ast.Name) and tt.left.id in names \
                                and isinstance(tt.ops[0], (ast.IsNot, ast.Is)):
                            n_loops += 1
                            rep.ob("R19.5", rel, ff.qual, f"while {norm(w.test, 60)}", True, "", w.lineno)
    rep.count("pkt sequence loops", n_loops)
    if n_loops < 1:
        raise AnalysisError(f"expected >= 1 loop over read_pkt_line() results in protocol.py, found {n_loops}")
    rep.floor("R19.1", 1)
    rep.floor("R19.2", 8)
    rep.floor("R19.3", 4)


def _ancestors(m, x):
    while x in m.parents:
        x = m.parents[x]
        yield x


def _in_logging(m, x):
    for p in _ancestors(m, x):
        if isinstance(p, ast.Call) and (dotted(p.func) or "").startswith("logger."):
            return True
        if isinstance(p, ast.Call) and callee_name(p) in ("GitProtocolError",):
            return True
    return False
