"""C19 — pkt-line and side-band framing.

R19.1 the length field of the frame encoder is bounded (<= 65520) by a dominating raising test.
R19.2 constants cohere: side-band chunk + channel byte + header <= 65520; buffered writer default; both
      decoders handle flush before the `< 4` rejection and never compute size-4 for size < 4; both compare
      the obtained payload length with the prefix.
R19.3 one strict length parser: every hex conversion of a pkt length goes through _parse_pkt_line_length,
      which checks width and alphabet before int(_, 16).
R19.4 the channel byte of a side-band packet is read only after a non-emptiness test.
R19.5 the flush sentinel is recognised by identity: loops over read_pkt_line() results do not stop on an
      empty (falsy) payload.
"""
from __future__ import annotations

import ast

from sa.cfg import node_calls, node_exprs, _walk_shallow
from sa.common import cfg_of, is_int_test, var_cmp
from sa.consts import Folder, Unfoldable
from sa.flow import must_pass, reach, reaching_defs, lines, path
from sa.load import AnalysisError, Program, arg_of, callee_name, dotted, norm

PROTO = "dulwich/protocol.py"
MAX_PKT = 65520


def _fold_len_bounds(prog, m, f):
    """Tests in f that compare len(<param>) (+4) with a constant: (node, op, constant, plus) oriented as `len(..) op c`."""
    F = Folder(prog, m)
    out = []
    for x in ast.walk(f.node):
        v = var_cmp(x, F)
        if v is not None and "len(" in norm(v[0]):
            plus = 4 if "+ 4" in norm(v[0]) else 0
            out.append((x, {">": "Gt", ">=": "GtE"}.get(v[1], v[1]), v[2], plus))
    return out


def r19_11(prog, rep, m, F):
    """(a) the parsed length has an UPPER bound (a frame longer than 65520 bytes is a protocol error, not a frame that
    unread_pkt_line() cannot write back); (b) an empty capability list is no capability, not the capability b''; (c) the client's
    status-report reader treats bytes left in its pkt-line parser at the end of the stream as a protocol error."""
    rep.rule("R19.11", "length prefix bounded above where it is parsed; empty capability list = no capabilities; a status report cut inside a pkt-line is an error")
    f = m.funcs.get("_parse_pkt_line_length")
    if f is None:
        raise AnalysisError("_parse_pkt_line_length not found")
    ub = False
    for x in ast.walk(f.node):
        v = var_cmp(x, F)
        if v is not None and v[1] in ("<=", "<") and isinstance(v[2], int) and 65516 <= v[2] <= 65521 and isinstance(x, ast.Compare):
            ub = True
        if isinstance(x, ast.Compare) and any(isinstance(F.try_fold(c), int) and 65516 <= F.try_fold(c) <= 65521 for c in [x.left] + x.comparators):
            ub = True
    rep.ob("R19.11", PROTO, f.qual, "the parsed length is compared with the maximum pkt-line length and refused above it", ub and any(isinstance(x, ast.Raise) for x in ast.walk(f.node)),
           "prefixes fff1..ffff are returned as frames of up to 65531 bytes; unread_pkt_line() re-encodes with pkt_line(), which refuses them: eof() and "
           "negotiate_protocol_version() raise ValueError instead of a frame or a protocol error", f.node.lineno)
    f = m.funcs.get("extract_capabilities")
    filt = any(isinstance(c, ast.comprehension) and c.ifs for c in ast.walk(f.node)) or any(isinstance(c, ast.Call) and callee_name(c) == "filter" for c in ast.walk(f.node)) \
        or any(isinstance(t, (ast.If, ast.IfExp)) and "capabilities" in norm(t.test) for t in ast.walk(f.node) if not isinstance(getattr(t, "test", None), ast.Compare))
    rep.ob("R19.11", PROTO, f.qual, "empty strings are dropped from the split capability list", filt,
           "b''.split(b' ') is [b'']: a line that ends in NUL with nothing after it (what dulwich's own client writes when nothing was negotiated) yields the "
           "capability b'' and receive-pack refuses the push", f.node.lineno)
    cm = prog.module("dulwich/client.py")
    t = cm.funcs.get("GitClient._handle_receive_pack_tail") or next((fn for q, fn in cm.funcs.items() if q.endswith("._handle_receive_pack_tail")), None)
    if t is None:
        raise AnalysisError("client._handle_receive_pack_tail not found")
    tails = [x for x in ast.walk(t.node) if isinstance(x, ast.If) and "get_tail()" in norm(x.test) and any(isinstance(y, ast.Raise) for y in ast.walk(x))]
    rep.ob("R19.11", cm.rel, t.qual, "bytes left in the pkt-line parser when the side-band stream ends raise a protocol error", bool(tails),
           "a status report that ends inside `ng refs/heads/b locked` is accepted: the rejection disappears and the push looks successful", t.node.lineno)


def run(prog: Program, rep, tier="quick"):
    rep.rule("R19.1", "frame encoder: the formatted length is dominated by a raising bound test <= 65520")
    rep.rule("R19.2", "TABLE-AGREE on framing constants and decoder ordering (flush before <4; size-4 only for size>=4; "
                      "obtained length compared with prefix)")
    rep.rule("R19.3", "WHO-MAY: hex length conversion only in the strict parser, guarded by width and alphabet tests")
    rep.rule("R19.4", "side-band channel byte read only after a non-emptiness test")
    rep.rule("R19.5", "flush sentinel tested by identity (is None), never by truthiness of the payload")
    rep.not_decided += ["reassembly under arbitrary read chunking (buffer arithmetic of ReceivableProtocol)",
                        "capability list round trip"]
    m = prog.module(PROTO)
    F = Folder(prog, m)
    # ---- R19.1 encoder(s): functions formatting len(x)+4 with width-4 hex
    encoders = []
    for q, f in m.funcs.items():
        for x in ast.walk(f.node):
            if isinstance(x, ast.FormattedValue) and x.format_spec is not None and "04x" in norm(x.format_spec) \
                    and "len(" in norm(x.value) and "+ 4" in norm(x.value):
                if isinstance(m.parents.get(m.parents.get(x)), (ast.Call, ast.Attribute, ast.BinOp, ast.Return)) or True:
                    encoders.append((f, x))
            if isinstance(x, ast.BinOp) and isinstance(x.op, ast.Mod) and isinstance(x.left, ast.Constant) \
                    and isinstance(x.left.value, (bytes, str)) and "04x" in str(x.left.value) and "len(" in norm(x.right):
                encoders.append((f, x))
    encoders = [(f, x) for f, x in encoders if not any(isinstance(p, ast.Raise) for p in _ancestors(m, x))
                and not _in_logging(m, x)]
    if not encoders:
        raise AnalysisError("no pkt-line frame encoder found (formats len(x)+4 as %04x)")
    for f, x in encoders:
        g = cfg_of(prog, f)
        nodes = g.nodes_containing(x)
        bounds = _fold_len_bounds(prog, m, f)
        ok = False
        detail = "a payload longer than 65516 bytes is framed with a 5-digit length prefix (malformed frame)"
        for cmp_, op, c, plus in bounds:
            limit = c - plus + 4 if op in ("Gt",) else (c - plus + 3 if op == "GtE" else None)
            # len(data) > c  (raise)  => max total = c + 4 ; len(data)+4 > c => max total = c
            if op == "Gt":
                max_total = c + 4 - plus
            elif op == "GtE":
                max_total = c + 3 - plus
            else:
                continue
            if max_total > MAX_PKT:
                detail = f"the bound admits frames of {max_total} bytes (> {MAX_PKT})"
                continue
            tn = [i for i, n in g.nodes.items() if n.kind == "test" and n.ast is cmp_]
            if not tn:
                continue
            # the true side must not reach the formatting (raises or returns a split)
            tside = [b for i in tn for b, l in g.succ[i] if l == "true"]
            r = reach(g, tside, include_srcs=True)
            if not any(n in r for n in nodes) and not must_pass(g, nodes, tn):
                ok = True
        rep.ob("R19.1", PROTO, f.qual, f"length formatted by {norm(x, 50)} is bounded", ok, detail, x.lineno)
    # ---- R19.2
    ws = prog.func(PROTO, "Protocol.write_sideband")
    # local single-assignment constants of the function (max_data = MAX - 1) are folded too
    wlocal = {s_.targets[0].id: s_.value for s_ in ast.walk(ws.node) if isinstance(s_, ast.Assign) and isinstance(s_.targets[0], ast.Name)}
    WF = Folder(prog, m, wlocal)
    wloops = [x for x in ast.walk(ws.node) if isinstance(x, (ast.While, ast.For))]
    if not wloops:
        rep.ob("R19.2", PROTO, ws.qual, "side-band writer loops until the blob is consumed", False,
               "a blob longer than one frame is not split", ws.node.lineno)
    for lp in wloops[:1]:
        if isinstance(lp, ast.While):
            # idiom A: while blob: ... blob[:K] ... blob = blob[K:]
            heads = [WF.try_fold(x.slice.upper) for x in ast.walk(lp) if isinstance(x, ast.Subscript) and isinstance(x.slice, ast.Slice)
                     and x.slice.lower is None and x.slice.upper is not None]
            tails = [WF.try_fold(x.slice.lower) for x in ast.walk(lp) if isinstance(x, ast.Subscript) and isinstance(x.slice, ast.Slice)
                     and x.slice.upper is None and x.slice.lower is not None]
            if len(heads) != 1 or len(tails) != 1 or not all(isinstance(v, int) for v in heads + tails):
                raise AnalysisError(f"write_sideband: re-slicing loop not understood (heads {heads}, tails {tails})")
            sent, step = heads[0], tails[0]
        else:
            # idiom B: for start in range(0, len(blob), STEP): ... blob[start:start + LEN]
            it = lp.iter
            if not (isinstance(it, ast.Call) and dotted(it.func) == "range" and len(it.args) == 3 and isinstance(lp.target, ast.Name)):
                raise AnalysisError("write_sideband: offset loop is not `for start in range(0, len(blob), step)`")
            step = WF.try_fold(it.args[2])
            sl = [x.slice for x in ast.walk(lp) if isinstance(x, ast.Subscript) and isinstance(x.slice, ast.Slice) and x.slice.lower is not None
                  and x.slice.upper is not None and lp.target.id in norm(x.slice.lower)]
            if len(sl) != 1 or not isinstance(sl[0].upper, ast.BinOp) or not isinstance(sl[0].upper.op, ast.Add):
                raise AnalysisError("write_sideband: slice of the offset loop not understood")
            sent = WF.try_fold(sl[0].upper.right) if lp.target.id in norm(sl[0].upper.left) else WF.try_fold(sl[0].upper.left)
            if not isinstance(step, int) or not isinstance(sent, int):
                raise AnalysisError(f"write_sideband: step {step} / slice length {sent} not foldable")
        rep.ob("R19.2", PROTO, ws.qual, "side-band chunk + channel byte + 4 <= 65520", sent + 1 + 4 <= MAX_PKT,
               f"chunks of {sent} bytes make frames of {sent + 5} bytes", ws.node.lineno)
        rep.ob("R19.2", PROTO, ws.qual, "the loop advances by exactly what it sent", sent == step,
               f"each frame carries {sent} bytes but the loop advances by {step}: " +
               ("bytes between them are never sent" if step > sent else "bytes are sent twice"), ws.node.lineno)
    bw = prog.func(PROTO, "BufferedPktLineWriter.__init__")
    dflt = None
    a = bw.node.args
    for arg, d in zip(a.args[-len(a.defaults):], a.defaults):
        if arg.arg == "bufsize":
            dflt = F.try_fold(d)
    rep.ob("R19.2", PROTO, bw.qual, "default buffer <= 65515", isinstance(dflt, int) and 0 < dflt <= 65515,
           f"bufsize default {dflt}", bw.node.lineno)
    for qual, payload_pat in (("Protocol.read_pkt_line", "size - 4"), ("PktLineParser.parse", None)):
        f = prog.func(PROTO, qual)
        g = cfg_of(prog, f)
        lt4 = [i for i, n in g.nodes.items() if n.kind == "test" and is_int_test(n.ast, F, "size", "<", 4)]
        if payload_pat is not None:
            use = [i for i, n in g.nodes.items() if any(payload_pat in norm(e) for e in node_exprs(n)) and n.kind in ("stmt", "test")]
        else:
            # the frame handed to the callback: handle_pkt(buf[LOW:HIGH]) with HIGH mentioning size
            use = [i for i, n in g.nodes.items() for c in node_calls(n) if callee_name(c) == "handle_pkt" and c.args
                   and isinstance(c.args[0], ast.Subscript) and isinstance(c.args[0].slice, ast.Slice) and "size" in norm(c.args[0].slice)]
        if not use:
            raise AnalysisError(f"{qual}: payload extraction not found")
        # payload extraction unreachable when the false edges of `size < 4` are cut
        r = reach(g, [g.entry], include_srcs=True, edge_ok=lambda a_, b, l: not (a_ in lt4 and l == "false"))
        ok = bool(lt4) and not any(u in r for u in use)
        rep.ob("R19.2", PROTO, qual, "payload extracted only after `size < 4` was rejected", ok,
               "read(size - 4) / buf[4:size] is reachable for a length below 4: negative read or an endless parser loop",
               g.nodes[use[0]].line)
        zero = [i for i, n in g.nodes.items() if n.kind == "test" and is_int_test(n.ast, F, "size", "==", 0)]
        bad = must_pass(g, lt4, zero)
        rep.ob("R19.2", PROTO, qual, "flush (0000) handled before the < 4 rejection", bool(zero) and not bad,
               "", g.nodes[lt4[0]].line if lt4 else f.node.lineno)
        parse = [i for i, n in g.nodes.items() for c in node_calls(n) if callee_name(c) == "_parse_pkt_line_length"]
        rep.ob("R19.3", PROTO, qual, "length prefix goes through _parse_pkt_line_length", bool(parse) and not must_pass(g, use, parse),
               "", f.node.lineno)
    # the transport is never asked for zero bytes (an empty pkt-line has no payload): the payload read is guarded by size > 4
    f = prog.func(PROTO, "Protocol.read_pkt_line")
    reads = [c for c in ast.walk(f.node) if isinstance(c, ast.Call) and isinstance(c.func, ast.Name) and c.func.id == "read"
             and c.args and "size - 4" in norm(c.args[0])]
    if not reads:
        raise AnalysisError("read_pkt_line: payload read not found")
    for c in reads:
        par = f.module.parents.get(c)
        def more_than_4(e):
            return is_int_test(e, F, "size", ">", 4) or is_int_test(e, F, "size", "!=", 4)

        def at_most_4(e):
            return is_int_test(e, F, "size", "<=", 4) or is_int_test(e, F, "size", "==", 4)
        guarded = isinstance(par, ast.IfExp) and ((par.body is c and more_than_4(par.test)) or (par.orelse is c and at_most_4(par.test)))
        if not guarded:
            g2 = cfg_of(prog, f)
            tests = {i: "true" for i, n in g2.nodes.items() if n.kind == "test" and more_than_4(n.ast)}
            tests.update({i: "false" for i, n in g2.nodes.items() if n.kind == "test" and at_most_4(n.ast)})
            r_ = reach(g2, [g2.entry], include_srcs=True, edge_ok=lambda a, b, l: not (a in tests and l == tests[a]))
            guarded = bool(tests) and not any(x in r_ for x in g2.nodes_containing(c))
        rep.ob("R19.2", PROTO, f.qual, "the transport is not asked for zero bytes on an empty pkt-line", guarded,
               "read(size - 4) is called with 0 for the empty pkt-line '0004': ReceivableProtocol.read asserts size > 0, so a valid "
               "empty frame makes the decoder fail with AssertionError", c.lineno)
    f = prog.func(PROTO, "Protocol.read_pkt_line")
    src = norm(f.node, 100000)
    # a (dis)equality between the length obtained (+4) and the prefix, whatever temporaries are used
    from sa.common import expr_key
    import copy as _copy
    single = {}
    for x in ast.walk(f.node):
        if isinstance(x, ast.Assign) and len(x.targets) == 1 and isinstance(x.targets[0], ast.Name):
            single.setdefault(x.targets[0].id, []).append(x.value)
    single = {k: v[0] for k, v in single.items() if len(v) == 1}

    class _Inl(ast.NodeTransformer):
        def visit_Name(self, node):
            if isinstance(node.ctx, ast.Load) and node.id in single and node.id not in ("size", "pkt_contents"):
                return self.visit(_copy.deepcopy(single[node.id]))
            return node
    cmp_ok = False
    for x in ast.walk(f.node):
        if isinstance(x, ast.Compare) and len(x.ops) == 1 and isinstance(x.ops[0], (ast.Eq, ast.NotEq)):
            l_, r_ = expr_key(_Inl().visit(_copy.deepcopy(x.left)), F), expr_key(_Inl().visit(_copy.deepcopy(x.comparators[0])), F)
            pair = {l_, r_}
            if pair == {"Add(4,len(pkt_contents))", "size"} or pair == {"len(pkt_contents)", "Sub(size,4)"}:
                cmp_ok = True
    rep.ob("R19.2", PROTO, f.qual, "obtained payload length compared with the prefix", cmp_ok, "", f.node.lineno)
    f = prog.func(PROTO, "PktLineParser.parse")
    # completeness: the test guarding the delivery compares the frame size with the bytes that are still unconsumed.
    # idiom A (re-slicing): buf[4:size] guarded by size <= len(buf); idiom B (offset P): buf[P+4:P+size] guarded by a test
    # that mentions P (size <= end - P, P + size <= end).
    deliver = [c for c in ast.walk(f.node) if isinstance(c, ast.Call) and callee_name(c) == "handle_pkt" and c.args
               and isinstance(c.args[0], ast.Subscript) and isinstance(c.args[0].slice, ast.Slice) and "size" in norm(c.args[0].slice)]
    if len(deliver) != 1:
        raise AnalysisError("PktLineParser.parse: delivery of a frame not found")
    sl = deliver[0].args[0].slice
    offs = {x.id for x in ast.walk(sl.lower) if isinstance(x, ast.Name)} if sl.lower is not None else set()
    guard = None
    cur = deliver[0]
    while cur in f.module.parents:
        cur = f.module.parents[cur]
        if isinstance(cur, ast.If) and "size" in norm(cur.test) and any(isinstance(o, (ast.LtE, ast.GtE, ast.Lt, ast.Gt)) for cmp_ in ast.walk(cur.test) if isinstance(cmp_, ast.Compare) for o in cmp_.ops):
            guard = cur.test
            break
    if guard is None:
        raise AnalysisError("PktLineParser.parse: completeness test guarding the delivery not found")
    gnames = {x.id for x in ast.walk(guard) if isinstance(x, ast.Name)}
    if offs:
        ok = bool(offs & gnames)
        why = f"frames are cut at offset `{sorted(offs)[0]}` but the completeness test `{norm(guard)}` ignores it: an incomplete frame " \
              f"that follows complete ones in the same chunk is delivered truncated"
    else:
        ok = "len(buf)" in norm(guard)
        why = f"completeness test `{norm(guard)}` does not compare with the buffered length"
    rep.ob("R19.2", PROTO, f.qual, "frame delivered only when fully buffered (size compared with the unconsumed bytes)", ok, why, deliver[0].lineno)
    # ---- R19.3 strict parser
    pl = prog.func(PROTO, "_parse_pkt_line_length")
    g = cfg_of(prog, pl)
    conv = [i for i, n in g.nodes.items() for c in node_calls(n) if dotted(c.func) == "int" and len(c.args) == 2
            and F.try_fold(c.args[1]) == 16]
    tests = [i for i, n in g.nodes.items() if n.kind == "test"]
    tsrc = " ".join(norm(g.nodes[i].ast) for i in tests)
    width = "len(" in tsrc and "4" in tsrc
    alpha = "issuperset" in tsrc or "in _HEX" in tsrc or "isalnum" in tsrc or "all(" in tsrc or "fullmatch" in tsrc or "match" in tsrc
    dominated = bool(conv) and bool(tests) and not must_pass(g, conv, tests)
    rep.ob("R19.3", PROTO, pl.qual, "int(_, 16) guarded by width == 4 and hex-alphabet tests", width and alpha and dominated,
           "int(x, 16) also accepts '-', '+', '0x', '_' and whitespace: a negative or oversized length reaches read()",
           pl.node.lineno)
    hexset = F.try_fold(m.consts.get("_HEX_DIGITS")) if "_HEX_DIGITS" in m.consts else None
    if hexset is not None:
        rep.ob("R19.3", PROTO, "_HEX_DIGITS", "alphabet is exactly the 22 hex digits", set(hexset) == set(b"0123456789abcdefABCDEF"),
               f"{sorted(hexset)}", m.consts["_HEX_DIGITS"].lineno)
    n_other = 0
    for rel in (PROTO, "dulwich/client.py", "dulwich/server.py"):
        mm = prog.module(rel)
        for c in ast.walk(mm.tree):
            if isinstance(c, ast.Call) and dotted(c.func) == "int" and len(c.args) == 2 and Folder(prog, mm).try_fold(c.args[1]) == 16:
                ff = mm.enclosing_func(c)
                if ff is pl:
                    continue
                n_other += 1
                rep.ob("R19.3", rel, ff.qual if ff else "<module>", f"no other hex length conversion: {norm(c, 50)}", False,
                       "a second, unguarded int(_, 16) on transport data", c.lineno)
    rep.count("other int(_,16) sites in protocol/client/server", n_other)
    # ---- R19.4 channel byte
    n_ch = 0
    for rel in (PROTO, "dulwich/client.py", "dulwich/server.py"):
        mm = prog.module(rel)
        for q, ff in mm.funcs.items():
            if "#" in q:
                continue
            sites = [c for c in ast.walk(ff.node) if isinstance(c, ast.Call) and dotted(c.func) == "ord" and c.args
                     and isinstance(c.args[0], ast.Subscript) and isinstance(c.args[0].value, ast.Name)
                     and c.args[0].value.id in ("pkt", "data", "line", "packet")
                     and ("channel" in norm(mm.enclosing_stmt(c)).lower() or "side_band" in q.lower() or "sideband" in q.lower())]
            if not sites:
                continue
            g = cfg_of(prog, ff)
            for c in sites:
                var = c.args[0].value.id
                n_ch += 1
                nodes = g.nodes_containing(c)
                tests = {}
                for i, n in g.nodes.items():
                    if n.kind == "test":
                        t = norm(n.ast).replace(" ", "")
                        if t == var or t == f"len({var})" or t == f"len({var})>0" or t == f"len({var})>=1":
                            tests[i] = "true"
                        if t in (f"len({var})==0", f"len({var})<1"):
                            tests[i] = "false"
                r = reach(g, [g.entry], include_srcs=True, edge_ok=lambda a_, b, l: not (a_ in tests and l == tests[a_]))
                ok = bool(tests) and not any(x in r for x in nodes)
                rep.ob("R19.4", rel, ff.qual, f"channel byte {norm(c)} read after a non-emptiness test", ok,
                       "ord() of an empty slice raises TypeError (not a protocol error) on an empty side-band packet",
                       c.lineno)
    if n_ch < 1:
        raise AnalysisError("no side-band channel byte read found")
    # ---- R19.5 sentinel by identity
    n_loops = 0
    # scope: the framing layer itself (protocol.py).  Loops in client.py/server.py that read command or ACK
    # lines stop on an empty line too, but there an empty line is invalid *content*, not a framing matter.
    for rel in (PROTO,):
        mm = prog.module(rel)
        for q, ff in mm.funcs.items():
            if "#" in q:
                continue
            assigns = [x for x in ast.walk(ff.node) if isinstance(x, ast.Assign) and isinstance(x.targets[0], ast.Name)
                       and isinstance(x.value, ast.Call) and callee_name(x.value) == "read_pkt_line"]
            if not assigns:
                continue
            names = {x.targets[0].id for x in assigns}
            for w in ast.walk(ff.node):
                if isinstance(w, ast.While) and mm.enclosing_func(w) is ff:
                    # loop re-reads inside the body: it is a sequence loop
                    if not any(isinstance(x, ast.Assign) and x in assigns for x in ast.walk(w)):
                        continue
                    t = w.test
                    tests = t.values if isinstance(t, ast.BoolOp) else [t]
                    # the same exit spelled inside the body: `while True: pkt = read(); if pkt is None: return/break`
                    for iff in [x for x in ast.walk(w) if isinstance(x, ast.If) and any(isinstance(y, (ast.Return, ast.Break)) for y in x.body + x.orelse)]:
                        tests = list(tests) + (iff.test.values if isinstance(iff.test, ast.BoolOp) else [iff.test])
                    for tt in tests:
                        if isinstance(tt, ast.UnaryOp) and isinstance(tt.op, ast.Not):
                            tt = tt.operand
                        if isinstance(tt, ast.Name) and tt.id in names:
                            n_loops += 1
                            rep.ob("R19.5", rel, ff.qual, f"while {norm(w.test, 60)}", False,
                                   "the loop stops on an empty payload (b'' is falsy) as if it were a flush-pkt: an empty "
                                   "pkt-line (0004) silently truncates the sequence", w.lineno)
                        elif isinstance(tt, ast.Compare) and isinstance(tt.left, ast.Name) and tt.left.id in names \
                                and isinstance(tt.ops[0], (ast.IsNot, ast.Is)):
                            n_loops += 1
                            rep.ob("R19.5", rel, ff.qual, f"while {norm(w.test, 60)}", True, "", w.lineno)
    rep.count("pkt sequence loops", n_loops)
    if n_loops < 1:
        raise AnalysisError(f"expected >= 1 loop over read_pkt_line() results in protocol.py, found {n_loops}")
    r19_6(prog, rep, m, F)
    r19_7(prog, rep, m, F)
    r19_9(prog, rep, m, F)
    r19_10(prog, rep, m, F)
    r19_11(prog, rep, m, F)
    from sa.common import share
    from rules import c02
    share(rep, lambda: c02.run(prog, rep, tier), "R19.8", lambda o: o.rule == "R02.7" and o.func.startswith("PackStreamReader."),
          "reassembly of the pack stream from arbitrary read chunks (shared with R02.7): exact reads use read_all with the pre-drain buffer length")
    rep.floor("R19.1", 1)
    rep.floor("R19.2", 8)
    rep.floor("R19.3", 4)


def r19_6(prog, rep, m, F):
    """Capability lists: the writer separates capabilities with ONE byte (space); the readers split on exactly that byte.
    An argument-less split()/strip-and-split treats TAB, CR, VT, FF as separators too, so a capability value that contains
    one of them (agent=...) comes back as several capabilities - and can smuggle one in."""
    rep.rule("R19.6", "TABLE-AGREE: capability separator of the writers (b' ') == split argument of the readers; no argument-less split() in protocol.py")
    probe = ast.parse("def f(x):\n    return x.split()\n")
    if len([c for c in ast.walk(probe) if isinstance(c, ast.Call) and isinstance(c.func, ast.Attribute) and c.func.attr in ("split", "rsplit") and not c.args and not c.keywords]) != 1:
        raise AnalysisError("R19.6 detector self-check failed")
    argless = [c for c in ast.walk(m.tree) if isinstance(c, ast.Call) and isinstance(c.func, ast.Attribute) and c.func.attr in ("split", "rsplit")
               and not c.args and not c.keywords]
    fq = m.enclosing_func(argless[0]).qual if argless and m.enclosing_func(argless[0]) else "<module>"
    rep.ob("R19.6", PROTO, fq, "no argument-less split() on wire data", not argless,
           f"`{norm(argless[0], 60)}` splits on every ASCII whitespace byte, the peer separated with a single space" if argless else "",
           argless[0].lineno if argless else 0)
    n = 0
    for name in ("extract_capabilities", "extract_want_line_capabilities"):
        f = m.funcs.get(name)
        if f is None:
            raise AnalysisError(f"{name} not found")
        seps = [F.try_fold(c.args[0]) for c in ast.walk(f.node) if isinstance(c, ast.Call) and isinstance(c.func, ast.Attribute) and c.func.attr == "split" and c.args]
        n += 1
        rep.ob("R19.6", PROTO, name, "the capability list is split on a single space", b" " in seps and all(isinstance(s_, bytes) and len(s_) == 1 for s_ in seps),
               f"separators used: {seps}", f.node.lineno)
    w = m.funcs.get("format_capability_line")
    if w is None:
        raise AnalysisError("format_capability_line not found")
    wsep = [x.value for x in ast.walk(w.node) if isinstance(x, ast.Constant) and isinstance(x.value, bytes)]
    rep.ob("R19.6", PROTO, w.qual, "the writer separates capabilities with a single space", wsep == [b"", b" "] or sorted(wsep) == [b"", b" "] or wsep == [b" "],
           f"constants: {wsep}", w.node.lineno)


WS = set(b" \t\n\r\x0b\x0c")


def r19_9(prog, rep, m, F):
    """want line: what the writer may leave after the last capability (the b" " before a possibly EMPTY join, the LF)
    is stripped by the reader before it splits on the single space, or empties are filtered."""
    rep.rule("R19.9", "TABLE-AGREE: the bytes the want-line writer appends after the capability list are stripped by extract_want_line_capabilities before the split")
    cm = prog.module("dulwich/client.py")
    w = cm.funcs.get("_handle_upload_pack_head")
    if w is None:
        raise AnalysisError("client._handle_upload_pack_head not found")
    # the variable that is written as the first want line: holds COMMAND_WANT
    wvars = {s_.targets[0].id for s_ in ast.walk(w.node) if isinstance(s_, ast.Assign) and isinstance(s_.targets[0], ast.Name)
             and "COMMAND_WANT" in norm(s_.value)}
    tail: set[int] = set()
    n_join = 0
    for s_ in ast.walk(w.node):
        if isinstance(s_, (ast.Assign, ast.AugAssign)):
            t = s_.targets[0] if isinstance(s_, ast.Assign) else s_.target
            if isinstance(t, ast.Name) and t.id in wvars:
                for c in ast.walk(s_.value):
                    if isinstance(c, ast.Constant) and isinstance(c.value, bytes) and len(c.value) == 1 and c.value[0] in WS:
                        tail.add(c.value[0])
                n_join += sum(1 for c in ast.walk(s_.value) if isinstance(c, ast.Call) and isinstance(c.func, ast.Attribute) and c.func.attr == "join")
    if not wvars or not n_join or not tail:
        raise AnalysisError("_handle_upload_pack_head: construction of the first want line (COMMAND_WANT ... join(capabilities) ... LF) not found")
    r = m.funcs.get("extract_want_line_capabilities")
    stripped: set[int] = set()
    for c in ast.walk(r.node):
        if isinstance(c, ast.Call) and isinstance(c.func, ast.Attribute) and c.func.attr in ("rstrip", "strip"):
            if not c.args:
                stripped |= WS
            else:
                v = F.try_fold(c.args[0])
                if not isinstance(v, bytes):
                    raise AnalysisError(f"extract_want_line_capabilities: strip argument `{norm(c.args[0])}` not a constant")
                stripped |= set(v)
    filters_empty = any(isinstance(c, ast.comprehension) and c.ifs for c in ast.walk(r.node)) or \
        any(isinstance(c, ast.Call) and callee_name(c) == "filter" for c in ast.walk(r.node))
    if filters_empty:
        stripped.add(0x20)
    missing = tail - stripped
    rep.ob("R19.9", PROTO, r.qual, f"bytes stripped before the split cover the writer's tail {sorted(bytes([b]) for b in tail)}", not missing,
           f"the client writes `want <sha> ` + b' '.join(caps) + LF; with {[bytes([b]) for b in sorted(missing)]} left on the line the reader returns a phantom "
           f"capability (b'' for an empty list) and the server refuses the request", r.node.lineno)


def _self_attr(e, name=None):
    return isinstance(e, ast.Attribute) and isinstance(e.value, ast.Name) and e.value.id == "self" and (name is None or e.attr == name)


def r19_10(prog, rep, m, F):
    """BufferedPktLineWriter.flush hands EVERYTHING in the buffer to the underlying writer.  Skipping the write is accepted
    only on a test of the buffer contents themselves (getvalue()/tell()).  A skip decided by a byte counter is accepted only
    if the counter is in step with the buffer at every call of flush(): no path from `self._wbuf.write(..)` to `self.flush()`
    without an update of the counter."""
    rep.rule("R19.10", "BufferedPktLineWriter.flush writes whatever the buffer holds; a skip is decided on the buffer, or on a counter that is in step with it at every flush() call")
    cls = "BufferedPktLineWriter"
    fl = m.funcs.get(f"{cls}.flush")
    if fl is None:
        raise AnalysisError(f"{cls}.flush not found")
    g = cfg_of(prog, fl)
    buf_fields = {s_.targets[0].attr for mf in m.funcs.values() if mf.qual.startswith(cls + ".") for s_ in ast.walk(mf.node)
                  if isinstance(s_, ast.Assign) and _self_attr(s_.targets[0]) and isinstance(s_.value, ast.Call) and callee_name(s_.value) == "BytesIO"}
    if not buf_fields:
        raise AnalysisError(f"{cls}: BytesIO buffer field not found")

    def mentions_buf(e):
        return any(_self_attr(x) and x.attr in buf_fields for x in ast.walk(e))
    datavars = {s_.targets[0].id for s_ in ast.walk(fl.node) if isinstance(s_, ast.Assign) and isinstance(s_.targets[0], ast.Name) and mentions_buf(s_.value)}
    emits = [i for i, n in g.nodes.items() for c in node_calls(n) if _self_attr(c.func) and c.func.attr not in ("flush",) and c.args
             and (mentions_buf(c.args[0]) or any(isinstance(x, ast.Name) and x.id in datavars for x in ast.walk(c.args[0])))]
    if not emits:
        raise AnalysisError(f"{cls}.flush: call handing the buffer to the underlying writer not found")
    on_buffer, on_counter = {}, {}
    for i, n in g.nodes.items():
        if n.kind != "test":
            continue
        names = {x.id for x in ast.walk(n.ast) if isinstance(x, ast.Name)} - {"self", "len"}
        attrs = {x.attr for x in ast.walk(n.ast) if _self_attr(x)}
        if (names and names <= datavars and not attrs - buf_fields) or (not names and attrs and attrs <= buf_fields):
            on_buffer[i] = n
        elif not names and attrs and not attrs & buf_fields:
            on_counter[i] = (n, attrs)
    bad = must_pass(g, [g.exit_normal], emits, edge_ok=lambda a, b, l: a not in on_buffer)
    ok, why, line = not bad, "", fl.node.lineno
    if bad:
        # which counter decides the skip?  is it in step with the buffer whenever flush() is called?
        bad2 = must_pass(g, [g.exit_normal], emits, edge_ok=lambda a, b, l: a not in on_buffer and a not in on_counter)
        counters = set().union(*[a for _, a in on_counter.values()]) if on_counter else set()
        if bad2 or not counters:
            why = "a path through flush() returns without handing the buffer to the underlying writer and without having tested the buffer"
        else:
            lag = None
            for mf in m.funcs.values():
                if not mf.qual.startswith(cls + ".") or "#" in mf.qual or mf is fl:
                    continue
                gg = cfg_of(prog, mf)
                puts = [i for i, n in gg.nodes.items() for c in node_calls(n) if isinstance(c.func, ast.Attribute) and c.func.attr == "write"
                        and _self_attr(c.func.value) and c.func.value.attr in buf_fields]
                upd = [i for i, n in gg.nodes.items() if isinstance(n.ast, (ast.Assign, ast.AugAssign)) and any(
                    _self_attr(x) and x.attr in counters and isinstance(x.ctx, ast.Store) for x in ast.walk(n.ast))]
                fcalls = [i for i, n in gg.nodes.items() for c in node_calls(n) if _self_attr(c.func, "flush")]
                for pnode in puts:
                    late = must_pass(gg, fcalls + [gg.exit_normal], upd, start=[b for b, l in gg.succ[pnode]])
                    if late:
                        lag = (mf, gg.nodes[pnode].line, gg.nodes[late[0]].line)
                        break
                if lag:
                    break
            if lag:
                why = (f"flush() skips the write when {sorted(counters)} is zero, but {lag[0].qual} puts bytes into the buffer (line {lag[1]}) and reaches "
                       f"flush()/return (line {lag[2]}) before the counter is updated: a line that exactly fills an empty buffer is never written")
                line = lag[1]
            else:
                ok = True
    rep.ob("R19.10", PROTO, fl.qual, "every return of flush() has handed the buffer contents to the underlying writer (or found the buffer empty)", ok, why, line)


def r19_7(prog, rep, m, F):
    """End of stream vs truncation: a read of the 4-byte length prefix that returns NOTHING is a hang-up (clean EOF for
    Protocol.eof()); a SHORT read (1-3 bytes) is a malformed frame and must not be reported as a hang-up."""
    rep.rule("R19.7", "only an EMPTY read of the length prefix is a hang-up; a short prefix is a protocol error")
    f = prog.func(PROTO, "Protocol.read_pkt_line")
    g = cfg_of(prog, f)
    hang = [i for i, n in g.nodes.items() if n.kind == "stmt" and isinstance(n.ast, ast.Raise) and "HangupException" in norm(n.ast)]
    if not hang:
        raise AnalysisError("read_pkt_line: raise HangupException not found")
    # the guarding test: truthiness of the prefix (accepted), len(prefix) == 0 (accepted), any other length comparison (rejected)
    from sa.common import var_cmp
    verdicts = []
    for h in hang:
        tests = [a for a, l in g.pred[h] if g.nodes[a].kind == "test"]
        for t in tests:
            e = g.nodes[t].ast
            if isinstance(e, ast.Name):
                verdicts.append((True, e))
                continue
            v = var_cmp(e, F)
            if v is not None and "len(" in norm(v[0]):
                verdicts.append(((v[1], v[2]) in (("==", 0), ("<", 1), ("<=", 0)), e))
            else:
                verdicts.append((None, e))
    known = [v for v in verdicts if v[0] is not None]
    if not known:
        raise AnalysisError("read_pkt_line: the test guarding the hang-up was not understood")
    bad = [e for ok_, e in known if not ok_]
    rep.ob("R19.7", PROTO, f.qual, "HangupException only for an empty read of the length prefix", not bad,
           f"`{norm(bad[0])}` also covers a prefix of 1-3 bytes: a truncated stream is reported as a clean end of stream (Protocol.eof() "
           f"returns True), neither a frame nor a protocol error" if bad else "", bad[0].lineno if bad else f.node.lineno)
    ln = prog.func(PROTO, "_parse_pkt_line_length")
    rep.ob("R19.7", PROTO, ln.qual, "a prefix that is not exactly 4 hex digits is a protocol error", "len(" in norm(ln.node, 10000) and "4" in norm(ln.node, 10000)
           and any(isinstance(x, ast.Raise) for x in ast.walk(ln.node)), "", ln.node.lineno)


def _ancestors(m, x):
    while x in m.parents:
        x = m.parents[x]
        yield x


def _in_logging(m, x):
    for p in _ancestors(m, x):
        if isinstance(p, ast.Call) and (dotted(p.func) or "").startswith("logger."):
            return True
        if isinstance(p, ast.Call) and callee_name(p) in ("GitProtocolError",):
            return True
    return False
