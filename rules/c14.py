"""C14 — optional acceleration data never changes an answer: fallback and validation STRUCTURE.

R14.1 commit-graph: at every use site a miss (None) falls back to the object store, and the graph is consulted
      only in place of the *default* parents function (a caller-supplied get_parents is never bypassed).
R14.2 a hit is validated before it is trusted: every MIDX hit dereferences the named pack before answering;
      Pack.bitmap passes the pack checksum, a mismatch or a missing file yields None.
R14.3 the commit-graph writer covers what the reader interprets (extra edge list for > 2 parents).
R14.4 packed-refs cache is compared with the on-disk identity before use and only read through its accessor.
"""
from __future__ import annotations

import ast

from sa.cfg import EXC_LABELS, node_calls, node_exprs, _walk_shallow
from sa.common import cfg_of
from sa.flow import must_pass_ps, lines, must_pass, path, reach, reaching_defs
from sa.load import AnalysisError, Program, arg_of, callee_name, dotted, norm, params

OS_PY = "dulwich/object_store.py"


def _cg_sites(prog: Program):
    out = []
    for m in prog.modules.values():
        if m.rel.endswith("commit_graph.py"):
            continue
        for c in ast.walk(m.tree):
            if isinstance(c, ast.Call) and isinstance(c.func, ast.Attribute) and c.func.attr == "get_parents" \
                    and "commit_graph" in (dotted(c.func.value) or ""):
                out.append((m, m.enclosing_func(c), c))
    return out


def r14_1(prog: Program, rep):
    sites = _cg_sites(prog)
    rep.count("commit-graph use sites", len(sites))
    for m, f, call in sites:
        g = cfg_of(prog, f)
        nodes = g.nodes_containing(call)
        stmt = m.enclosing_stmt(call)
        if not (isinstance(stmt, ast.Assign) and isinstance(stmt.targets[0], ast.Name)):
            rep.ob("R14.1", m.rel, f.qual, f"result of {norm(call, 50)} is bound to a name", False,
                   "the graph's answer is used without being bound and tested against None", call.lineno)
            continue
        var = stmt.targets[0].id
        rd = reaching_defs(g)
        # a None-test on the variable that this definition reaches
        tests = {}
        for i, n in g.nodes.items():
            if n.kind == "test" and isinstance(n.ast, ast.Compare) and isinstance(n.ast.left, ast.Name) \
                    and n.ast.left.id == var and len(n.ast.ops) == 1 and isinstance(n.ast.comparators[0], ast.Constant) \
                    and n.ast.comparators[0].value is None and any(x in rd[i].get(var, ()) for x in nodes):
                tests[i] = "true" if isinstance(n.ast.ops[0], ast.Is) else "false"   # label of the MISS side
        # on the miss side a store lookup must follow (store[x] / self.store[x])
        ok = bool(tests)
        detail = "the result of commit_graph.get_parents() is never tested against None"
        for t, miss_label in tests.items():
            miss = [b for b, l in g.succ[t] if l == miss_label]
            lookups = [i for i, n in g.nodes.items() for e in node_exprs(n) for x in _walk_shallow(e)
                       if isinstance(x, ast.Subscript) and isinstance(x.ctx, ast.Load) and "store" in (dotted(x.value) or "")]
            # every path from the miss side to a use of parents passes a store lookup or leaves through raise
            r = reach(g, [x for x in miss if x not in lookups], avoid=set(lookups), include_srcs=True)
            uses = [i for i in r if i not in miss and any(
                isinstance(x, ast.Name) and x.id == var and isinstance(x.ctx, ast.Load)
                for e in node_exprs(g.nodes[i]) for x in _walk_shallow(e)) and g.nodes[i].kind != "test"]
            if not lookups or uses:
                ok = False
                detail = "on a commit-graph miss the parents are used without reading the commit from the store"
        rep.ob("R14.1", m.rel, f.qual, f"miss of {norm(call, 50)} falls back to the store", ok, detail, call.lineno)
        # the graph must not bypass a caller-supplied parents function
        scope_funcs = [f] + ([f.parent] if f.parent else [])
        callable_params = []
        for sf in scope_funcs:
            for p in params(sf.node):
                if p == "get_parents":
                    callable_params.append((sf, p))
        for sf, p in callable_params:
            used_as_fallback = any(isinstance(c, ast.Call) and isinstance(c.func, ast.Name) and c.func.id == p
                                   for c in ast.walk(f.node))
            if not used_as_fallback:
                continue
            guarded = False
            for x in ast.walk(sf.node):
                if isinstance(x, ast.Compare) and isinstance(x.left, ast.Name) and x.left.id == p \
                        and isinstance(x.ops[0], (ast.Is, ast.IsNot)):
                    # the identity test must control the commit_graph binding or the use
                    anc = x
                    while anc in m.parents:
                        anc = m.parents[anc]
                        if isinstance(anc, (ast.Assign, ast.If, ast.IfExp)) and "commit_graph" in norm(anc, 2000):
                            guarded = True
                            break
            rep.ob("R14.1", m.rel, f.qual, f"graph consulted only in place of the default `{p}`", guarded,
                   f"the fallback calls the caller-supplied `{p}` (grafts, shallow boundaries) but the commit graph "
                   f"answers first, whatever function was supplied: the answer changes with the presence of the file",
                   call.lineno)
    # the provider used by Repo: grafts and shallows are consulted before the graph
    pp = prog.func("dulwich/repo.py", "ParentsProvider.get_parents")
    g = cfg_of(prog, pp)
    cgn = [i for i, n in g.nodes.items() for c in node_calls(n) if "commit_graph" in (dotted(c.func) or "")]
    graft = [i for i, n in g.nodes.items() if "self.grafts" in " ".join(norm(e) for e in node_exprs(n))]
    shal = [i for i, n in g.nodes.items() if "self.shallows" in " ".join(norm(e) for e in node_exprs(n))]
    rep.ob("R14.1", "dulwich/repo.py", pp.qual, "grafts and shallows are consulted before the commit graph",
           bool(cgn) and bool(graft) and bool(shal) and not must_pass(g, cgn, graft) and not must_pass(g, cgn, shal),
           "", pp.node.lineno)


def r14_2(prog: Program, rep):
    m = prog.module(OS_PY)
    n_midx = 0
    for q, f in m.funcs.items():
        if f.cls is None or "#" in q or f.name in ("get_midx", "write_midx", "close"):
            continue
        if not any(isinstance(c, ast.Call) and callee_name(c) == "get_midx" for c in ast.walk(f.node)):
            continue
        g = cfg_of(prog, f)
        # hit events: `x in midx` tests (true side) and `midx.object_offset(...)`
        hits = []
        for i, n in g.nodes.items():
            if n.kind == "test" and isinstance(n.ast, ast.Compare) and isinstance(n.ast.ops[0], ast.In) \
                    and "midx" in norm(n.ast.comparators[0]):
                hits += [b for b, l in g.succ[i] if l == "true"]
            for c in node_calls(n):
                if isinstance(c.func, ast.Attribute) and c.func.attr in ("object_offset", "__contains__") and "midx" in norm(c.func.value):
                    hits += [b for b, l in g.succ[i] if l not in EXC_LABELS]
        if not hits:
            continue
        n_midx += 1
        deref = [i for i, n in g.nodes.items() for c in node_calls(n) if callee_name(c) == "_get_pack_by_name"]
        fallback = [i for i, n in g.nodes.items() for c in node_calls(n)
                    if isinstance(c.func, ast.Attribute) and isinstance(c.func.value, ast.Call) and callee_name(c.func.value) == "super"]
        rets = [i for i, n in g.nodes.items() if n.kind == "stmt" and isinstance(n.ast, ast.Return) and i not in fallback]
        bad = must_pass_ps(g, rets, set(deref) | set(fallback), start=hits)
        rep.ob("R14.2", OS_PY, f.qual, "a MIDX hit dereferences the named pack (or falls back) before answering", not bad,
               "an answer is returned from a multi-pack-index hit without checking that the pack it names still exists: "
               "a stale MIDX makes `oid in store` true while store[oid] raises", g.nodes[bad[0]].line if bad else f.node.lineno,
               lines(g, path(g, hits, bad[0], avoid=set(deref) | set(fallback))) if bad else [])
        # every use of the pack obtained from the MIDX hit lies inside the protected region
        for tnode in [t for t in ast.walk(f.node) if isinstance(t, ast.Try)]:
            if not any(isinstance(c, ast.Call) and callee_name(c) == "_get_pack_by_name" for s_ in tnode.body for c in ast.walk(s_)):
                continue
            packvars = {s_.targets[0].id for s_ in ast.walk(tnode) if isinstance(s_, ast.Assign) and isinstance(s_.targets[0], ast.Name)
                        and isinstance(s_.value, ast.Call) and callee_name(s_.value) == "_get_pack_by_name"}
            outside = [x for part in (tnode.orelse, tnode.finalbody) for s_ in part for x in ast.walk(s_)
                       if isinstance(x, ast.Name) and x.id in packvars]
            rep.ob("R14.2", OS_PY, f.qual, "the pack named by the MIDX is dereferenced inside the protected region", not outside,
                   "the pack is looked up inside try but used outside it: PackFileDisappeared from the stale pack escapes instead of "
                   "falling back", tnode.lineno)
        # the dereference is protected: KeyError / PackFileDisappeared lead to the fallback
        for d in deref:
            handlers = [h for t in ast.walk(f.node) if isinstance(t, ast.Try)
                        and any(x is c for s in t.body for c in ast.walk(s) for x in [c] if isinstance(c, ast.Call) and callee_name(c) == "_get_pack_by_name")
                        for h in t.handlers]
            names = " ".join(norm(h.type) for h in handlers if h.type is not None)
            rep.ob("R14.2", OS_PY, f.qual, "vanished pack on a MIDX hit is handled (KeyError, PackFileDisappeared)",
                   "KeyError" in names and "PackFileDisappeared" in names, f"handlers: {names}", g.nodes[d].line)
    if n_midx < 2:
        raise AnalysisError(f"expected >= 2 MIDX-using lookups in DiskObjectStore, found {n_midx}")
    # ---- bitmap
    pm = prog.module("dulwich/pack.py")
    bp = pm.funcs.get("Pack.bitmap")
    if bp is None:
        raise AnalysisError("Pack.bitmap property not found")
    rb = [c for c in ast.walk(bp.node) if isinstance(c, ast.Call) and callee_name(c) == "read_bitmap"]
    if not rb:
        raise AnalysisError("Pack.bitmap: read_bitmap call not found")
    kw = {k.arg: k.value for k in rb[0].keywords}
    rep.ob("R14.2", pm.rel, bp.qual, "pack checksum handed to read_bitmap", "pack_checksum" in kw and "checksum" in norm(kw["pack_checksum"]),
           "the bitmap is loaded without telling the reader which pack it must belong to", rb[0].lineno)
    handled = set()
    for t in ast.walk(bp.node):
        if isinstance(t, ast.Try) and any(c is rb[0] for s in t.body for c in ast.walk(s)):
            for h in t.handlers:
                returns_none = any(isinstance(r, ast.Return) and (r.value is None or (isinstance(r.value, ast.Constant) and r.value.value is None))
                                   for r in ast.walk(h))
                if returns_none and h.type is not None:
                    for nm in ast.walk(h.type):
                        if isinstance(nm, ast.Name):
                            handled.add(nm.id)
    rep.ob("R14.2", pm.rel, bp.qual, "checksum mismatch yields None (stale bitmap ignored)", "ChecksumMismatch" in handled,
           "", bp.node.lineno)
    prop_handles_missing = bool(handled & {"FileNotFoundError", "OSError"})
    bm = prog.module("dulwich/bitmap.py")
    rbf = bm.funcs.get("read_bitmap_file")
    cmp_ok = any(isinstance(x, ast.Raise) and "ChecksumMismatch" in norm(x) for x in ast.walk(rbf.node)) and \
        any(isinstance(x, ast.Compare) and "pack_checksum" in norm(x) for x in ast.walk(rbf.node))
    rep.ob("R14.2", bm.rel, "read_bitmap_file", "reader compares the stored checksum and raises ChecksumMismatch", cmp_ok, "", rbf.node.lineno)
    # every access of Pack.bitmap is protected against a missing file (or the property is)
    n_acc = 0
    for mod in prog.modules.values():
        for x in ast.walk(mod.tree):
            if isinstance(x, ast.Attribute) and x.attr == "bitmap" and isinstance(x.ctx, ast.Load):
                base = dotted(x.value) or ""
                f = mod.enclosing_func(x)
                if not ("pack" in base.lower() or (base == "self" and f is not None and f.cls == "Pack")):
                    continue
                if f is bp:
                    continue
                n_acc += 1
                protected = prop_handles_missing
                if not protected:
                    cur = x
                    while cur in mod.parents and not protected:
                        par = mod.parents[cur]
                        if isinstance(par, ast.Try) and cur in par.body:
                            for h in par.handlers:
                                if h.type is None or any(isinstance(nm, ast.Name) and nm.id in ("FileNotFoundError", "OSError", "Exception")
                                                         for nm in ast.walk(h.type)):
                                    protected = True
                        cur = par
                rep.ob("R14.2", mod.rel, f.qual if f else "<module>", f"access {norm(x)} tolerates a pack without bitmap", protected,
                       "Pack.bitmap raises FileNotFoundError for a pack without a .bitmap file and this access is not protected: "
                       "with bitmaps on only some packs the bitmap-accelerated query fails instead of falling back", x.lineno)
    if n_acc < 3:
        raise AnalysisError(f"expected >= 3 accesses of Pack.bitmap, found {n_acc}")


def enumerate_last(prog, rep, rule, m, f):
    """`for n, x in enumerate(S): if n == len(X) - 1:` - the 'last element' test must measure the sequence being iterated."""
    k = 0
    for lp in [x for x in ast.walk(f.node) if isinstance(x, ast.For) and isinstance(x.iter, ast.Call) and callee_name(x.iter) == "enumerate"
               and x.iter.args and isinstance(x.target, ast.Tuple) and isinstance(x.target.elts[0], ast.Name)]:
        idx = lp.target.elts[0].id
        seq = norm(lp.iter.args[0])
        for c in ast.walk(lp):
            if isinstance(c, ast.Compare) and isinstance(c.left, ast.Name) and c.left.id == idx and isinstance(c.ops[0], ast.Eq) \
                    and "len(" in norm(c.comparators[0]):
                k += 1
                measured = [norm(x.args[0]) for x in ast.walk(c.comparators[0]) if isinstance(x, ast.Call) and callee_name(x) == "len" and x.args]
                rep.ob(rule, m.rel, f.qual, f"`{norm(c)}` measures the sequence the loop iterates (`{seq}`)", measured == [seq],
                       f"the loop runs over `{seq}` but its 'last element' test uses len({measured}): the last-edge flag is set on the "
                       f"wrong element or never, so the reader runs on into the next commit's edges", c.lineno)
    return k


def r14_3(prog: Program, rep):
    m = prog.module("dulwich/commit_graph.py")
    w = prog.func(m.rel, "CommitGraph.write_to_file")
    names_w = {x.id for x in ast.walk(w.node) if isinstance(x, ast.Name)}
    reader_funcs = [f for q, f in m.funcs.items() if f.cls == "CommitGraph" and f is not w]
    names_r = set()
    for f in reader_funcs:
        names_r |= {x.id for x in ast.walk(f.node) if isinstance(x, ast.Name)}
    for c in ("GRAPH_EXTRA_EDGES_NEEDED", "GRAPH_LAST_EDGE", "CHUNK_EXTRA_EDGE_LIST"):
        if c not in names_r:
            raise AnalysisError(f"commit-graph reader no longer references {c}")
        rep.ob("R14.3", m.rel, w.qual, f"writer uses {c} (the reader interprets it)", c in names_w,
               "the reader decodes an encoding the writer never produces: information that needs it (parents beyond the "
               "second) is dropped when the graph is written", w.node.lineno)
    # the index stored with GRAPH_EXTRA_EDGES_NEEDED is in the unit the reader multiplies by (one edge = one 4-byte slot)
    rd = m.funcs.get("CommitGraph._parse_extra_edges")
    if rd is None:
        raise AnalysisError("CommitGraph._parse_extra_edges not found")
    from sa.consts import Folder
    F = Folder(prog, m)
    local = {s_.targets[0].id: s_.value for s_ in ast.walk(rd.node) if isinstance(s_, ast.Assign) and isinstance(s_.targets[0], ast.Name)}
    FL = Folder(prog, m, local)          # the slot size may sit in a local (`edge_size = struct.calcsize('>L')`)
    scale = [FL.try_fold(x.right if isinstance(x.left, ast.Name) and x.left.id == "index" else x.left) for x in ast.walk(rd.node)
             if isinstance(x, ast.BinOp) and isinstance(x.op, ast.Mult) and any(isinstance(y, ast.Name) and y.id == "index" for y in (x.left, x.right))]
    stored = [x for x in ast.walk(w.node) if isinstance(x, ast.BinOp) and isinstance(x.op, ast.BitOr) and "GRAPH_EXTRA_EDGES_NEEDED" in norm(x.left)]
    unit_ok = False
    detail = "no `GRAPH_EXTRA_EDGES_NEEDED | <index>` expression in the writer"
    for x in stored:
        r = x.right
        if isinstance(r, ast.BinOp) and isinstance(r.op, ast.FloorDiv) and "len(" in norm(r.left):
            unit_ok = scale == [F.try_fold(r.right)]
            detail = f"writer stores len(...) // {F.try_fold(r.right)}, reader multiplies by {scale}"
        elif "len(" in norm(r) :
            detail = f"writer stores `{norm(r)}` (a byte length), reader multiplies the stored index by {scale}"
        else:
            unit_ok = True       # an entry counter
    rep.ob("R14.3", m.rel, w.qual, "extra-edge index is stored in the unit the reader scales (4-byte slots)", unit_ok, detail, w.node.lineno)
    enumerate_last(prog, rep, "R14.3", m, w)
    # a branch for more than two parents exists and does not merely repeat the two-parent encoding
    branches = [x for x in ast.walk(w.node) if isinstance(x, ast.If) and "len(entry.parents)" in norm(x.test)]
    rep.ob("R14.3", m.rel, w.qual, "parent count is dispatched (0, 1, 2, more)", len(branches) >= 3, "", w.node.lineno)
    # every chunk id written in the TOC has its data written
    toc = [norm(c) for c in ast.walk(w.node) if isinstance(c, ast.Call) and dotted(c.func) == "f.write" and "CHUNK_" in norm(c)]
    rep.ob("R14.3", m.rel, w.qual, "table of contents lists fanout, lookup and commit data", sum(
        1 for k in ("CHUNK_OID_FANOUT", "CHUNK_OID_LOOKUP", "CHUNK_COMMIT_DATA") if any(k in t for t in toc)) == 3, "", w.node.lineno)


def r14_4(prog: Program, rep):
    m = prog.module("dulwich/refs.py")
    gp = prog.func(m.rel, "DiskRefsContainer.get_packed_refs")
    g = cfg_of(prog, gp)
    key_tests = [i for i, n in g.nodes.items() if n.kind == "test" and "_current_packed_refs_key" in norm(n.ast)]
    rets = [i for i, n in g.nodes.items() if n.kind == "stmt" and isinstance(n.ast, ast.Return) and "self._packed_refs" in norm(n.ast)]
    none_tests = [i for i, n in g.nodes.items() if n.kind == "test" and norm(n.ast).replace(" ", "") == "self._packed_refsisNone"]
    # a populated cache is returned only after its key was compared
    r = reach(g, [g.entry], avoid=set(key_tests), include_srcs=True,
              edge_ok=lambda a, b, l: not (a in none_tests and l == "true"))
    bad = [x for x in rets if x in r]
    # paths where the cache is None at entry are exempt: nothing stale can be returned
    first_tests = [i for i, n in g.nodes.items() if n.kind == "test" and norm(n.ast).replace(" ", "") == "self._packed_refsisnotNone"]
    r2 = reach(g, [g.entry], avoid=set(key_tests), include_srcs=True,
               edge_ok=lambda a, b, l: not ((a in first_tests and l == "false") or (a in none_tests and l == "true")))
    bad = [x for x in rets if x in r2]
    rep.ob("R14.4", m.rel, gp.qual, "cached packed-refs returned only after comparing its identity with the file", bool(key_tests) and not bad,
           "a cached packed-refs map is returned without checking that the file is still the one it was read from",
           gp.node.lineno)
    inval = [c for c in ast.walk(gp.node) if isinstance(c, ast.Call) and callee_name(c) == "_invalidate_packed_refs_cache"]
    rep.ob("R14.4", m.rel, gp.qual, "a changed identity drops the cache", bool(inval), "", gp.node.lineno)
    records = any(isinstance(x, ast.Assign) and "self._packed_refs_key" in norm(x.targets[0]) and "fstat" in norm(x.value)
                  for x in ast.walk(gp.node))
    rep.ob("R14.4", m.rel, gp.qual, "identity recorded from the open file (fstat), not the path", records, "", gp.node.lineno)
    # the key validates the cache: it is recorded only once the file was parsed to the end (a parse error after the key was
    # set would leave a half-filled map that later reads take for the complete file)
    keyn = [i for i, n in g.nodes.items() if n.kind == "stmt" and isinstance(n.ast, ast.Assign) and "self._packed_refs_key" in norm(n.ast.targets[0])
            and not (isinstance(n.ast.value, ast.Constant) and n.ast.value.value is None)]
    parse = [i for i, n in g.nodes.items() for c in node_calls(n) if callee_name(c) in ("read_packed_refs", "read_packed_refs_with_peeled")] + \
        [i for i, n in g.nodes.items() if n.kind in ("for_iter", "for_init") and any(callee_name(c) in ("read_packed_refs", "read_packed_refs_with_peeled")
                                                                                    for c in ast.walk(n.ast.iter) if isinstance(c, ast.Call))]
    after_key = reach(g, [b for k in keyn for b, l in g.succ[k] if l not in EXC_LABELS], include_srcs=True) if keyn else set()
    late = [p_ for p_ in parse if p_ in after_key]
    rep.ob("R14.4", m.rel, gp.qual, "the identity is recorded only after the file was parsed to the end", bool(keyn) and bool(parse) and not late,
           "parsing continues after the cache key was recorded: when a later line fails to parse, the partly filled map stays behind "
           "with a valid key and every later read silently returns only the refs before the bad line", g.nodes[keyn[0]].line if keyn else gp.node.lineno)
    # who reads the cache attribute directly
    allowed = {"get_packed_refs", "_invalidate_packed_refs_cache", "__init__", "get_peeled"}
    for x in ast.walk(m.tree):
        if isinstance(x, ast.Attribute) and x.attr == "_packed_refs" and isinstance(x.ctx, ast.Load) and dotted(x.value) == "self":
            f = m.enclosing_func(x)
            if f is None or f.cls != "DiskRefsContainer":
                continue
            ok = f.name in allowed
            if f.name == "get_peeled":
                # must refresh through the accessor first
                ok = any(isinstance(c, ast.Call) and callee_name(c) == "get_packed_refs" for c in ast.walk(f.node))
            rep.ob("R14.4", m.rel, f.qual, "packed-refs cache read only through its accessor", ok,
                   "self._packed_refs is read directly, bypassing the identity check of get_packed_refs()", x.lineno)
    pk = m.funcs.get("_packed_refs_key")
    if pk is None:
        raise AnalysisError("_packed_refs_key not found")
    src = norm(pk.node, 10000)
    rep.ob("R14.4", m.rel, "_packed_refs_key", "identity covers inode, size and mtime",
           "st_ino" in src and "st_size" in src and "st_mtime" in src, src[-150:], pk.node.lineno)


def r14_5(prog: Program, rep):
    """Bitmap entries may be stored XOR-compressed against an earlier entry (xor_offset > 0), which may itself be
    compressed.  What is handed out must be the RESOLVED bitmap: the operand XOR-ed with an entry's stored bits has to be
    the result of resolving the base (the recursive get_bitmap call), never another entry's stored `.bitmap` field."""
    m = prog.module("dulwich/bitmap.py")
    f = m.funcs.get("PackBitmap.get_bitmap")
    if f is None:
        raise AnalysisError("PackBitmap.get_bitmap not found")
    g = cfg_of(prog, f)
    from sa.flow import reaching_defs
    rd = reaching_defs(g)
    n = 0
    for i, nd in g.nodes.items():
        for e in node_exprs(nd):
            for x in [x for x in ast.walk(e) if isinstance(x, ast.BinOp) and isinstance(x.op, ast.BitXor)]:
                n += 1
                ops = [x.left, x.right]
                stored = [o for o in ops if isinstance(o, ast.Attribute) and o.attr == "bitmap"]
                other = [o for o in ops if o not in stored]
                ok = len(stored) == 1 and len(other) == 1
                why = "both operands are stored `.bitmap` fields: the base is used in its compressed form" if len(stored) == 2 else ""
                if ok:
                    o = other[0]
                    resolved = isinstance(o, ast.Call) and callee_name(o) == "get_bitmap"
                    if isinstance(o, ast.Name):
                        defs = [g.nodes[d] for d in rd[i].get(o.id, ())]
                        resolved = bool(defs) and all(dn.kind == "stmt" and isinstance(dn.ast, ast.Assign) and isinstance(dn.ast.value, ast.Call)
                                                      and callee_name(dn.ast.value) == "get_bitmap" for dn in defs)
                    ok = resolved
                    why = f"`{norm(o)}` is not the result of resolving the base with get_bitmap()"
                rep.ob("R14.5", m.rel, f.qual, f"`{norm(x, 60)}`: the base operand is the resolved bitmap of the base entry", ok,
                       why + ": with an XOR chain of depth two or more the answer is a wrong object set (reachability answers and "
                       "the objects chosen for a fetch change with the presence of the bitmap)", x.lineno)
    if n < 1:
        raise AnalysisError("PackBitmap.get_bitmap: no XOR decompression found")
    # the writer only ever XORs against entries within the byte-sized offset the reader can follow
    src = norm(f.node, 100000)
    rep.ob("R14.5", m.rel, f.qual, "the base is located `xor_offset` entries back in the same ordered list", "current_idx - entry.xor_offset" in src
           and "entry.xor_offset <= current_idx" in src.replace("current_idx >= entry.xor_offset", "entry.xor_offset <= current_idx"), "", f.node.lineno)


def r14_6(prog: Program, rep):
    """Partial acceleration never answers.  In the bitmap reachability provider, when a lookup of bitmaps comes back
    incomplete (fewer bitmaps than commits asked for, or a bitmap that cannot be resolved) no non-None result is
    reachable any more: the caller falls back to graph traversal.  And the two providers mean the same thing by
    'reachable objects' (the fallback walks the ancestry like a bitmap does)."""
    m = prog.module(OS_PY)
    f0 = m.funcs.get("BitmapReachability._combine_commit_bitmaps")
    if f0 is None:
        raise AnalysisError("BitmapReachability._combine_commit_bitmaps not found")
    # the function itself and the methods of the class it hands part of the work to (`self._helper(...)`): in each of them an
    # incomplete lookup must end in `return None` (the fallback), never in a value
    helpers = [m.funcs[f"BitmapReachability.{c.func.attr}"] for c in ast.walk(f0.node) if isinstance(c, ast.Call) and isinstance(c.func, ast.Attribute)
               and isinstance(c.func.value, ast.Name) and c.func.value.id == "self" and f"BitmapReachability.{c.func.attr}" in m.funcs]
    n = 0
    for f in [f0] + helpers:
        g = cfg_of(prog, f)
        good_rets = [i for i, n_ in g.nodes.items() if n_.kind == "stmt" and isinstance(n_.ast, ast.Return) and n_.ast.value is not None
                     and not (isinstance(n_.ast.value, ast.Constant) and n_.ast.value.value is None)]
        if not good_rets:
            if f is f0:
                raise AnalysisError("_combine_commit_bitmaps: no result return found")
            continue
        for a in [x for x in ast.walk(f.node) if isinstance(x, ast.Assign) and isinstance(x.value, ast.Call) and callee_name(x.value) == "find_commit_bitmaps"
                  and isinstance(x.targets[0], ast.Name) and x.value.args and isinstance(x.value.args[0], ast.Name)]:
            v, s_ = a.targets[0].id, a.value.args[0].id
            tests = []
            for i, nd in g.nodes.items():
                if nd.kind != "test" or not isinstance(nd.ast, ast.Compare) or len(nd.ast.ops) != 1:
                    continue
                l, r = norm(nd.ast.left), norm(nd.ast.comparators[0])
                if {l, r} != {f"len({v})", f"len({s_})"}:
                    continue
                op = nd.ast.ops[0]
                if isinstance(op, ast.Eq):
                    tests.append((i, "false"))
                elif isinstance(op, ast.NotEq):
                    tests.append((i, "true"))
                elif isinstance(op, (ast.Lt, ast.LtE)):
                    # canonical form: smaller on the left; `len(found) < len(asked)` is the incomplete case
                    tests.append((i, "true" if l == f"len({v})" else "false"))
            n += 1
            bad = []
            for i, lab in tests:
                start = [b for b, l_ in g.succ[i] if l_ == lab]
                r_ = reach(g, start, include_srcs=True)
                bad += [x for x in good_rets if x in r_]
            rep.ob("R14.6", m.rel, f.qual, f"when fewer bitmaps than `{s_}` were found no result is returned (fallback)", bool(tests) and not bad,
                   ("no completeness test of the lookup" if not tests else "a result is still returned when the lookup was incomplete") +
                   ": part of the request (e.g. the whole exclude set) is silently left out, so the answer depends on which commits happen to have a bitmap",
                   a.lineno)
        for a in [x for x in ast.walk(f.node) if isinstance(x, ast.Assign) and isinstance(x.value, ast.Call) and callee_name(x.value) == "get_bitmap"
                  and isinstance(x.targets[0], ast.Name)]:
            v = a.targets[0].id
            tests = [i for i, nd in g.nodes.items() if nd.kind == "test" and norm(nd.ast) == f"{v} is None"]
            n += 1
            bad = []
            for i in tests:
                r_ = reach(g, [b for b, l_ in g.succ[i] if l_ == "true"], include_srcs=True)
                bad += [x for x in good_rets if x in r_]
            rep.ob("R14.6", m.rel, f.qual, f"an unresolvable bitmap (`{v} is None`) ends in the fallback, never in a partial result", bool(tests) and not bad,
                   "the loop is left (break/continue) and a result built from the bitmaps seen so far is returned", a.lineno)
    if n < 3:
        raise AnalysisError(f"_combine_commit_bitmaps: expected >= 3 bitmap lookups, found {n}")
    fb = m.funcs.get("GraphTraversalReachability.get_reachable_objects")
    if fb is None:
        raise AnalysisError("GraphTraversalReachability.get_reachable_objects not found")
    rep.ob("R14.6", m.rel, fb.qual, "the fallback's 'reachable objects' walks the ancestry (same meaning as a commit's bitmap)",
           any(isinstance(c, ast.Call) and callee_name(c) in ("get_reachable_commits", "_collect_ancestors") for c in ast.walk(fb.node)),
           "the fallback returns only the objects of the listed commits themselves while a bitmap covers all ancestors: the same query "
           "has two answers depending on whether a .bitmap file exists", fb.node.lineno)


def r14_7(prog: Program, rep):
    """(1) SAME-PACK: bit positions of a bitmap are positions in ONE pack's index; bitmaps are combined (|, -) only when they
    come from the same pack - the lookup of the bitmaps to subtract is restricted to the pack of the accumulated bitmap, or
    every combination sits behind a pack equality test.
    (2) SAME-TREATMENT: parents taken from the commit-graph go through the same existence filter as parents taken from the
    commit object (a stale graph of a history-truncated clone names parents that are not there)."""
    from sa.flow import reaching_defs
    m = prog.module(OS_PY)
    f = m.funcs.get("BitmapReachability._combine_commit_bitmaps")
    if f is None:
        raise AnalysisError("BitmapReachability._combine_commit_bitmaps not found")
    helpers7 = [m.funcs[f"BitmapReachability.{c.func.attr}"] for c in ast.walk(f.node) if isinstance(c, ast.Call) and isinstance(c.func, ast.Attribute)
                and isinstance(c.func.value, ast.Name) and c.func.value.id == "self" and f"BitmapReachability.{c.func.attr}" in m.funcs]
    n = 0
    for f in [f] + helpers7:
      lookups = [x for x in ast.walk(f.node) if isinstance(x, ast.Assign) and isinstance(x.value, ast.Call) and callee_name(x.value) == "find_commit_bitmaps"
                 and isinstance(x.targets[0], ast.Name) and len(x.value.args) >= 2]
      packvars = {t.id for x in ast.walk(f.node) if isinstance(x, ast.Assign) for t in [x.targets[0]] if isinstance(t, ast.Name) and "pack" in t.id and "bitmap" not in t.id}
      packvars |= {a_.arg for a_ in f.node.args.args + f.node.args.kwonlyargs if "pack" in a_.arg and "bitmap" not in a_.arg}
      for lk in lookups:
          res, scope_ = lk.targets[0].id, lk.value.args[1]
          restricted = isinstance(scope_, ast.List) and len(scope_.elts) == 1 and isinstance(scope_.elts[0], ast.Name) and scope_.elts[0].id in packvars
          # loops consuming this lookup
          for lp in [x for x in ast.walk(f.node) if isinstance(x, ast.For) and any(isinstance(y, ast.Name) and y.id == res for y in ast.walk(x))]:
              combines = [b for b in ast.walk(lp) if isinstance(b, (ast.BinOp, ast.AugAssign)) and isinstance(b.op, (ast.BitOr, ast.Sub, ast.BitAnd, ast.BitXor)) and "bitmap" in norm(b)]
              if not combines:
                  continue
              n += 1
              guarded = any(isinstance(t, ast.Compare) and len(t.ops) == 1 and isinstance(t.ops[0], (ast.Eq, ast.NotEq, ast.Is, ast.IsNot))
                            and {type(t.left), type(t.comparators[0])} == {ast.Name} and {t.left.id, t.comparators[0].id} & packvars
                            and "pack" in t.left.id and "pack" in t.comparators[0].id for t in ast.walk(lp))
              rep.ob("R14.7", m.rel, f.qual, f"bitmaps found by `{norm(lk.value, 60)}` are combined only within one pack", restricted or guarded,
                     "the lookup spans several packs and nothing compares the pack before the bitmaps are combined: bit positions of one pack's index "
                     "are applied to another pack's bitmap - a wrong object set", lk.lineno)
    if n < 2:
        raise AnalysisError(f"_combine_commit_bitmaps: expected >= 2 bitmap combination loops, found {n}")
    gd = m.funcs.get("get_depth")
    if gd is None:
        raise AnalysisError("get_depth not found")
    g = cfg_of(prog, gd)
    rd = reaching_defs(g)

    def filtered(e):
        """a comprehension / generator over parents with an `in store` filter"""
        return isinstance(e, (ast.GeneratorExp, ast.ListComp, ast.SetComp)) and any(
            isinstance(c, ast.Compare) and isinstance(c.ops[0], ast.In) and "store" in norm(c.comparators[0]) for gen in e.generators for i_ in gen.ifs for c in ast.walk(i_))
    ext = [(i, c) for i, nd in g.nodes.items() for c in node_calls(nd) if isinstance(c.func, ast.Attribute) and c.func.attr in ("extend", "append", "appendleft")
           and "queue" in norm(c.func.value)]
    if not ext:
        raise AnalysisError("get_depth: the statement that queues the parents was not found")
    for i, c in ext:
        arg = c.args[0] if c.args else None
        if filtered(arg):
            ok = True
        else:
            names = {y.id for y in ast.walk(arg) if isinstance(y, ast.Name)} if arg is not None else set()
            pv = [nm for nm in names if "parent" in nm]
            defs = [g.nodes[d] for nm in pv for d in rd[i].get(nm, ())]
            vals = [dn.ast.value for dn in defs if dn.kind == "stmt" and isinstance(dn.ast, ast.Assign) and not (isinstance(dn.ast.value, ast.Constant) and dn.ast.value.value is None)]
            ok = bool(vals) and all(filtered(v) for v in vals)
        rep.ob("R14.7", m.rel, gd.qual, "parents from the commit-graph and from the commit object pass the same `in store` filter before they are queued", ok,
               "parents answered by the commit-graph are queued without checking that they exist: with a stale graph in a shallow clone the depth "
               "(and what a deepening fetch asks for) differs with and without the graph", c.lineno)


def r14_9(prog: Program, rep):
    """SAME CLOSURE, part 2 (the two providers answer the same questions): (a) a tree is reachable from itself -
    GraphTraversalReachability.get_tree_objects puts each starting tree into its result (the bitmap of a commit has the bit
    of its root tree); (b) `exclude` means "everything reachable from these commits", as the bitmap subtraction computes:
    the stop set handed to the walk from heads is the ANCESTRY of the excluded commits, not the commits alone."""
    m = prog.module(OS_PY)
    f = m.funcs.get("GraphTraversalReachability.get_tree_objects")
    if f is None:
        raise AnalysisError("GraphTraversalReachability.get_tree_objects not found")
    loops = [l for l in ast.walk(f.node) if isinstance(l, ast.For) and isinstance(l.target, ast.Name)]
    adds_self = False
    for l in loops:
        v = l.target.id
        for c in ast.walk(l):
            if isinstance(c, ast.Call) and isinstance(c.func, ast.Attribute) and c.func.attr in ("add", "update") and c.args \
                    and any(isinstance(x, ast.Name) and x.id == v for x in ast.walk(c.args[0])):
                adds_self = True
    if not adds_self:
        # or the collector adds its own starting tree
        col = m.funcs.get("_collect_filetree_revs")
        if col is not None:
            ps = [a.arg for a in col.node.args.args]
            adds_self = any(isinstance(s_, ast.Expr) and isinstance(s_.value, ast.Call) and isinstance(s_.value.func, ast.Attribute) and s_.value.func.attr == "add"
                            and s_.value.args and isinstance(s_.value.args[0], ast.Name) and len(ps) > 1 and s_.value.args[0].id == ps[1] for s_ in col.node.body)
    if not loops:
        adds_self = adds_self or any(isinstance(c, ast.Call) and callee_name(c) in ("set", "update") for c in ast.walk(f.node))
    rep.ob("R14.9", m.rel, f.qual, "each starting tree is part of the answer (a tree is reachable from itself)", adds_self,
           "_collect_filetree_revs adds what a tree CONTAINS; without the tree itself get_reachable_objects omits every commit's root tree, which the "
           "bitmap of the commit includes: the same query differs with and without a .bitmap file", f.node.lineno)
    f = m.funcs.get("GraphTraversalReachability.get_reachable_commits")
    if f is None:
        raise AnalysisError("GraphTraversalReachability.get_reachable_commits not found")
    g = cfg_of(prog, f)
    from sa.flow import reaching_defs
    rd = reaching_defs(g)
    walks = [(i, c) for i, n in g.nodes.items() for c in node_calls(n) if callee_name(c) == "_collect_ancestors" and len(c.args) >= 3]
    heads_walks = [(i, c) for i, c in walks if isinstance(c.args[1], ast.Name) and c.args[1].id == "heads"]
    if not heads_walks:
        raise AnalysisError("get_reachable_commits: the walk from `heads` (_collect_ancestors(store, heads, stop, ..)) not found")
    ok = True
    from sa.flow import reach as _reach9
    for i, c in heads_walks:
        stop = c.args[2]
        stop_names = [x.id for x in ast.walk(stop) if isinstance(x, ast.Name)]
        # a walk that only runs when the exclude set is EMPTY (guard clause `if not exclude: return walk(heads, exclude)`) has nothing to close
        def truthy_edge(a_, b_, l_, names=tuple(stop_names)):
            n_ = g.nodes[a_]
            if n_.kind != "test":
                return True
            t_ = n_.ast
            # forbid the edges on which the set is EMPTY: what stays reachable runs with a non-empty exclude set
            if isinstance(t_, ast.Name) and t_.id in names:
                return l_ != "false"
            if isinstance(t_, ast.UnaryOp) and isinstance(t_.op, ast.Not) and isinstance(t_.operand, ast.Name) and t_.operand.id in names:
                return l_ != "true"
            return True
        if stop_names and i not in _reach9(g, [g.entry], include_srcs=True, edge_ok=truthy_edge):
            continue
        derived = any(isinstance(cc, ast.Call) and callee_name(cc) == "_collect_ancestors" for cc in ast.walk(stop))
        # some reaching definition of the stop set is derived from the result of a walk over the excluded commits
        for d in [d_ for nm in stop_names for d_ in rd[i].get(nm, ())]:
            a = g.nodes[d].ast
            val = getattr(a, "value", None)
            if val is None:
                continue
            srcs = {x.id for x in ast.walk(val) if isinstance(x, ast.Name)}
            for s_ in srcs:
                for d2 in rd[d].get(s_, ()):
                    a2 = g.nodes[d2].ast
                    if any(isinstance(cc, ast.Call) and callee_name(cc) == "_collect_ancestors" for cc in ast.walk(a2)):
                        derived = True
            if any(isinstance(cc, ast.Call) and callee_name(cc) == "_collect_ancestors" for cc in ast.walk(val)):
                derived = True
        ok = ok and derived
    rep.ob("R14.9", m.rel, f.qual, "the stop set of the walk from heads is the ancestry of the excluded commits", ok,
           "the excluded commits are only a stop set: an ancestor of an excluded commit that is also reachable around it (other parent of a merge) "
           "stays in the answer, while the bitmap provider subtracts everything reachable from the excluded commits", heads_walks[0][1].lineno)


def r14_10(prog: Program, rep):
    """A bitmap describes positions in ONE pack.  A commit whose closure leaves the pack cannot be described: the generator
    (a) notices every reachable object that has no position (the else side of the `in sha_to_pos` test and the KeyError
    handler record it), and (b) appends a commit bitmap only on the path where nothing was recorded."""
    m = prog.module("dulwich/bitmap.py")
    b = m.funcs.get("build_reachability_bitmap")
    gfn = m.funcs.get("generate_bitmap")
    if b is None or gfn is None:
        raise AnalysisError("bitmap.build_reachability_bitmap / generate_bitmap not found")
    ps = [a.arg for a in b.node.args.args + b.node.args.kwonlyargs]
    tests = [t for t in ast.walk(b.node) if isinstance(t, ast.If) and isinstance(t.test, ast.Compare) and isinstance(t.test.ops[0], (ast.In, ast.NotIn))
             and "sha_to_pos" in norm(t.test.comparators[0])]
    if not tests:
        raise AnalysisError("build_reachability_bitmap: membership test against the pack positions not found")

    def records(stmts):
        return any(isinstance(c, ast.Call) and isinstance(c.func, ast.Attribute) and c.func.attr in ("add", "append", "update") and isinstance(c.func.value, ast.Name)
                   and c.func.value.id in ps for s_ in stmts for c in ast.walk(s_)) or any(isinstance(s_, (ast.Return, ast.Raise)) for s_ in stmts)
    rec = all(records(t.orelse if isinstance(t.test.ops[0], ast.In) else t.body) for t in tests)
    rep.ob("R14.10", m.rel, b.qual, "a reachable object without a position in the pack is reported to the caller (not silently dropped)", rec,
           "bits are set only for the reachable objects that are in the pack: for a pack that is not closed under reachability (repack(write_bitmaps) "
           "packs only the loose objects) the commit's bitmap covers part of what it reaches and BitmapReachability answers from it", tests[0].lineno)
    g = cfg_of(prog, gfn)
    calls = [(i, c) for i, n in g.nodes.items() for c in node_calls(n) if callee_name(c) == "build_reachability_bitmap"]
    results = {n.ast.targets[0].id for i, n in g.nodes.items() if n.kind == "stmt" and isinstance(n.ast, ast.Assign) and isinstance(n.ast.targets[0], ast.Name)
               and isinstance(n.ast.value, ast.Call) and callee_name(n.ast.value) == "build_reachability_bitmap"}
    apps = [i for i, n in g.nodes.items() for c in node_calls(n) if isinstance(c.func, ast.Attribute) and c.func.attr in ("append", "add", "__setitem__")
            and any(isinstance(x, ast.Name) and x.id in results for a_ in c.args for x in ast.walk(a_))]
    if not apps or not calls:
        raise AnalysisError("generate_bitmap: build_reachability_bitmap call / append of the commit bitmap not found")
    outs = {a.id for _, c in calls for a in list(c.args[3:]) + [k.value for k in c.keywords] if isinstance(a, ast.Name)}
    guards = {i: ("true" if norm(n.ast) in outs or norm(n.ast).startswith("len(") else "false") for i, n in g.nodes.items()
              if n.kind == "test" and any(isinstance(x, ast.Name) and x.id in outs for x in ast.walk(n.ast))}
    for i, n in g.nodes.items():
        if i in guards and norm(n.ast).startswith("not "):
            guards[i] = "false"
    # with the 'something is outside' edge as the only way on, the append must be unreachable from the call
    r = reach(g, [b_ for i, _ in calls for b_, l in g.succ[i] if l not in ("exc", "raise")], include_srcs=True,
              edge_ok=lambda a, b_, l: not (a in guards and l != guards[a] and l in ("true", "false")))
    leak = [x for x in apps if x in r]
    rep.ob("R14.10", m.rel, gfn.qual, "a commit bitmap is kept only when nothing the commit reaches lies outside the pack", bool(outs) and bool(guards) and not leak,
           "the bitmap of a commit whose closure leaves the pack is written all the same" if outs else "generate_bitmap does not ask which reachable objects are outside the pack",
           g.nodes[apps[0]].line)


def r14_11(prog: Program, rep):
    """PEELED VALUES belong to the packed VALUE.  (a) get_peeled answers from packed-refs only after it has seen that no
    loose ref overrides the name; (b) add_packed_refs does not write back the peeled map it read unchanged: the entry of a
    ref whose target changes is dropped; (c) a file without the 'peeled' trait yields no peeled knowledge (None, not {});
    (d) the trait is not claimed unconditionally (third argument of write_packed_refs can be None)."""
    m = prog.module("dulwich/refs.py")
    f = m.funcs.get("DiskRefsContainer.get_peeled")
    if f is None:
        raise AnalysisError("DiskRefsContainer.get_peeled not found")
    g = cfg_of(prog, f)
    rets = [i for i, n in g.nodes.items() if n.kind == "stmt" and isinstance(n.ast, ast.Return) and n.ast.value is not None
            and not (isinstance(n.ast.value, ast.Constant) and n.ast.value.value is None)]
    loose = [i for i, n in g.nodes.items() if n.kind == "test" and any(callee_name(c) == "read_loose_ref" for c in node_calls(n))]
    if not rets:
        raise AnalysisError("get_peeled: no value return found")
    bad = must_pass(g, rets, loose)
    rep.ob("R14.11", m.rel, f.qual, "a peeled value is returned only after the loose ref of that name was looked at", bool(loose) and not bad,
           "packed-refs alone decides: after a tag was re-created (loose file overriding the packed line) the peeled commit of the OLD tag is served and advertised",
           g.nodes[(bad or rets)[0]].line)
    # "known not to be a tag" (a packed ref without ^ line) is what the `peeled` trait says only for refs below refs/tags/; for all refs
    # only `fully-peeled` says it
    gp = m.funcs.get("DiskRefsContainer.get_peeled")
    known_not = [r_ for r_ in ast.walk(gp.node) if isinstance(r_, ast.Return) and r_.value is not None and norm(r_.value) in ("self[name]", "self.read_ref(name)")]
    scoped = any(isinstance(t_, ast.If) and ("fully" in norm(t_.test) or "LOCAL_TAG_PREFIX" in norm(t_.test) or "refs/tags" in norm(t_.test)) and any(any(y is r_ for y in ast.walk(b_)) for b_ in t_.body)
                 for t_ in ast.walk(gp.node) for r_ in known_not) if known_not else True
    rep.ob("R14.11", m.rel, gp.qual, "a packed ref without peeled line counts as 'not a tag' only below refs/tags/ or under fully-peeled", scoped,
           "under `# pack-refs with: peeled` (what dulwich writes) every packed ref without a ^ line is reported as known-not-a-tag: a ref outside refs/tags/ that "
           "points at an annotated tag (refs/remotes/origin/tags/v1) peels to the commit while loose and to the tag object once packed; git peels it either way",
           (known_not[0].lineno if known_not else gp.node.lineno))
    f = m.funcs.get("DiskRefsContainer.add_packed_refs")
    ws = [c for c in ast.walk(f.node) if isinstance(c, ast.Call) and callee_name(c) == "write_packed_refs" and len(c.args) >= 3]
    if not ws:
        raise AnalysisError("add_packed_refs: write_packed_refs(f, packed, peeled) not found")
    raw = [c for c in ws if norm(c.args[2]) == "self._peeled_refs"]
    pops = [c for c in ast.walk(f.node) if isinstance(c, ast.Call) and isinstance(c.func, ast.Attribute) and c.func.attr == "pop" and isinstance(c.func.value, ast.Name)
            and "peel" in c.func.value.id]
    rep.ob("R14.11", m.rel, f.qual, "the peeled map written back is a copy from which the entries of changed refs were removed", not raw and bool(pops),
           "the peeled values read from packed-refs are written back unchanged: a tag packed again with a new target keeps the old `^<sha>` line", ws[0].lineno)
    cond = [c for c in ws if isinstance(c.args[2], ast.IfExp) or (isinstance(c.args[2], ast.Name) and any(
        isinstance(s_, ast.Assign) and isinstance(s_.targets[0], ast.Name) and s_.targets[0].id == c.args[2].id and isinstance(s_.value, ast.Constant) and s_.value.value is None
        for s_ in ast.walk(f.node)))]
    rep.ob("R14.11", m.rel, f.qual, "the 'peeled' trait is not claimed when a tag ref is added whose peel status is unknown", bool(cond),
           "under `# pack-refs with: peeled` a refs/tags/ entry without a `^` line is declared NOT to be a tag object: pack_refs of a new annotated tag makes "
           "dulwich and git take the tag object itself for the peeled value", ws[0].lineno)
    f = m.funcs.get("DiskRefsContainer.get_packed_refs")
    sets_none = [s_ for s_ in ast.walk(f.node) if isinstance(s_, ast.Assign) and norm(s_.targets[0]) == "self._peeled_refs" and isinstance(s_.value, ast.Constant) and s_.value.value is None]
    rep.ob("R14.11", m.rel, f.qual, "a packed-refs file without the peeled trait leaves the peeled map unknown (None)", bool(sets_none),
           "an empty map means 'every packed ref is known not to be a tag': get_peeled returns the tag object itself for an annotated tag", f.node.lineno)


def r14_12(prog: Program, rep):
    """A commit graph must be CLOSED under the parent relation: the format cannot name a parent outside the graph (the slot
    holds GRAPH_PARENT_MISSING, which readers take for "no parent").  In generate_commit_graph every commit whose parents are
    not all in the commit map is removed from the map before the entries are built: a removal (pop/del) from the map that is
    control dependent on a `parent not in map` test, and every path to the entry-building append passes the filter."""
    m = prog.module("dulwich/commit_graph.py")
    f = m.funcs.get("generate_commit_graph")
    if f is None:
        raise AnalysisError("commit_graph.generate_commit_graph not found")
    g = cfg_of(prog, f)
    maps = {n.ast.target.id if isinstance(n.ast, ast.AnnAssign) else n.ast.targets[0].id for n in g.nodes.values()
            if n.kind == "stmt" and isinstance(n.ast, (ast.Assign, ast.AnnAssign)) and isinstance(getattr(n.ast, "value", None), ast.Dict)
            and isinstance(n.ast.target if isinstance(n.ast, ast.AnnAssign) else n.ast.targets[0], ast.Name)
            and "commit" in (n.ast.target.id if isinstance(n.ast, ast.AnnAssign) else n.ast.targets[0].id)}
    if not maps:
        raise AnalysisError("generate_commit_graph: the commit map (a dict named *commit*) not found")
    tests = [x for x in ast.walk(f.node) if isinstance(x, ast.Compare) and len(x.ops) == 1 and isinstance(x.ops[0], ast.NotIn)
             and isinstance(x.comparators[0], ast.Name) and x.comparators[0].id in maps and "parent" in norm(x.left)]
    removals = [i for i, n in g.nodes.items() for c in node_calls(n) if isinstance(c.func, ast.Attribute) and c.func.attr == "pop"
                and isinstance(c.func.value, ast.Name) and c.func.value.id in maps]
    removals += [i for i, n in g.nodes.items() if n.kind == "stmt" and isinstance(n.ast, ast.Delete) and any(
        isinstance(t, ast.Subscript) and isinstance(t.value, ast.Name) and t.value.id in maps for t in n.ast.targets)]
    emits = [i for i, n in g.nodes.items() for c in node_calls(n) if isinstance(c.func, ast.Attribute) and c.func.attr == "append" and "entries" in norm(c.func.value)]
    if not emits:
        raise AnalysisError("generate_commit_graph: graph.entries.append not found")
    ok = bool(tests) and bool(removals) and all(r_ < min(emits) or g.nodes[r_].line < g.nodes[min(emits, key=lambda e: g.nodes[e].line)].line for r_ in removals)
    rep.ob("R14.12", m.rel, f.qual, "commits whose parents are not all in the graph are dropped before the entries are built (closed under parents)", ok,
           "a parent outside the graph is written as GRAPH_PARENT_MISSING = 'no parent': a graph for the ref targets only (write_commit_graph(reachable=False)) "
           "or across a shallow boundary shows commits with fewer parents than they have, and every ancestry walk that consults it stops there",
           (tests[0].lineno if tests else f.node.lineno))
    # the closure is optional (keyword `closed`, default True): every caller in the package asks for it
    defaults = {a.arg: d for a, d in zip(f.node.args.kwonlyargs, f.node.args.kw_defaults)}
    pos = f.node.args.args[-len(f.node.args.defaults):] if f.node.args.defaults else []
    defaults.update({a.arg: d for a, d in zip(pos, f.node.args.defaults)})
    flag = next((k for k in defaults if k in ("closed", "close", "prune_open", "closed_under_parents")), None)
    if flag is not None:
        dflt = defaults[flag]
        rep.ob("R14.12", m.rel, f.qual, f"the closure is on by default (`{flag}`)", isinstance(dflt, ast.Constant) and dflt.value is True,
               "generate_commit_graph leaves open commits in the graph unless asked otherwise", f.node.lineno)
        for m2 in prog.modules.values():
            if not m2.rel.startswith("dulwich/") or m2.rel.startswith("dulwich/tests/"):
                continue
            for q, f2 in m2.funcs.items():
                if "#" in q:
                    continue
                for c in ast.walk(f2.node):
                    if isinstance(c, ast.Call) and callee_name(c) == "generate_commit_graph" and m2.enclosing_func(c) is f2:
                        v = arg_of(c, None, flag)
                        okc = v is None or (isinstance(v, ast.Constant) and v.value is True)
                        rep.ob("R14.12", m2.rel, f2.qual, "the caller asks generate_commit_graph for a graph closed under parents", okc,
                               f"`{flag}={norm(v) if v is not None else ''}`: for that request the written graph names commits whose parents are outside it; "
                               "they read back with fewer parents than they have and ancestry walks that consult the graph stop there", c.lineno)


def r14_14(prog: Program, rep):
    """(a) MIDX reader: the top bit of a 32-bit offset is the large-offset escape only when the LOFF chunk exists (git writes that
    chunk only when some offset needs more than 32 bits) - the escape branch is conditioned on the chunk's presence and does not
    raise for its absence; (b) packed-refs reader: the first line is taken with a default (an emptied file has no lines)."""
    m = prog.module("dulwich/midx.py")
    f = m.funcs.get("MultiPackIndex._get_pack_info")
    if f is None:
        raise AnalysisError("midx.MultiPackIndex._get_pack_info not found")
    esc = [t for t in ast.walk(f.node) if isinstance(t, ast.If) and ("2147483648" in norm(t.test) or "0x80000000" in norm(t.test).lower() or "<< 31" in norm(t.test))]
    if not esc:
        raise AnalysisError("_get_pack_info: the test of the large-offset bit not found")
    ok = all("LOFF" in norm(t.test) for t in esc) and not any(isinstance(r, ast.Raise) and "LOFF" in norm(r) for t in esc for r in ast.walk(t))
    rep.ob("R14.14", m.rel, f.qual, "the large-offset escape applies only when the LOFF chunk exists", ok,
           "an offset between 2^31 and 2^32 in a multi-pack-index without LOFF chunk (what git writes for a 2-4 GiB pack) raises ValueError, which the object "
           "store does not treat as a miss: the objects are unreadable while the file is present", esc[0].lineno)
    r = prog.module("dulwich/refs.py").funcs.get("DiskRefsContainer.get_packed_refs")
    nx = [c for c in ast.walk(r.node) if isinstance(c, ast.Call) and callee_name(c) == "next"]
    rep.ob("R14.14", "dulwich/refs.py", r.qual, "the header line is read with a default: an empty packed-refs file has no lines", all(len(c.args) >= 2 for c in nx),
           "next(iter(f)) raises StopIteration for a zero-byte packed-refs file (left when the last entry of a header-less file is removed): every ref query and "
           "update fails until the file is deleted by hand", (nx[0].lineno if nx else r.node.lineno))


def run(prog: Program, rep, tier="quick"):
    rep.rule("R14.12", "the generated commit graph is closed under the parent relation (no existing parent is encoded as GRAPH_PARENT_MISSING)")
    rep.rule("R14.14", "MIDX large-offset escape only with a LOFF chunk; an empty packed-refs file reads as no packed refs")
    rep.rule("R14.9", "SAME CLOSURE: the graph provider includes the starting trees and excludes the whole ancestry of the excluded commits, as bitmaps do")
    rep.rule("R14.10", "a commit bitmap is written only when the pack holds everything the commit reaches (objects without a position are reported, not dropped)")
    rep.rule("R14.11", "peeled values belong to the packed value: loose override seen first, stale entries dropped, no trait = unknown, trait not claimed for unknown tags")
    rep.rule("R14.7", "bitmaps are combined only within one pack; commit-graph parents get the same existence filter as object parents")
    rep.rule("R14.6", "partial acceleration never answers: incomplete bitmap lookups end in the fallback; both providers mean the same closure")
    rep.rule("R14.5", "XOR-compressed bitmap entries are resolved against the RESOLVED base (recursive get_bitmap), never against stored bits")
    rep.rule("R14.1", "commit-graph: a miss falls back to the store at every use site; the graph replaces only the default "
                      "parents function; grafts/shallows consulted first")
    rep.rule("R14.2", "a MIDX hit dereferences the named pack before answering; Pack.bitmap is checksum-bound and every "
                      "access tolerates a missing bitmap file")
    rep.rule("R14.3", "commit-graph writer references every encoding constant the reader interprets (extra edges)")
    rep.rule("R14.4", "packed-refs cache compared with the file identity before use; read only through its accessor")
    rep.not_decided += ["equality of answers over histories", "bitmap closure under reachability", "generation numbers",
                        "whether git accepts the files dulwich writes"]
    r14_1(prog, rep)
    r14_2(prog, rep)
    r14_3(prog, rep)
    r14_4(prog, rep)
    r14_5(prog, rep)
    r14_6(prog, rep)
    r14_7(prog, rep)
    r14_9(prog, rep)
    r14_10(prog, rep)
    r14_11(prog, rep)
    r14_12(prog, rep)
    r14_14(prog, rep)
    from rules import c16 as _c16
    from sa.common import share as _share
    _share(rep, lambda: _c16.r16_12(prog, rep), "R14.13", lambda o: True,
           "packing refs keeps symbolic refs symbolic (shared with R16.12): a packed line would freeze the ref at its current target")
    from sa.common import share
    from rules import c10
    share(rep, lambda: c10.r10_8(prog, rep), "R14.8", lambda o: True,
          "packed-refs never shadows a loose ref (shared with R10.8): wherever both are consulted the loose value is read first and wins")
    rep.floor("R14.1", 6)
    rep.floor("R14.2", 8)
    rep.floor("R14.3", 4)
    rep.floor("R14.4", 5)
