"""C14 — optional acceleration data never changes an answer: fallback and validation STRUCTURE.

R14.1 commit-graph: at every use site a miss (None) falls back to the object store, and the graph is consulted
      only in place of the *default* parents function (a caller-supplied get_parents is never bypassed).
R14.2 a hit is validated before it is trusted: every MIDX hit dereferences the named pack before answering;
      Pack.bitmap passes the pack checksum, a mismatch or a missing file yields None.
R14.3 the commit-graph writer covers what the reader interprets (extra edge list for > 2 parents).
R14.4 packed-refs cache is compared with the on-disk identity before use and only read through its accessor.
"""
from __future__ import annotations

import ast

from sa.cfg import EXC_LABELS, node_calls, node_exprs, _walk_shallow
from sa.common import cfg_of
from sa.flow import must_pass_ps, lines, must_pass, path, reach, reaching_defs
from sa.load import AnalysisError, Program, arg_of, callee_name, dotted, norm, params

OS_PY = "dulwich/object_store.py"


def _cg_sites(prog: Program):
    out = []
    for m in prog.modules.values():
        if m.rel.endswith("commit_graph.py"):
            continue
        for c in ast.walk(m.tree):
            if isinstance(c, ast.Call) and isinstance(c.func, ast.Attribute) and c.func.attr == "get_parents" \
                    and "commit_graph" in (dotted(c.func.value) or ""):
                out.append((m, m.enclosing_func(c), c))
    return out


def r14_1(prog: Program, rep):
    sites = _cg_sites(prog)
    rep.count("commit-graph use sites", len(sites))
    for m, f, call in sites:
        g = cfg_of(prog, f)
        nodes = g.nodes_containing(call)
        stmt = m.enclosing_stmt(call)
        if not (isinstance(stmt, ast.Assign) and isinstance(stmt.targets[0], ast.Name)):
            rep.ob("R14.1", m.rel, f.qual, f"result of {norm(call, 50)} is bound to a name", False,
                   "the graph's answer is used without being bound and tested against None", call.lineno)
            continue
        var = stmt.targets[0].id
        rd = reaching_defs(g)
        # a None-test on the variable that this definition reaches
        tests = {}
        for i, n in g.nodes.items():
            if n.kind == "test" and isinstance(n.ast, ast.Compare) and isinstance(n.ast.left, ast.Name) \
                    and n.ast.left.id == var and len(n.ast.ops) == 1 and isinstance(n.ast.comparators[0], ast.Constant) \
                    and n.ast.comparators[0].value is None and any(x in rd[i].get(var, ()) for x in nodes):
                tests[i] = "true" if isinstance(n.ast.ops[0], ast.Is) else "false"   # label of the MISS side
        # on the miss side a store lookup must follow (store[x] / self.store[x])
        ok = bool(tests)
        detail = "the result of commit_graph.get_parents() is never tested against None"
        for t, miss_label in tests.items():
            miss = [b for b, l in g.succ[t] if l == miss_label]
            lookups = [i for i, n in g.nodes.items() for e in node_exprs(n) for x in _walk_shallow(e)
                       if isinstance(x, ast.Subscript) and isinstance(x.ctx, ast.Load) and "store" in (dotted(x.value) or "")]
            # every path from the miss side to a use of parents passes a store lookup or leaves through raise
            r = reach(g, [x for x in miss if x not in lookups], avoid=set(lookups), include_srcs=True)
            uses = [i for i in r if i not in miss and any(
                isinstance(x, ast.Name) and x.id == var and isinstance(x.ctx, ast.Load)
                for e in node_exprs(g.nodes[i]) for x in _walk_shallow(e)) and g.nodes[i].kind != "test"]
            if not lookups or uses:
                ok = False
                detail = "on a commit-graph miss the parents are used without reading the commit from the store"
        rep.ob("R14.1", m.rel, f.qual, f"miss of {norm(call, 50)} falls back to the store", ok, detail, call.lineno)
        # the graph must not bypass a caller-supplied parents function
        scope_funcs = [f] + ([f.parent] if f.parent else [])
        callable_params = []
        for sf in scope_funcs:
            for p in params(sf.node):
                if p == "get_parents":
                    callable_params.append((sf, p))
        for sf, p in callable_params:
            used_as_fallback = any(isinstance(c, ast.Call) and isinstance(c.func, ast.Name) and c.func.id == p
                                   for c in ast.walk(f.node))
            if not used_as_fallback:
                continue
            guarded = False
            for x in ast.walk(sf.node):
                if isinstance(x, ast.Compare) and isinstance(x.left, ast.Name) and x.left.id == p \
                        and isinstance(x.ops[0], (ast.Is, ast.IsNot)):
                    # the identity test must control the commit_graph binding or the use
                    anc = x
                    while anc in m.parents:
                        anc = m.parents[anc]
                        if isinstance(anc, (ast.Assign, ast.If, ast.IfExp)) and "commit_graph" in norm(anc, 2000):
                            guarded = True
                            break
            rep.ob("R14.1", m.rel, f.qual, f"graph consulted only in place of the default `{p}`", guarded,
                   f"the fallback calls the caller-supplied `{p}` (grafts, shallow boundaries) but the commit graph "
                   f"answers first, whatever function was supplied: the answer changes with the presence of the file",
                   call.lineno)
    # the provider used by Repo: grafts and shallows are consulted before the graph
    pp = prog.func("dulwich/repo.py", "ParentsProvider.get_parents")
    g = cfg_of(prog, pp)
    cgn = [i for i, n in g.nodes.items() for c in node_calls(n) if "commit_graph" in (dotted(c.func) or "")]
    graft = [i for i, n in g.nodes.items() if "self.grafts" in " ".join(norm(e) for e in node_exprs(n))]
    shal = [i for i, n in g.nodes.items() if "self.shallows" in " ".join(norm(e) for e in node_exprs(n))]
    rep.ob("R14.1", "dulwich/repo.py", pp.qual, "grafts and shallows are consulted before the commit graph",
           bool(cgn) and bool(graft) and bool(shal) and not must_pass(g, cgn, graft) and not must_pass(g, cgn, shal),
           "", pp.node.lineno)


def r14_2(prog: Program, rep):
    m = prog.module(OS_PY)
    n_midx = 0
    for q, f in m.funcs.items():
        if f.cls is None or "#" in q or f.name in ("get_midx", "write_midx", "close"):
            continue
        if not any(isinstance(c, ast.Call) and callee_name(c) == "get_midx" for c in ast.walk(f.node)):
            continue
        g = cfg_of(prog, f)
        # hit events: `x in midx` tests (true side) and `midx.object_offset(...)`
        hits = []
        for i, n in g.nodes.items():
            if n.kind == "test" and isinstance(n.ast, ast.Compare) and isinstance(n.ast.ops[0], ast.In) \
                    and "midx" in norm(n.ast.comparators[0]):
                hits += [b for b, l in g.succ[i] if l == "true"]
            for c in node_calls(n):
                if isinstance(c.func, ast.Attribute) and c.func.attr in ("object_offset", "__contains__") and "midx" in norm(c.func.value):
                    hits += [b for b, l in g.succ[i] if l not in EXC_LABELS]
        if not hits:
            continue
        n_midx += 1
        deref = [i for i, n in g.nodes.items() for c in node_calls(n) if callee_name(c) == "_get_pack_by_name"]
        fallback = [i for i, n in g.nodes.items() for c in node_calls(n)
                    if isinstance(c.func, ast.Attribute) and isinstance(c.func.value, ast.Call) and callee_name(c.func.value) == "super"]
        rets = [i for i, n in g.nodes.items() if n.kind == "stmt" and isinstance(n.ast, ast.Return) and i not in fallback]
        bad = must_pass_ps(g, rets, set(deref) | set(fallback), start=hits)
        rep.ob("R14.2", OS_PY, f.qual, "a MIDX hit dereferences the named pack (or falls back) before answering", not bad,
               "an answer is returned from a multi-pack-index hit without checking that the pack it names still exists: "
               "a stale MIDX makes `oid in store` true while store[oid] raises", g.nodes[bad[0]].line if bad else f.node.lineno,
               lines(g, path(g, hits, bad[0], avoid=set(deref) | set(fallback))) if bad else [])
        # every use of the pack obtained from the MIDX hit lies inside the protected region
        for tnode in [t for t in ast.walk(f.node) if isinstance(t, ast.Try)]:
            if not any(isinstance(c, ast.Call) and callee_name(c) == "_get_pack_by_name" for s_ in tnode.body for c in ast.walk(s_)):
                continue
            packvars = {s_.targets[0].id for s_ in ast.walk(tnode) if isinstance(s_, ast.Assign) and isinstance(s_.targets[0], ast.Name)
                        and isinstance(s_.value, ast.Call) and callee_name(s_.value) == "_get_pack_by_name"}
            outside = [x for part in (tnode.orelse, tnode.finalbody) for s_ in part for x in ast.walk(s_)
                       if isinstance(x, ast.Name) and x.id in packvars]
            rep.ob("R14.2", OS_PY, f.qual, "the pack named by the MIDX is dereferenced inside the protected region", not outside,
                   "the pack is looked up inside try but used outside it: PackFileDisappeared from the stale pack escapes instead of "
                   "falling back", tnode.lineno)
        # the dereference is protected: KeyError / PackFileDisappeared lead to the fallback
        for d in deref:
            handlers = [h for t in ast.walk(f.node) if isinstance(t, ast.Try)
                        and any(x is c for s in t.body for c in ast.walk(s) for x in [c] if isinstance(c, ast.Call) and callee_name(c) == "_get_pack_by_name")
                        for h in t.handlers]
            names = " ".join(norm(h.type) for h in handlers if h.type is not None)
            rep.ob("R14.2", OS_PY, f.qual, "vanished pack on a MIDX hit is handled (KeyError, PackFileDisappeared)",
                   "KeyError" in names and "PackFileDisappeared" in names, f"handlers: {names}", g.nodes[d].line)
    if n_midx < 2:
        raise AnalysisError(f"expected >= 2 MIDX-using lookups in DiskObjectStore, found {n_midx}")
    # ---- bitmap
    pm = prog.module("dulwich/pack.py")
    bp = pm.funcs.get("Pack.bitmap")
    if bp is None:
        raise AnalysisError("Pack.bitmap property not found")
    rb = [c for c in ast.walk(bp.node) if isinstance(c, ast.Call) and callee_name(c) == "read_bitmap"]
    if not rb:
        raise AnalysisError("Pack.bitmap: read_bitmap call not found")
    kw = {k.arg: k.value for k in rb[0].keywords}
    rep.ob("R14.2", pm.rel, bp.qual, "pack checksum handed to read_bitmap", "pack_checksum" in kw and "checksum" in norm(kw["pack_checksum"]),
           "the bitmap is loaded without telling the reader which pack it must belong to", rb[0].lineno)
    handled = set()
    for t in ast.walk(bp.node):
        if isinstance(t, ast.Try) and any(c is rb[0] for s in t.body for c in ast.walk(s)):
            for h in t.handlers:
                returns_none = any(isinstance(r, ast.Return) and (r.value is None or (isinstance(r.value, ast.Constant) and r.value.value is None))
                                   for r in ast.walk(h))
                if returns_none and h.type is not None:
                    for nm in ast.walk(h.type):
                        if isinstance(nm, ast.Name):
                            handled.add(nm.id)
    rep.ob("R14.2", pm.rel, bp.qual, "checksum mismatch yields None (stale bitmap ignored)", "ChecksumMismatch" in handled,
           "", bp.node.lineno)
    prop_handles_missing = bool(handled & {"FileNotFoundError", "OSError"})
    bm = prog.module("dulwich/bitmap.py")
    rbf = bm.funcs.get("read_bitmap_file")
    cmp_ok = any(isinstance(x, ast.Raise) and "ChecksumMismatch" in norm(x) for x in ast.walk(rbf.node)) and \
        any(isinstance(x, ast.Compare) and "pack_checksum" in norm(x) for x in ast.walk(rbf.node))
    rep.ob("R14.2", bm.rel, "read_bitmap_file", "reader compares the stored checksum and raises ChecksumMismatch", cmp_ok, "", rbf.node.lineno)
    # every access of Pack.bitmap is protected against a missing file (or the property is)
    n_acc = 0
    for mod in prog.modules.values():
        for x in ast.walk(mod.tree):
            if isinstance(x, ast.Attribute) and x.attr == "bitmap" and isinstance(x.ctx, ast.Load):
                base = dotted(x.value) or ""
                f = mod.enclosing_func(x)
                if not ("pack" in base.lower() or (base == "self" and f is not None and f.cls == "Pack")):
                    continue
                if f is bp:
                    continue
                n_acc += 1
                protected = prop_handles_missing
                if not protected:
                    cur = x
                    while cur in mod.parents and not protected:
                        par = mod.parents[cur]
                        if isinstance(par, ast.Try) and cur in par.body:
                            for h in par.handlers:
                                if h.type is None or any(isinstance(nm, ast.Name) and nm.id in ("FileNotFoundError", "OSError", "Exception")
                                                         for nm in ast.walk(h.type)):
                                    protected = True
                        cur = par
                rep.ob("R14.2", mod.rel, f.qual if f else "<module>", f"access {norm(x)} tolerates a pack without bitmap", protected,
                       "Pack.bitmap raises FileNotFoundError for a pack without a .bitmap file and this access is not protected: "
                       "with bitmaps on only some packs the bitmap-accelerated query fails instead of falling back", x.lineno)
    if n_acc < 3:
        raise AnalysisError(f"expected >= 3 accesses of Pack.bitmap, found {n_acc}")


def enumerate_last(prog, rep, rule, m, f):
    """`for n, x in enumerate(S): if n == len(X) - 1:` - the 'last element' test must measure the sequence being iterated."""
    k = 0
    for lp in [x for x in ast.walk(f.node) if isinstance(x, ast.For) and isinstance(x.iter, ast.Call) and callee_name(x.iter) == "enumerate"
               and x.iter.args and isinstance(x.target, ast.Tuple) and isinstance(x.target.elts[0], ast.Name)]:
        idx = lp.target.elts[0].id
        seq = norm(lp.iter.args[0])
        for c in ast.walk(lp):
            if isinstance(c, ast.Compare) and isinstance(c.left, ast.Name) and c.left.id == idx and isinstance(c.ops[0], ast.Eq) \
                    and "len(" in norm(c.comparators[0]):
                k += 1
                measured = [norm(x.args[0]) for x in ast.walk(c.comparators[0]) if isinstance(x, ast.Call) and callee_name(x) == "len" and x.args]
                rep.ob(rule, m.rel, f.qual, f"`{norm(c)}` measures the sequence the loop iterates (`{seq}`)", measured == [seq],
                       f"the loop runs over `{seq}` but its 'last element' test uses len({measured}): the last-edge flag is set on the "
                       f"wrong element or never, so the reader runs on into the next commit's edges", c.lineno)
    return k


def r14_3(prog: Program, rep):
    m = prog.module("dulwich/commit_graph.py")
    w = prog.func(m.rel, "CommitGraph.write_to_file")
    names_w = {x.id for x in ast.walk(w.node) if isinstance(x, ast.Name)}
    reader_funcs = [f for q, f in m.funcs.items() if f.cls == "CommitGraph" and f is not w]
    names_r = set()
    for f in reader_funcs:
        names_r |= {x.id for x in ast.walk(f.node) if isinstance(x, ast.Name)}
    for c in ("GRAPH_EXTRA_EDGES_NEEDED", "GRAPH_LAST_EDGE", "CHUNK_EXTRA_EDGE_LIST"):
        if c not in names_r:
            raise AnalysisError(f"commit-graph reader no longer references {c}")
        rep.ob("R14.3", m.rel, w.qual, f"writer uses {c} (the reader interprets it)", c in names_w,
               "the reader decodes an encoding the writer never produces: information that needs it (parents beyond the "
               "second) is dropped when the graph is written", w.node.lineno)
    # the index stored with GRAPH_EXTRA_EDGES_NEEDED is in the unit the reader multiplies by (one edge = one 4-byte slot)
    rd = m.funcs.get("CommitGraph._parse_extra_edges")
    if rd is None:
        raise AnalysisError("CommitGraph._parse_extra_edges not found")
    from sa.consts import Folder
    F = Folder(prog, m)
    scale = [F.try_fold(x.right) for x in ast.walk(rd.node) if isinstance(x, ast.BinOp) and isinstance(x.op, ast.Mult)
             and isinstance(x.left, ast.Name) and x.left.id == "index"]
    stored = [x for x in ast.walk(w.node) if isinstance(x, ast.BinOp) and isinstance(x.op, ast.BitOr) and "GRAPH_EXTRA_EDGES_NEEDED" in norm(x.left)]
    unit_ok = False
    detail = "no `GRAPH_EXTRA_EDGES_NEEDED | <index>` expression in the writer"
    for x in stored:
        r = x.right
        if isinstance(r, ast.BinOp) and isinstance(r.op, ast.FloorDiv) and "len(" in norm(r.left):
            unit_ok = scale == [F.try_fold(r.right)]
            detail = f"writer stores len(...) // {F.try_fold(r.right)}, reader multiplies by {scale}"
        elif "len(" in norm(r) :
            detail = f"writer stores `{norm(r)}` (a byte length), reader multiplies the stored index by {scale}"
        else:
            unit_ok = True       # an entry counter
    rep.ob("R14.3", m.rel, w.qual, "extra-edge index is stored in the unit the reader scales (4-byte slots)", unit_ok, detail, w.node.lineno)
    enumerate_last(prog, rep, "R14.3", m, w)
    # a branch for more than two parents exists and does not merely repeat the two-parent encoding
    branches = [x for x in ast.walk(w.node) if isinstance(x, ast.If) and "len(entry.parents)" in norm(x.test)]
    rep.ob("R14.3", m.rel, w.qual, "parent count is dispatched (0, 1, 2, more)", len(branches) >= 3, "", w.node.lineno)
    # every chunk id written in the TOC has its data written
    toc = [norm(c) for c in ast.walk(w.node) if isinstance(c, ast.Call) and dotted(c.func) == "f.write" and "CHUNK_" in norm(c)]
    rep.ob("R14.3", m.rel, w.qual, "table of contents lists fanout, lookup and commit data", sum(
        1 for k in ("CHUNK_OID_FANOUT", "CHUNK_OID_LOOKUP", "CHUNK_COMMIT_DATA") if any(k in t for t in toc)) == 3, "", w.node.lineno)


def r14_4(prog: Program, rep):
    m = prog.module("dulwich/refs.py")
    gp = prog.func(m.rel, "DiskRefsContainer.get_packed_refs")
    g = cfg_of(prog, gp)
    key_tests = [i for i, n in g.nodes.items() if n.kind == "test" and "_current_packed_refs_key" in norm(n.ast)]
    rets = [i for i, n in g.nodes.items() if n.kind == "stmt" and isinstance(n.ast, ast.Return) and "self._packed_refs" in norm(n.ast)]
    none_tests = [i for i, n in g.nodes.items() if n.kind == "test" and norm(n.ast).replace(" ", "") == "self._packed_refsisNone"]
    # a populated cache is returned only after its key was compared
    r = reach(g, [g.entry], avoid=set(key_tests), include_srcs=True,
              edge_ok=lambda a, b, l: not (a in none_tests and l == "true"))
    bad = [x for x in rets if x in r]
    # paths where the cache is None at entry are exempt: nothing stale can be returned
    first_tests = [i for i, n in g.nodes.items() if n.kind == "test" and norm(n.ast).replace(" ", "") == "self._packed_refsisnotNone"]
    r2 = reach(g, [g.entry], avoid=set(key_tests), include_srcs=True,
               edge_ok=lambda a, b, l: not ((a in first_tests and l == "false") or (a in none_tests and l == "true")))
    bad = [x for x in rets if x in r2]
    rep.ob("R14.4", m.rel, gp.qual, "cached packed-refs returned only after comparing its identity with the file", bool(key_tests) and not bad,
           "a cached packed-refs map is returned without checking that the file is still the one it was read from",
           gp.node.lineno)
    inval = [c for c in ast.walk(gp.node) if isinstance(c, ast.Call) and callee_name(c) == "_invalidate_packed_refs_cache"]
    rep.ob("R14.4", m.rel, gp.qual, "a changed identity drops the cache", bool(inval), "", gp.node.lineno)
    records = any(isinstance(x, ast.Assign) and "self._packed_refs_key" in norm(x.targets[0]) and "fstat" in norm(x.value)
                  for x in ast.walk(gp.node))
    rep.ob("R14.4", m.rel, gp.qual, "identity recorded from the open file (fstat), not the path", records, "", gp.node.lineno)
    # the key validates the cache: it is recorded only once the file was parsed to the end (a parse error after the key was
    # set would leave a half-filled map that later reads take for the complete file)
    keyn = [i for i, n in g.nodes.items() if n.kind == "stmt" and isinstance(n.ast, ast.Assign) and "self._packed_refs_key" in norm(n.ast.targets[0])
            and not (isinstance(n.ast.value, ast.Constant) and n.ast.value.value is None)]
    parse = [i for i, n in g.nodes.items() for c in node_calls(n) if callee_name(c) in ("read_packed_refs", "read_packed_refs_with_peeled")] + \
        [i for i, n in g.nodes.items() if n.kind in ("for_iter", "for_init") and any(callee_name(c) in ("read_packed_refs", "read_packed_refs_with_peeled")
                                                                                    for c in ast.walk(n.ast.iter) if isinstance(c, ast.Call))]
    after_key = reach(g, [b for k in keyn for b, l in g.succ[k] if l not in EXC_LABELS], include_srcs=True) if keyn else set()
    late = [p_ for p_ in parse if p_ in after_key]
    rep.ob("R14.4", m.rel, gp.qual, "the identity is recorded only after the file was parsed to the end", bool(keyn) and bool(parse) and not late,
           "parsing continues after the cache key was recorded: when a later line fails to parse, the partly filled map stays behind "
           "with a valid key and every later read silently returns only the refs before the bad line", g.nodes[keyn[0]].line if keyn else gp.node.lineno)
    # who reads the cache attribute directly
    allowed = {"get_packed_refs", "_invalidate_packed_refs_cache", "__init__", "get_peeled"}
    for x in ast.walk(m.tree):
        if isinstance(x, ast.Attribute) and x.attr == "_packed_refs" and isinstance(x.ctx, ast.Load) and dotted(x.value) == "self":
            f = m.enclosing_func(x)
            if f is None or f.cls != "DiskRefsContainer":
                continue
            ok = f.name in allowed
            if f.name == "get_peeled":
                # must refresh through the accessor first
                ok = any(isinstance(c, ast.Call) and callee_name(c) == "get_packed_refs" for c in ast.walk(f.node))
            rep.ob("R14.4", m.rel, f.qual, "packed-refs cache read only through its accessor", ok,
                   "self._packed_refs is read directly, bypassing the identity check of get_packed_refs()", x.lineno)
    pk = m.funcs.get("_packed_refs_key")
    if pk is None:
        raise AnalysisError("_packed_refs_key not found")
    src = norm(pk.node, 10000)
    rep.ob("R14.4", m.rel, "_packed_refs_key", "identity covers inode, size and mtime",
           "st_ino" in src and "st_size" in src and "st_mtime" in src, src[-150:], pk.node.lineno)


def r14_5(prog: Program, rep):
    """Bitmap entries may be stored XOR-compressed against an earlier entry (xor_offset > 0), which may itself be
    compressed.  What is handed out must be the RESOLVED bitmap: the operand XOR-ed with an entry's stored bits has to be
    the result of resolving the base (the recursive get_bitmap call), never another entry's stored `.bitmap` field."""
    m = prog.module("dulwich/bitmap.py")
    f = m.funcs.get("PackBitmap.get_bitmap")
    if f is None:
        raise AnalysisError("PackBitmap.get_bitmap not found")
    g = cfg_of(prog, f)
    from sa.flow import reaching_defs
    rd = reaching_defs(g)
    n = 0
    for i, nd in g.nodes.items():
        for e in node_exprs(nd):
            for x in [x for x in ast.walk(e) if isinstance(x, ast.BinOp) and isinstance(x.op, ast.BitXor)]:
                n += 1
                ops = [x.left, x.right]
                stored = [o for o in ops if isinstance(o, ast.Attribute) and o.attr == "bitmap"]
                other = [o for o in ops if o not in stored]
                ok = len(stored) == 1 and len(other) == 1
                why = "both operands are stored `.bitmap` fields: the base is used in its compressed form" if len(stored) == 2 else ""
                if ok:
                    o = other[0]
                    resolved = isinstance(o, ast.Call) and callee_name(o) == "get_bitmap"
                    if isinstance(o, ast.Name):
                        defs = [g.nodes[d] for d in rd[i].get(o.id, ())]
                        resolved = bool(defs) and all(dn.kind == "stmt" and isinstance(dn.ast, ast.Assign) and isinstance(dn.ast.value, ast.Call)
                                                      and callee_name(dn.ast.value) == "get_bitmap" for dn in defs)
                    ok = resolved
                    why = f"`{norm(o)}` is not the result of resolving the base with get_bitmap()"
                rep.ob("R14.5", m.rel, f.qual, f"`{norm(x, 60)}`: the base operand is the resolved bitmap of the base entry", ok,
                       why + ": with an XOR chain of depth two or more the answer is a wrong object set (reachability answers and "
                       "the objects chosen for a fetch change with the presence of the bitmap)", x.lineno)
    if n < 1:
        raise AnalysisError("PackBitmap.get_bitmap: no XOR decompression found")
    # the writer only ever XORs against entries within the byte-sized offset the reader can follow
    src = norm(f.node, 100000)
    rep.ob("R14.5", m.rel, f.qual, "the base is located `xor_offset` entries back in the same ordered list", "current_idx - entry.xor_offset" in src
           and "entry.xor_offset <= current_idx" in src.replace("current_idx >= entry.xor_offset", "entry.xor_offset <= current_idx"), "", f.node.lineno)


def r14_6(prog: Program, rep):
    """Partial acceleration never answers.  In the bitmap reachability provider, when a lookup of bitmaps comes back
    incomplete (fewer bitmaps than commits asked for, or a bitmap that cannot be resolved) no non-None result is
    reachable any more: the caller falls back to graph traversal.  And the two providers mean the same thing by
    'reachable objects' (the fallback walks the ancestry like a bitmap does)."""
    m = prog.module(OS_PY)
    f = m.funcs.get("BitmapReachability._combine_commit_bitmaps")
    if f is None:
        raise AnalysisError("BitmapReachability._combine_commit_bitmaps not found")
    g = cfg_of(prog, f)
    good_rets = [i for i, n in g.nodes.items() if n.kind == "stmt" and isinstance(n.ast, ast.Return) and n.ast.value is not None
                 and not (isinstance(n.ast.value, ast.Constant) and n.ast.value.value is None)]
    if not good_rets:
        raise AnalysisError("_combine_commit_bitmaps: no result return found")
    n = 0
    for a in [x for x in ast.walk(f.node) if isinstance(x, ast.Assign) and isinstance(x.value, ast.Call) and callee_name(x.value) == "find_commit_bitmaps"
              and isinstance(x.targets[0], ast.Name) and x.value.args and isinstance(x.value.args[0], ast.Name)]:
        v, s_ = a.targets[0].id, a.value.args[0].id
        tests = []
        for i, nd in g.nodes.items():
            if nd.kind != "test" or not isinstance(nd.ast, ast.Compare) or len(nd.ast.ops) != 1:
                continue
            l, r = norm(nd.ast.left), norm(nd.ast.comparators[0])
            if {l, r} != {f"len({v})", f"len({s_})"}:
                continue
            op = nd.ast.ops[0]
            if isinstance(op, ast.Eq):
                tests.append((i, "false"))
            elif isinstance(op, ast.NotEq):
                tests.append((i, "true"))
            elif isinstance(op, (ast.Lt, ast.LtE)):
                # canonical form: smaller on the left; `len(found) < len(asked)` is the incomplete case
                tests.append((i, "true" if l == f"len({v})" else "false"))
        n += 1
        bad = []
        for i, lab in tests:
            start = [b for b, l_ in g.succ[i] if l_ == lab]
            r_ = reach(g, start, include_srcs=True)
            bad += [x for x in good_rets if x in r_]
        rep.ob("R14.6", m.rel, f.qual, f"when fewer bitmaps than `{s_}` were found no result is returned (fallback)", bool(tests) and not bad,
               ("no completeness test of the lookup" if not tests else "a result is still returned when the lookup was incomplete") +
               ": part of the request (e.g. the whole exclude set) is silently left out, so the answer depends on which commits happen to have a bitmap",
               a.lineno)
    for a in [x for x in ast.walk(f.node) if isinstance(x, ast.Assign) and isinstance(x.value, ast.Call) and callee_name(x.value) == "get_bitmap"
              and isinstance(x.targets[0], ast.Name)]:
        v = a.targets[0].id
        tests = [i for i, nd in g.nodes.items() if nd.kind == "test" and norm(nd.ast) == f"{v} is None"]
        n += 1
        bad = []
        for i in tests:
            r_ = reach(g, [b for b, l_ in g.succ[i] if l_ == "true"], include_srcs=True)
            bad += [x for x in good_rets if x in r_]
        rep.ob("R14.6", m.rel, f.qual, f"an unresolvable bitmap (`{v} is None`) ends in the fallback, never in a partial result", bool(tests) and not bad,
               "the loop is left (break/continue) and a result built from the bitmaps seen so far is returned", a.lineno)
    if n < 3:
        raise AnalysisError(f"_combine_commit_bitmaps: expected >= 3 bitmap lookups, found {n}")
    fb = m.funcs.get("GraphTraversalReachability.get_reachable_objects")
    if fb is None:
        raise AnalysisError("GraphTraversalReachability.get_reachable_objects not found")
    rep.ob("R14.6", m.rel, fb.qual, "the fallback's 'reachable objects' walks the ancestry (same meaning as a commit's bitmap)",
           any(isinstance(c, ast.Call) and callee_name(c) in ("get_reachable_commits", "_collect_ancestors") for c in ast.walk(fb.node)),
           "the fallback returns only the objects of the listed commits themselves while a bitmap covers all ancestors: the same query "
           "has two answers depending on whether a .bitmap file exists", fb.node.lineno)


def run(prog: Program, rep, tier="quick"):
    rep.rule("R14.6", "partial acceleration never answers: incomplete bitmap lookups end in the fallback; both providers mean the same closure")
    rep.rule("R14.5", "XOR-compressed bitmap entries are resolved against the RESOLVED base (recursive get_bitmap), never against stored bits")
    rep.rule("R14.1", "commit-graph: a miss falls back to the store at every use site; the graph replaces only the default "
                      "parents function; grafts/shallows consulted first")
    rep.rule("R14.2", "a MIDX hit dereferences the named pack before answering; Pack.bitmap is checksum-bound and every "
                      "access tolerates a missing bitmap file")
    rep.rule("R14.3", "commit-graph writer references every encoding constant the reader interprets (extra edges)")
    rep.rule("R14.4", "packed-refs cache compared with the file identity before use; read only through its accessor")
    rep.not_decided += ["equality of answers over histories", "bitmap closure under reachability", "generation numbers",
                        "whether git accepts the files dulwich writes"]
    r14_1(prog, rep)
    r14_2(prog, rep)
    r14_3(prog, rep)
    r14_4(prog, rep)
    r14_5(prog, rep)
    r14_6(prog, rep)
    rep.floor("R14.1", 6)
    rep.floor("R14.2", 8)
    rep.floor("R14.3", 4)
    rep.floor("R14.4", 5)
