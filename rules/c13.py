"""C13 — merge-base / ancestry / walks are exact on every clock.

Timestamps may decide the ORDER of exploration (heap keys), never WHETHER something is explored.

R13.1 graph.py: no continue/break/return/skipped push in a traversal loop is control dependent on a test that
      (directly or through implicit flow) reads a commit timestamp.
R13.2 walk.py: the same, except that a timestamp test may terminate when it contains, or is nested under, the
      test of an option the statement exempts (since/until filtering, exclusion). _topo_reorder reads no
      timestamp at all.
"""
from __future__ import annotations

import ast

from sa.flow import must_pass
from sa.load import walk_no_nested, AnalysisError, Program, callee_name, dotted, norm

SRC_ATTRS = {"commit_time", "author_time"}
SRC_CALLS = {"lookup_stamp"}
SRC_PARAMS = {"min_stamp", "earliest", "since", "until"}
SRC_SELF = {"_min_time", "since", "until"}
OPTION_NAMES = {"_min_time", "since", "until", "is_excluded", "max_entries"}
PUSH_CALLS = {"add", "append", "appendleft", "heappush", "_push", "push", "extend"}


def access_path(e: ast.AST) -> str | None:
    if isinstance(e, ast.Name):
        return e.id
    if isinstance(e, ast.Attribute) and isinstance(e.value, ast.Name) and e.value.id == "self":
        return "self." + e.attr
    return None


def direct_source(e: ast.AST) -> bool:
    for n in ast.walk(e):
        if isinstance(n, ast.Attribute) and n.attr in SRC_ATTRS:
            return True
        if isinstance(n, ast.Attribute) and isinstance(n.value, ast.Name) and n.value.id == "self" and n.attr in SRC_SELF:
            # the option itself compared with None is not a timestamp read
            continue
        if isinstance(n, ast.Call) and callee_name(n) in SRC_CALLS:
            return True
    return False


def reads_option_value(e: ast.AST, params: set[str]) -> bool:
    """the test compares against the *value* of a time option (self._min_time, since, min_stamp...)."""
    for n in ast.walk(e):
        if isinstance(n, ast.Compare):
            sides = [n.left] + list(n.comparators)
            if any(isinstance(o, (ast.Is, ast.IsNot)) for o in n.ops):
                continue
            for s in sides:
                for x in ast.walk(s):
                    p = access_path(x) if isinstance(x, (ast.Name, ast.Attribute)) else None
                    if p and (p in params or (p.startswith("self.") and p[5:] in SRC_SELF)):
                        return True
    return False


def is_option_test(e: ast.AST) -> bool:
    """`X is not None` / `X` / `not X`... for an option name X."""
    if isinstance(e, ast.UnaryOp) and isinstance(e.op, ast.Not):
        return is_option_test(e.operand)
    if isinstance(e, ast.Compare) and len(e.ops) == 1 and isinstance(e.ops[0], (ast.Is, ast.IsNot)) \
            and isinstance(e.comparators[0], ast.Constant) and e.comparators[0].value is None:
        e = e.left
    p = access_path(e) if isinstance(e, (ast.Name, ast.Attribute)) else None
    if p is None:
        return False
    return p.split(".")[-1] in OPTION_NAMES


def contains_option_conjunct(e: ast.AST) -> bool:
    if isinstance(e, ast.BoolOp) and isinstance(e.op, ast.And):
        return any(is_option_test(v) or contains_option_conjunct(v) for v in e.values)
    return is_option_test(e)


class Taint:
    def __init__(self, fn: ast.AST, allow_options: bool):
        self.fn = fn
        self.allow = allow_options
        self.params = {a.arg for a in fn.args.args + fn.args.kwonlyargs if a.arg in SRC_PARAMS}
        # access path -> set of root tests (ast nodes) ; "direct" marker = None
        self.taint: dict[str, set] = {p: {None} for p in self.params}
        self.guards_of: dict[ast.AST, list[ast.AST]] = {}
        self._collect(fn.body, [])
        self._fix()

    def _collect(self, stmts, guards):
        for s in stmts:
            self.guards_of[s] = list(guards)
            if isinstance(s, ast.If):
                self._collect(s.body, guards + [s.test])
                self._collect(s.orelse, guards + [s.test])
            elif isinstance(s, ast.While):
                self._collect(s.body, guards + [s.test])
                self._collect(s.orelse, guards)
            elif isinstance(s, (ast.For, ast.AsyncFor)):
                self._collect(s.body, guards)
                self._collect(s.orelse, guards)
            elif isinstance(s, ast.Try):
                self._collect(s.body, guards)
                for h in s.handlers:
                    self._collect(h.body, guards)
                self._collect(s.orelse, guards)
                self._collect(s.finalbody, guards)
            elif isinstance(s, (ast.With, ast.AsyncWith)):
                self._collect(s.body, guards)
            elif isinstance(s, (ast.FunctionDef, ast.AsyncFunctionDef)):
                pass

    def roots_of_expr(self, e: ast.AST) -> set:
        """Root tests / direct marker that taint the value of e."""
        out = set()
        if direct_source(e) or reads_option_value(e, self.params):
            out.add(None)
        for n in ast.walk(e):
            p = access_path(n) if isinstance(n, (ast.Name, ast.Attribute)) else None
            if p and p in self.taint and isinstance(getattr(n, "ctx", None), ast.Load):
                out |= self.taint[p]
        return out

    def roots_of_test(self, t: ast.AST) -> set:
        """For a test: the set of root *tests*; a direct read makes the test its own root."""
        r = self.roots_of_expr(t)
        out = {x for x in r if x is not None}
        if None in r:
            out.add(t)
        return out

    def _fix(self):
        changed = True
        it = 0
        while changed and it < 20:
            changed = False
            it += 1
            for s, guards in self.guards_of.items():
                if isinstance(s, (ast.Assign, ast.AugAssign, ast.AnnAssign)):
                    tgts = s.targets if isinstance(s, ast.Assign) else [s.target]
                    val = s.value
                    roots = set()
                    if val is not None:
                        roots |= self.roots_of_expr(val)
                    for gd in guards:
                        roots |= self.roots_of_test(gd)     # implicit flow
                    if not roots:
                        continue
                    for t in tgts:
                        for n in ast.walk(t):
                            p = access_path(n) if isinstance(n, (ast.Name, ast.Attribute)) else None
                            if p and isinstance(getattr(n, "ctx", None), ast.Store):
                                cur = self.taint.setdefault(p, set())
                                if not roots <= cur:
                                    cur |= roots
                                    changed = True

    def guarded_by_option(self, root_test: ast.AST, guards_chain: dict) -> bool:
        if contains_option_conjunct(root_test):
            return True
        for gd in guards_chain.get(root_test, []):
            if contains_option_conjunct(gd):
                return True
        return False

    def findings(self):
        # map each test node to the guards above it
        test_guards: dict[ast.AST, list[ast.AST]] = {}
        for s, guards in self.guards_of.items():
            if isinstance(s, (ast.If, ast.While)):
                test_guards[s.test] = guards
        out = []
        for s, guards in self.guards_of.items():
            kind = None
            if isinstance(s, (ast.Continue, ast.Break)):
                kind = type(s).__name__.lower()
            elif isinstance(s, ast.Return) and (self._in_loop(s) or not self.allow):
                # graph.py (allow=False): an ANSWER returned under a timestamp test depends on the clock, loop or no loop
                kind = "return"
            elif isinstance(s, ast.Expr) and isinstance(s.value, ast.Call) and callee_name(s.value) in PUSH_CALLS:
                kind = f"push {norm(s.value.func, 30)}"
            if kind is None:
                continue
            roots = set()
            for gd in guards:
                roots |= self.roots_of_test(gd)
            if not roots:
                continue
            bad_roots = [r for r in roots if not (self.allow and self.guarded_by_option(r, test_guards))]
            out.append((s, kind, roots, bad_roots, guards))
        return out

    def _in_loop(self, s):
        # conservative: returns anywhere in a function that has a loop and timestamps count
        return any(isinstance(x, (ast.For, ast.While)) for x in ast.walk(self.fn))


def r13_10(prog: Program, rep):
    """independent(): a commit is never compared with ITSELF.  The pairwise loop skips equal positions only, so the ids are
    de-duplicated first (dict.fromkeys / set / an id comparison that skips) - the merge base of (A, A) is A and both copies
    of a commit listed twice would be dropped as 'ancestor of another'."""
    m = prog.module("dulwich/graph.py")
    f = m.funcs.get("independent")
    if f is None:
        raise AnalysisError("graph.independent not found")
    ps = [a.arg for a in f.node.args.args]
    ids = ps[1] if len(ps) > 1 else None
    loops = [l for l in ast.walk(f.node) if isinstance(l, (ast.For, ast.comprehension))]
    pair = [c for c in ast.walk(f.node) if isinstance(c, ast.Call) and callee_name(c) == "find_merge_base"]
    if not ids or len(loops) < 2 or not pair:
        raise AnalysisError("independent: the pairwise comparison (two nested iterations around find_merge_base) not found")
    first_line = min(getattr(l, "lineno", None) or getattr(l.iter, "lineno", 10 ** 9) for l in loops)
    dedup = [s_ for s_ in ast.walk(f.node) if isinstance(s_, ast.Assign) and s_.lineno < first_line and any(
        isinstance(c, ast.Call) and (dotted(c.func) in ("dict.fromkeys",) or callee_name(c) in ("set", "frozenset", "OrderedDict", "unique"))
        and any(isinstance(x, ast.Name) and x.id == ids for x in ast.walk(c)) for c in ast.walk(s_.value))]
    skips = [t for l in loops if isinstance(l, ast.For) for t in ast.walk(l) if isinstance(t, ast.If) and isinstance(t.test, ast.Compare) and isinstance(t.test.ops[0], ast.Eq)
             and "_id" in norm(t.test.left) and "_id" in norm(t.test.comparators[0]) and any(isinstance(x, ast.Continue) for x in t.body)]
    skips += [c for l in loops if isinstance(l, ast.comprehension) for c in l.ifs if isinstance(c, ast.Compare) and isinstance(c.ops[0], ast.NotEq)
              and "_id" in norm(c.left) and "_id" in norm(c.comparators[0])]
    rep.ob("R13.10", m.rel, f.qual, "the ids are de-duplicated (or equal ids skipped) before commits are compared pairwise", bool(dedup or skips),
           "positions are skipped, not ids: for a commit listed twice the merge base of (A, A) is A, so both copies count as ancestors of another commit and "
           "independent([A, A]) is [] instead of [A]", pair[0].lineno)


def r13_11(prog: Program, rep):
    """The shallow boundary is held in two places - the `shallow` file and the parentless graft points loaded from it when the
    repository was opened.  update_shallow keeps them together: the branch that removes commits from the shallow set also
    removes their graft points, otherwise walks in the same Repo object still stop at the old boundary."""
    m = prog.module("dulwich/repo.py")
    f = m.funcs.get("BaseRepo.update_shallow")
    if f is None:
        raise AnalysisError("BaseRepo.update_shallow not found")
    loads = [fn for q, fn in m.funcs.items() if any(isinstance(c, ast.Call) and callee_name(c) == "parse_graftpoints" for c in ast.walk(fn.node))
             and "shallow" in norm(fn.node, 200000)]
    if not loads:
        rep.note("the shallow file is no longer loaded as graft points: R13.11 has nothing to keep together")
        return
    un = [t for t in ast.walk(f.node) if isinstance(t, ast.If) and "unshallow" in norm(t.test)]
    if not un:
        raise AnalysisError("update_shallow: the branch handling new_unshallow not found")
    removes = [x for t in un for x in ast.walk(t) if (isinstance(x, ast.Delete) and "_graftpoints" in norm(x)) or
               (isinstance(x, ast.Call) and isinstance(x.func, ast.Attribute) and x.func.attr in ("pop", "clear", "_remove_graftpoints") and "graftpoints" in norm(x))]
    rep.ob("R13.11", m.rel, f.qual, "commits that stop being shallow lose their parentless graft point in the live repository object", bool(removes),
           "the shallow file is rewritten but the graft points loaded from it at open time stay: the ParentsProvider keeps answering 'no parents' for the old "
           "boundary and a walk in the same Repo object yields a truncated history (a reopened one does not)", un[0].lineno)


def r13_12(prog: Program, rep):
    """(a) find_octopus_base reduces the folded candidates (a redundancy filter inside the fold loop); (b) the walker peels excluded
    tag objects as it peels included ones (the excluded set is compared with commit ids); (c) in topological order the entry
    limit and the filters are applied AFTER the sort: _next does not count max_entries for ORDER_TOPO and _reorder slices the
    sorted sequence."""
    m = prog.module("dulwich/graph.py")
    f = m.funcs.get("find_octopus_base")
    if f is None:
        raise AnalysisError("graph.find_octopus_base not found")
    loops = [l for l in ast.walk(f.node) if isinstance(l, ast.For)]
    red = any(isinstance(c, ast.Call) and callee_name(c) in ("_remove_redundant", "independent") for l in loops for c in ast.walk(l)) or \
        any(isinstance(c, ast.Call) and callee_name(c) in ("_remove_redundant",) for c in ast.walk(f.node) if getattr(c, "lineno", 0) > (loops[-1].lineno if loops else 0))
    rep.ob("R13.12", m.rel, f.qual, "the candidates folded pairwise are reduced to the maximal ones (redundancy filter)", red,
           "the per-candidate results are concatenated: on a criss-cross history a common ancestor comes back together with one of its ancestors, or twice, "
           "and merge_base(octopus=True) answers with a non-maximal base", f.node.lineno)
    w = prog.module("dulwich/walk.py")
    init = w.funcs.get("Walker.__init__")
    if init is None:
        raise AnalysisError("walk.Walker.__init__ not found")
    peels = any(isinstance(c, ast.Call) and callee_name(c) == "isinstance" and "Tag" in norm(c) for c in ast.walk(init.node)) or \
        any(isinstance(c, ast.Call) and callee_name(c) in ("peel_sha", "_peel") for c in ast.walk(init.node))
    rep.ob("R13.12", w.rel, init.qual, "excluded tag objects are peeled to the commit they point at", peels,
           "the id of an excluded annotated tag stays in the excluded set, which is compared with commit ids: nothing is excluded and the tagged history is "
           "walked as if it were included (git rev-list main ^v1 excludes it)", init.node.lineno)
    nx, ro = w.funcs.get("Walker._next"), w.funcs.get("Walker._reorder")
    if nx is None or ro is None:
        raise AnalysisError("walk.Walker._next/_reorder not found")
    cond = any("ORDER_TOPO" in norm(x) for x in ast.walk(nx.node) if isinstance(x, (ast.IfExp, ast.If, ast.BoolOp, ast.Compare)))
    slc = any(isinstance(c, ast.Call) and callee_name(c) == "islice" or (isinstance(c, ast.Subscript) and isinstance(c.slice, ast.Slice) and "max_entries" in norm(c))
              for c in ast.walk(ro.node))
    rep.ob("R13.12", w.rel, nx.qual + " / _reorder", "in topological order max_entries is applied to the sorted sequence, not to the date-ordered stream", cond and slc,
           "the limit cuts the date-ordered stream before the topological sort: under clock skew or a tie a parent is kept and its child dropped "
           "(D, B, A instead of D, C, B on a diamond)", nx.node.lineno)


def run(prog: Program, rep, tier="quick"):
    rep.rule("R13.1", "TAINT with implicit flows, graph.py: no termination/skip in a traversal is control dependent on a "
                      "timestamp-tainted test")
    rep.rule("R13.2", "walk.py: timestamp-tainted terminations only under an exempt option test (since/until/exclusion); "
                      "_topo_reorder reads no timestamp")
    rep.rule("R13.10", "independent() never compares a commit with itself (duplicates removed first)")
    rep.rule("R13.11", "update_shallow keeps the shallow file and the graft points loaded from it together")
    r13_10(prog, rep)
    r13_11(prog, rep)
    r13_12(prog, rep)
    rep.rule("R13.12", "octopus base reduced to maximal candidates; excluded tags peeled; topological walk limits after sorting")
    rep.rule("R13.9", "exclusion propagation in the walker is complete: every parent of an excluded commit is excluded")
    rep.rule("R13.8", "MONOTONE FLAGS: every store to the flag map of _find_lcas accumulates (`old | new`) unless it is the first store")
    rep.rule("R13.6", "walk.py has one source of ancestry: the walker's get_parents (no direct .parents, helpers get the caller's function)")
    rep.rule("R13.5", "the redundancy filter's ancestor walk is complete: only visited parents are not pushed")
    rep.rule("R13.3", "merge-base candidates pass a redundancy filter when there is more than one; commit-graph extra-edge list is "
                      "terminated on the element the loop iterates")
    rep.not_decided += ["that the flag propagation yields the maximal common ancestors for every exploration order",
                        "octopus reduction", "agreement with git"]
    rep.assumptions += ["timestamp sources: .commit_time/.author_time, lookup_stamp(), parameters min_stamp/earliest/since/until, "
                        "self._min_time/since/until", "heap and sort keys are not tests"]
    n_funcs = {"dulwich/graph.py": 0, "dulwich/walk.py": 0}
    n_tainted_tests = 0
    for rel, rule, allow in (("dulwich/graph.py", "R13.1", False), ("dulwich/walk.py", "R13.2", True)):
        m = prog.module(rel)
        for q, f in m.funcs.items():
            if "#" in q:
                continue
            has_loop = any(isinstance(x, (ast.For, ast.While)) for x in ast.walk(f.node))
            reads = direct_source(f.node) or any(a.arg in SRC_PARAMS for a in f.node.args.args + f.node.args.kwonlyargs)
            if not has_loop and not reads:
                continue
            n_funcs[rel] += 1
            t = Taint(f.node, allow)
            fnd = t.findings()
            if not fnd:
                rep.ob(rule, rel, q, "no termination depends on a timestamp", True,
                       f"tainted paths: {sorted(t.taint)[:6]}", f.node.lineno)
            for s, kind, roots, bad, guards in fnd:
                n_tainted_tests += 1
                # nested function bodies are analysed as their own functions
                if m.enclosing_func(s) is not f:
                    continue
                rtxt = "; ".join(sorted(norm(r, 70) for r in roots))
                rep.ob(rule, rel, q, f"{kind} under `{rtxt}`", not bad,
                       f"`{kind}` at line {s.lineno} is control dependent on the timestamp test(s) "
                       f"{[norm(b, 70) for b in bad]}" + (" which no exempt option guards" if allow else "")
                       + ": whether a commit is explored depends on the clock", s.lineno,
                       sorted({getattr(b, 'lineno', 0) for b in bad} | {s.lineno}))
    topo = prog.func("dulwich/walk.py", "_topo_reorder")
    rep.ob("R13.2", "dulwich/walk.py", "_topo_reorder", "reads no timestamp", not direct_source(topo.node),
           "topological reordering consults commit times", topo.node.lineno)
    # the pruning parameter must not be fed from a timestamp by callers either (graph.py)
    m = prog.module("dulwich/graph.py")
    for q, f in m.funcs.items():
        for c in ast.walk(f.node):
            if isinstance(c, ast.Call) and callee_name(c) == "_find_lcas":
                kw = {k.arg: k.value for k in c.keywords}
                if "min_stamp" in kw:
                    fl = prog.func("dulwich/graph.py", "_find_lcas")
                    uses = [x for x in ast.walk(fl.node) if isinstance(x, ast.Name) and x.id == "min_stamp"
                            and isinstance(x.ctx, ast.Load)]
                    rep.ob("R13.1", "dulwich/graph.py", q, "min_stamp argument is not used for pruning", not uses,
                           "a caller passes a commit time as min_stamp and _find_lcas prunes on it", c.lineno)
    # ---- R13.3 merge-base candidates are reduced to the maximal ones: the painting loop of _find_lcas ends as soon as every
    # queued commit is stale, so with ties / clock skew an ancestor of another candidate can survive; a result with more
    # than one element must pass a reachability-based redundancy filter (git: remove_redundant)
    from sa.common import cfg_of
    from sa.cfg import node_calls
    from sa.flow import reach
    gm = prog.module("dulwich/graph.py")
    fl = prog.func("dulwich/graph.py", "_find_lcas")
    filters = []
    for q, f in gm.funcs.items():
        if f is fl or "#" in q or "." in q:
            continue
        ps = [a.arg for a in f.node.args.args]
        walks = any(isinstance(c, ast.Call) and isinstance(c.func, ast.Name) and c.func.id in ps and "parent" in c.func.id for c in ast.walk(f.node)) \
            and any(isinstance(x, (ast.While, ast.For)) for x in ast.walk(f.node))
        filt = any(isinstance(x, ast.ListComp) and any(isinstance(o, ast.NotIn) for g_ in x.generators for i_ in g_.ifs for cmp_ in ast.walk(i_)
                                                       if isinstance(cmp_, ast.Compare) for o in cmp_.ops) for x in ast.walk(f.node))
        if walks and filt:
            filters.append(f.name)
    g = cfg_of(prog, fl)
    calls = [i for i, n in g.nodes.items() for c in node_calls(n) if callee_name(c) in filters]
    rets = [i for i, n in g.nodes.items() if n.kind == "stmt" and isinstance(n.ast, ast.Return)]
    single = [i for i, n in g.nodes.items() if n.kind == "test" and "len(" in norm(n.ast) and ("> 1" in norm(n.ast) or "1 < len(" in norm(n.ast))]
    r = reach(g, [g.entry], avoid=set(calls), include_srcs=True, edge_ok=lambda a, b, l: not (a in single and l == "false"))
    rep.ob("R13.3", "dulwich/graph.py", "_find_lcas", "a result with more than one candidate passes a reachability-based redundancy filter",
           bool(filters) and bool(calls) and not any(x in r for x in rets),
           "the candidates collected by the time-ordered painting loop are returned as they are: with tied or backward timestamps "
           "a non-maximal common ancestor is reported as an additional merge base (and can_fast_forward answers False)", fl.node.lineno)
    # R13.5 the redundancy filter's walk is complete: below each candidate every parent that was not visited yet is
    # pushed.  (The filter skips candidates already known to be redundant; that is only sound when the walk that made
    # them redundant went on below them.)
    gm = prog.module("dulwich/graph.py")
    n5 = 0
    for fname in filters:
        ff = gm.funcs[fname]
        g5 = cfg_of(prog, ff)
        for loop in [x for x in ast.walk(ff.node) if isinstance(x, ast.For) and isinstance(x.target, ast.Name)]:
            v = loop.target.id
            pushes = [i for i, n in g5.nodes.items() for c in node_calls(n) if callee_name(c) in ("append", "heappush", "appendleft", "add")
                      and any(isinstance(a, ast.Name) and a.id == v for a in c.args) and isinstance(c.func, ast.Attribute)
                      and isinstance(c.func.value, ast.Name) and c.func.attr in ("append", "appendleft")]
            if not pushes:
                continue
            n5 += 1
            visited = {c.func.value.id for s_ in loop.body for c in ast.walk(s_) if isinstance(c, ast.Call) and isinstance(c.func, ast.Attribute)
                       and c.func.attr == "add" and isinstance(c.func.value, ast.Name) and any(isinstance(a, ast.Name) and a.id == v for a in c.args)}
            # a visited set is one that is both tested for the loop variable and gets it added right after the miss
            vt = {i for i, n in g5.nodes.items() if n.kind == "test" and isinstance(n.ast, ast.Compare) and len(n.ast.ops) == 1
                  and isinstance(n.ast.ops[0], ast.In) and isinstance(n.ast.left, ast.Name) and n.ast.left.id == v
                  and isinstance(n.ast.comparators[0], ast.Name) and n.ast.comparators[0].id in visited
                  and any(isinstance(c, ast.Call) and isinstance(c.func, ast.Attribute) and c.func.attr == "add" and isinstance(c.func.value, ast.Name)
                          and c.func.value.id == n.ast.comparators[0].id
                          for b, l in g5.succ[i] if l == "false" for c in node_calls(g5.nodes[b]))}
            heads = [i for i, n in g5.nodes.items() if n.kind == "for_iter" and n.ast is loop]
            body0 = [b for h in heads for b, l in g5.succ[h] if l in ("iter", "true", "next", "body")] or \
                [i for i, n in g5.nodes.items() if n.ast is loop.body[0]]
            first = g5.nodes_of(loop.body[0]) or body0
            bad = must_pass(g5, heads, set(pushes), start=first, edge_ok=lambda a, b, l: not (a in vt and l == "true"))
            rep.ob("R13.5", gm.rel, ff.qual, f"every not yet visited `{v}` is pushed (the walk below a candidate is complete)", bool(heads) and not bad,
                   "an iteration of the parents loop can end without pushing the parent although it was not visited: ancestors below it "
                   "are never reached, so a candidate lying only below it survives as an additional merge base",
                   loop.lineno)
    if n5 < 1 and filters:
        raise AnalysisError("no worklist loop found in the redundancy filter")
    # R13.8 MONOTONE FLAGS: the per-commit flag words of _find_lcas only ever grow.  Every store `cstates[K] = V` is an
    # accumulation (V = <current value of cstates[K]> | ...), except a store that no other store can precede (the map is
    # still empty there).  An overwrite loses the "ancestor of c1" flag of a commit that is also one of the c2s.
    from sa.flow import reaching_defs
    g8 = cfg_of(prog, fl)
    rd8 = reaching_defs(g8)
    stores8 = [(i, n.ast) for i, n in g8.nodes.items() if n.kind == "stmt" and isinstance(n.ast, (ast.Assign, ast.AugAssign))
               and isinstance((n.ast.targets[0] if isinstance(n.ast, ast.Assign) else n.ast.target), ast.Subscript)
               and norm((n.ast.targets[0] if isinstance(n.ast, ast.Assign) else n.ast.target).value) == "cstates"]
    if len(stores8) < 3:
        raise AnalysisError(f"_find_lcas: expected >= 3 stores to cstates[...], found {len(stores8)}")

    def _cur_of(e, key, at):
        """e denotes the current flag word of `key`."""
        if isinstance(e, ast.Subscript) and norm(e.value) == "cstates" and norm(e.slice) == key:
            return True
        if isinstance(e, ast.Call) and norm(e.func) == "cstates.get" and e.args and norm(e.args[0]) == key:
            return True
        if isinstance(e, ast.Name):
            defs = [g8.nodes[d] for d in rd8[at].get(e.id, ())]
            return bool(defs) and all(dn.kind == "stmt" and isinstance(dn.ast, ast.Assign) and _cur_of_val(dn.ast.value, key) for dn in defs)
        return False

    def _cur_of_val(v, key):
        # the value itself, or the value masked / or-ed with constants (still carries every flag that is kept on purpose)
        if isinstance(v, ast.Subscript) and norm(v.value) == "cstates" and norm(v.slice) == key:
            return True
        if isinstance(v, ast.Call) and norm(v.func) == "cstates.get" and v.args and norm(v.args[0]) == key:
            return True
        return False
    for i8, a8 in stores8:
        tgt = a8.targets[0] if isinstance(a8, ast.Assign) else a8.target
        key = norm(tgt.slice)
        if isinstance(a8, ast.AugAssign):
            acc = isinstance(a8.op, ast.BitOr)
        else:
            ops = []
            def flat(e):
                if isinstance(e, ast.BinOp) and isinstance(e.op, ast.BitOr):
                    flat(e.left)
                    flat(e.right)
                else:
                    ops.append(e)
            flat(a8.value)
            acc = len(ops) >= 2 and any(_cur_of(o, key, i8) for o in ops)
        others = [j for j, _ in stores8 if j != i8]
        first = not any(i8 in reach(g8, [b for b, l in g8.succ[j] if l not in ("exc", "raise")], include_srcs=True) for j in others)
        rep.ob("R13.8", "dulwich/graph.py", "_find_lcas", f"`{norm(a8, 60)}` keeps the flags the commit already has", acc or first,
               "the flag word is overwritten: a commit that is both c1 (or an ancestor of it) and one of the c2s loses its first flag and is "
               "never recognised as a common ancestor (find_octopus_base with a head that equals the accumulated base returns [])", a8.lineno)
    # R13.9 exclusion propagation is complete: in _exclude_parents every parent of an excluded commit becomes excluded - the
    # per-parent loop has no `break`, and each iteration passes `<excluded>.add(parent)` unless the parent is excluded already
    wmm = prog.module("dulwich/walk.py")
    ep = wmm.funcs.get("_CommitTimeQueue._exclude_parents")
    if ep is None:
        raise AnalysisError("_CommitTimeQueue._exclude_parents not found")
    g9 = cfg_of(prog, ep)
    ploops = [lp for lp in ast.walk(ep.node) if isinstance(lp, ast.For) and isinstance(lp.target, ast.Name) and isinstance(lp.iter, ast.Call)
              and "parents" in norm(lp.iter.func)]
    if not ploops:
        raise AnalysisError("_exclude_parents: loop over the parents not found")
    for lp in ploops:
        v9 = lp.target.id
        brk = [x for x in ast.walk(lp) if isinstance(x, ast.Break)]
        adds = [i for i, n in g9.nodes.items() for c in node_calls(n) if isinstance(c.func, ast.Attribute) and c.func.attr == "add" and c.args
                and isinstance(c.args[0], ast.Name) and c.args[0].id == v9 and "exclud" in norm(c.func.value)]
        sets9 = {norm(c.func.value) for i in adds for c in node_calls(g9.nodes[i]) if isinstance(c.func, ast.Attribute) and c.func.attr == "add"}
        already = {i for i, n in g9.nodes.items() if n.kind == "test" and isinstance(n.ast, ast.Compare) and len(n.ast.ops) == 1
                   and isinstance(n.ast.ops[0], ast.In) and isinstance(n.ast.left, ast.Name) and n.ast.left.id == v9 and norm(n.ast.comparators[0]) in sets9}
        heads9 = [i for i, n in g9.nodes.items() if n.kind == "for_iter" and n.ast is lp]
        first9 = g9.nodes_of(lp.body[0])
        bad9 = must_pass(g9, heads9, set(adds), start=first9, edge_ok=lambda a, b, l: not (a in already and l == "true")) if adds else heads9
        rep.ob("R13.9", wmm.rel, ep.qual, f"every parent `{v9}` of an excluded commit is marked excluded (no break, add on every iteration)",
               bool(adds) and not brk and not bad9,
               ("a `break` leaves the loop over the parents: the parents listed after it are never excluded" if brk else
                "an iteration can end without marking the parent excluded") + ": commits reachable only from an excluded commit are yielded", lp.lineno)
    # R13.6 one source of ancestry in walk.py: the walker's get_parents (which knows grafts, shallow boundaries and the
    # commit-graph).  `.parents` of a commit object is read only in the default of a get_parents parameter, and a helper
    # that takes a get_parents parameter is always handed the caller's function, never left to its default.
    wm = prog.module("dulwich/walk.py")
    direct = []
    for x in ast.walk(wm.tree):
        if isinstance(x, ast.Attribute) and x.attr == "parents" and isinstance(x.ctx, ast.Load):
            p_ = wm.parents.get(x)
            in_default = False
            while p_ is not None:
                if isinstance(p_, ast.Lambda):
                    pp = wm.parents.get(p_)
                    in_default = isinstance(pp, ast.arguments)
                    break
                p_ = wm.parents.get(p_)
            if not in_default:
                direct.append(x)
    rep.ob("R13.6", wm.rel, (wm.enclosing_func(direct[0]).qual if direct and wm.enclosing_func(direct[0]) else "<module>"),
           "`.parents` of a commit is read only as the default of a get_parents parameter", not direct,
           f"`{norm(direct[0])}` bypasses the walker's get_parents: grafts and shallow boundaries are ignored here while the rest of "
           f"the walk honours them" if direct else "", direct[0].lineno if direct else 0)
    helpers = {q: f for q, f in wm.funcs.items() if "get_parents" in [a.arg for a in f.node.args.args + f.node.args.kwonlyargs] and "." not in q}
    n6 = 0
    for q, f in wm.funcs.items():
        for c in [c for c in ast.walk(f.node) if isinstance(c, ast.Call) and isinstance(c.func, ast.Name) and c.func.id in helpers]:
            h = helpers[c.func.id]
            names = [a.arg for a in h.node.args.args]
            pos = names.index("get_parents") if "get_parents" in names else None
            arg = next((k.value for k in c.keywords if k.arg == "get_parents"), None)
            if arg is None and pos is not None and len(c.args) > pos:
                arg = c.args[pos]
            has_own = f.cls is not None or "get_parents" in [a.arg for a in f.node.args.args]
            n6 += 1
            rep.ob("R13.6", wm.rel, q, f"`{norm(c, 60)}` is handed the caller's get_parents", arg is not None and "get_parents" in norm(arg) or not has_own,
                   f"{c.func.id}() falls back to `commit.parents`: the order it computes ignores grafts/shallow parents that the queue "
                   f"walked, so a grafted parent can be emitted before its child", c.lineno)
    if n6 < 1 or len(helpers) < 1:
        raise AnalysisError("walk.py: no helper with a get_parents parameter / no call of it found")
    # the commit-graph writer flags the last extra edge of the sequence it iterates (the reader stops there)
    from rules import c14
    cgm = prog.module("dulwich/commit_graph.py")
    c14.enumerate_last(prog, rep, "R13.3", cgm, prog.func(cgm.rel, "CommitGraph.write_to_file"))
    r13_4(prog, rep)
    from sa.common import share
    share(rep, lambda: c14.r14_1(prog, rep), "R13.7", lambda o: "ParentsProvider" in o.func,
          "the ancestry every query uses (shared with R14.1): ParentsProvider consults grafts and shallow boundaries before the commit-graph and the object")
    rep.count("functions analysed", sum(n_funcs.values()))
    if n_funcs["dulwich/graph.py"] < 3 or n_funcs["dulwich/walk.py"] < 4:
        raise AnalysisError(f"too few traversal functions found: {n_funcs}")
    rep.floor("R13.1", 3)
    rep.floor("R13.2", 5)
    rep.floor("R13.4", 4)


_TIMEISH = ("commit_time", "_min_time", "since", "until", "min_stamp")


def r13_4(prog, rep):
    """Ties never prune: the property holds for monotone (non-strictly increasing) timestamps, so a comparison between two
    timestamps may stop, skip or start the slop countdown only on a strict inequality.  The give-up side of each such
    comparison in walk.py is found from the code (the branch that assigns reset_extra_commits = False or returns False);
    it must be the side that excludes equality."""
    rel = "dulwich/walk.py"
    rep.rule("R13.4", "ORDERINGS: a comparison between two timestamps prunes (countdown / skip / stop) only on a strict inequality - ties keep walking")
    m = prog.module(rel)
    n = 0
    for q, f in sorted(m.funcs.items()):
        for iff in [x for x in walk_no_nested(f.node) if isinstance(x, ast.If)]:
            # comparison atoms of the condition with their polarity (negated an odd number of times = negative)
            atoms = []

            def collect(e, sign):
                if isinstance(e, ast.BoolOp):
                    for v_ in e.values:
                        collect(v_, sign)
                elif isinstance(e, ast.UnaryOp) and isinstance(e.op, ast.Not):
                    collect(e.operand, not sign)
                elif isinstance(e, ast.Compare):
                    atoms.append((e, sign))
            collect(iff.test, True)
            for c, positive in atoms:
                if len(c.ops) != 1 or not isinstance(c.ops[0], (ast.Lt, ast.LtE, ast.Gt, ast.GtE)):
                    continue
                l, r = norm(c.left), norm(c.comparators[0])
                if not (any(k in l for k in _TIMEISH) and any(k in r for k in _TIMEISH)):
                    continue

                def prunes(stmts):
                    for s in stmts:
                        for x in ast.walk(s):
                            if isinstance(x, ast.Assign) and norm(x) == "reset_extra_commits = False":
                                return True
                            if isinstance(x, ast.Return) and isinstance(x.value, ast.Constant) and x.value.value is False:
                                return True
                            if isinstance(x, (ast.Break,)):
                                return True
                    return False
                pb, pe = prunes(iff.body), prunes(iff.orelse)
                if pb == pe:
                    if pb:
                        raise AnalysisError(f"{rel}:{iff.lineno} both sides of a timestamp comparison prune: shape not understood")
                    continue
                n += 1
                strict = isinstance(c.ops[0], (ast.Lt, ast.Gt))
                # the pruning arm is taken when the whole condition is true (body) / false (else); a positive atom pushes the
                # condition towards true when it holds, a negated one when it does not
                prune_when_atom_true = (pb and positive) or (pe and not positive)
                ok = strict if prune_when_atom_true else not strict
                pb = prune_when_atom_true
                rep.ob("R13.4", rel, q, f"`{norm(c, 70)}`: the pruning side ({'true' if pb else 'false'} branch) excludes equal timestamps", ok,
                       "with equal commit times the queue order between a commit and the ancestors of an excluded commit is arbitrary; "
                       "pruning on a tie drops or keeps commits depending on that order", c.lineno)
    if n < 4:
        raise AnalysisError(f"expected >= 4 timestamp comparisons that prune in walk.py, found {n}")
