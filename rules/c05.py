"""C05 — fetch/clone/push transfer a complete closure: ONLY two structural necessary conditions are claimed.

R05.1 wants are validated: every value appended to the want list of the server is dominated by a membership test
      against the advertised values (raising on a miss) and came through the hexsha-validating line splitter.
R05.2 thin packs are completed before they are stored: every path of add_thin_pack to the install passes
      extend_pack with the external references collected by the indexer.

The completeness / minimality of the transferred object set is a relation between a history and two object
sets and is NOT decided.
"""
from __future__ import annotations

import ast

from sa.cfg import EXC_LABELS, node_calls, node_exprs
from sa.common import cfg_of
from sa.flow import must_pass, reach
from sa.load import AnalysisError, Program, callee_name, dotted, norm

SERVER = "dulwich/server.py"
OS_PY = "dulwich/object_store.py"


def run(prog: Program, rep, tier="quick"):
    rep.rule("R05.1", "TAINT/MUST-PRECEDE: wire-supplied wants are validated against the advertised set before they are used")
    rep.rule("R05.2", "MUST-PRECEDE: a thin pack is completed (extend_pack with the indexer's external refs) before it is installed")
    rep.rule("R05.3", "edge completeness of MissingObjectFinder: commit->tree, tree->entries (only gitlinks skipped), tag->object; "
                      "non-leaves are expanded; done-marking")
    rep.not_decided += ["that the transferred set is the complete closure (only that every edge kind is followed)", "that it is minimal", "negotiation modes, capabilities, depth",
                        "byte identity of transferred objects"]
    m = prog.module(SERVER)
    n_entries = 0
    for q, f in m.funcs.items():
        if "#" in q or f.name != "determine_wants" or f.cls is None:
            continue
        body = [s for s in f.node.body if not (isinstance(s, ast.Expr) and isinstance(s.value, ast.Constant))]
        if len(body) == 1 and isinstance(body[0], ast.Raise):
            continue
        reads_wire = any(isinstance(c, ast.Call) and callee_name(c) in ("read_pkt_line", "read_proto_line") for c in ast.walk(f.node))
        if not reads_wire:
            continue
        n_entries += 1
        g = cfg_of(prog, f)
        appends = []
        for i, n in g.nodes.items():
            for c in node_calls(n):
                if isinstance(c.func, ast.Attribute) and c.func.attr in ("append", "add", "extend") and "want" in norm(c.func.value).lower() and c.args:
                    appends.append((i, c))
        if not appends:
            raise AnalysisError(f"{q}: no want list construction found")
        for i, c in appends:
            val = c.args[0]
            names = {x.id for x in ast.walk(val) if isinstance(x, ast.Name)} - {"ObjectID", "RawObjectID"}
            tests = {}
            for j, tn in g.nodes.items():
                if tn.kind == "test" and isinstance(tn.ast, ast.Compare) and len(tn.ast.ops) == 1 \
                        and isinstance(tn.ast.ops[0], (ast.In, ast.NotIn)) and isinstance(tn.ast.left, ast.Name) and tn.ast.left.id in names:
                    tests[j] = ("true" if isinstance(tn.ast.ops[0], ast.In) else "false", norm(tn.ast.comparators[0]))
            r = reach(g, [g.entry], include_srcs=True, edge_ok=lambda a, b, l: not (a in tests and l == tests[a][0]))
            ok = bool(tests) and i not in r
            rep.ob("R05.1", SERVER, q, f"{norm(c, 60)} is dominated by a membership test of the value", ok,
                   "a want taken from the wire reaches the want list without being checked against what was advertised: the "
                   "client can fetch objects that no advertised ref reaches", c.lineno)
            # the set tested against is derived from the advertised heads
            for j, (lab, setname) in tests.items():
                derived = any(isinstance(s, ast.Assign) and isinstance(s.targets[0], ast.Name) and s.targets[0].id == setname
                              and "heads" in norm(s.value) for s in ast.walk(f.node))
                rep.ob("R05.1", SERVER, q, f"the tested set `{setname}` is derived from the advertised heads", derived, "", g.nodes[j].line)
                # the miss side raises
                miss = [b for b, l in g.succ[j] if l != lab and l in ("true", "false")]
                rr = reach(g, miss, include_srcs=True, skip_labels=frozenset({"exc", "raise", "unwind", "catch"}))
                rep.ob("R05.1", SERVER, q, "a want that was not advertised raises", g.exit_normal not in rr and not any(a in rr for a, _ in appends),
                       "the miss side of the membership test continues normally", g.nodes[j].line)
        rets = [n.ast for n in g.nodes.values() if n.kind == "stmt" and isinstance(n.ast, ast.Return) and n.ast.value is not None]
        ok = all(isinstance(r.value, (ast.List,)) and not r.value.elts or (isinstance(r.value, ast.Name) and "want" in r.value.id.lower()) for r in rets)
        rep.ob("R05.1", SERVER, q, "only the validated list (or an empty list) is returned", ok, "", f.node.lineno)
    if n_entries < 1:
        raise AnalysisError("no server determine_wants reading from the wire found")
    sp = m.funcs.get("_split_proto_line")
    if sp is None:
        raise AnalysisError("_split_proto_line not found")
    src = norm(sp.node, 100000)
    rep.ob("R05.1", SERVER, sp.qual, "want lines carry a validated hex sha", "valid_hexsha(" in src and "COMMAND_WANT" in src and "GitProtocolError" in src, "", sp.node.lineno)
    # ---- R05.2
    om = prog.module(OS_PY)
    at = prog.func(OS_PY, "DiskObjectStore.add_thin_pack")
    g = cfg_of(prog, at)
    install = [i for i, n in g.nodes.items() for c in node_calls(n) if callee_name(c) == "_complete_pack"]
    index = [i for i, n in g.nodes.items() for c in node_calls(n) if callee_name(c) == "_index_pack"]
    rep.ob("R05.2", OS_PY, at.qual, "the pack is indexed (external refs collected) before it is completed", bool(install) and bool(index) and not must_pass(g, install, index),
           "", at.node.lineno)
    call = next(c for i in install for c in node_calls(g.nodes[i]) if callee_name(c) == "_complete_pack")
    rep.ob("R05.2", OS_PY, at.qual, "the indexer's external refs are handed to _complete_pack", any("ext_refs" in norm(a) for a in call.args), "", call.lineno)
    cp = prog.func(OS_PY, "DiskObjectStore._complete_pack")
    g = cfg_of(prog, cp)
    ext = [i for i, n in g.nodes.items() for c in node_calls(n) if callee_name(c) == "extend_pack"]
    rename = [i for i, n in g.nodes.items() for c in node_calls(n) if dotted(c.func) in ("os.rename", "os.replace")]
    rep.ob("R05.2", OS_PY, cp.qual, "extend_pack precedes the rename into the pack directory", bool(ext) and bool(rename) and not must_pass(g, rename, ext),
           "a thin pack can be installed without its missing bases appended", cp.node.lineno)
    ec = next(c for i in ext for c in node_calls(g.nodes[i]) if callee_name(c) == "extend_pack")
    rep.ob("R05.2", OS_PY, cp.qual, "extend_pack receives the external refs and the store's get_raw",
           any("ext_refs" in norm(a) for a in ec.args) and any(k.arg == "get_raw" for k in ec.keywords), "", ec.lineno)
    ip = prog.func(OS_PY, "DiskObjectStore._index_pack")
    src = norm(ip.node, 100000)
    rep.ob("R05.2", OS_PY, ip.qual, "external refs come from the indexer", "ext_refs()" in src, "", ip.node.lineno)
    # ---- R05.3 edge completeness of the object walk that chooses what to send (a necessary condition of completeness)
    nx = prog.func(OS_PY, "MissingObjectFinder.__next__")
    need = {"Commit": [".tree"], "Tree": ["iteritems()", "S_ISGITLINK"], "Tag": [".object[1]"]}
    for x in ast.walk(nx.node):
        if isinstance(x, ast.If) and isinstance(x.test, ast.Call) and callee_name(x.test) == "isinstance" and len(x.test.args) == 2:
            cls = norm(x.test.args[1])
            if cls in need and need[cls] is not None:
                body = " ".join(norm(s_, 10000) for s_ in x.body)
                missing = [e for e in need[cls] if e not in body]
                enq = "add_todo(" in body
                rep.ob("R05.3", OS_PY, nx.qual, f"{cls}: the objects it references are enqueued ({', '.join(need[cls])})", not missing and enq,
                       f"an edge of the object graph is not followed when choosing what to send ({missing or 'no add_todo'}): the "
                       f"receiver ends up with an incomplete closure", x.lineno)
                if cls == "Tree":
                    # only gitlinks are skipped: the skip condition is exactly `not S_ISGITLINK(mode)`
                    conds = [norm(i_.test) for s_ in x.body for i_ in ast.walk(s_) if isinstance(i_, ast.If)]
                    rep.ob("R05.3", OS_PY, nx.qual, "Tree: only gitlink entries are skipped", conds == ["not S_ISGITLINK(m)"] or
                           (len(conds) == 1 and "S_ISGITLINK" in conds[0] and conds[0].startswith("not ")),
                           f"entries are filtered by {conds}: blobs or subtrees that satisfy the extra condition are never sent", x.lineno)
                need[cls] = None
    for cls, v in need.items():
        if v is not None:
            rep.ob("R05.3", OS_PY, nx.qual, f"{cls} objects are expanded", False, f"no isinstance(o, {cls}) branch", nx.node.lineno)
    g = cfg_of(prog, nx)
    rets = [i for i, n in g.nodes.items() if n.kind == "stmt" and isinstance(n.ast, ast.Return)]
    done = [i for i, n in g.nodes.items() for c in node_calls(n) if dotted(c.func) == "self.sha_done.add"]
    rep.ob("R05.3", OS_PY, nx.qual, "an object is marked done before it is returned (sent once)", bool(done) and not must_pass(g, rets, done), "", nx.node.lineno)
    leaf_tests = [i for i, n in g.nodes.items() if n.kind == "test" and norm(n.ast) == "leaf"]
    exp = [i for i, n in g.nodes.items() if n.kind == "test" and isinstance(n.ast, ast.Call) and callee_name(n.ast) == "isinstance"]
    # expansion is skipped only for leaves
    r = reach(g, [g.entry], include_srcs=True, avoid=set(exp), edge_ok=lambda a, b, l: not (a in leaf_tests and l == "true"))
    rep.ob("R05.3", OS_PY, nx.qual, "only objects flagged as leaves are returned without being expanded", bool(leaf_tests) and not any(x in r for x in rets),
           "a non-leaf object can be returned without its references being enqueued", nx.node.lineno)
    at = prog.func(OS_PY, "MissingObjectFinder.add_todo")
    rep.ob("R05.3", OS_PY, at.qual, "add_todo drops only what is already done", "not in self.sha_done" in norm(at.node, 10000), "", at.node.lineno)
    # ---- R05.4 the have side: what the sender assumes the peer already holds
    rep.rule("R05.4", "objects assumed present on the peer: tree entries of common commits except gitlinks (a gitlink names a commit of "
                      "ANOTHER repository: holding the tree does not imply holding that commit); haves are objects the client holds")
    cf = prog.func(OS_PY, "_collect_filetree_revs")
    g = cfg_of(prog, cf)
    setp = [a.arg for a in cf.node.args.args][-1]
    adds = [i for i, n in g.nodes.items() for c in node_calls(n) if isinstance(c.func, ast.Attribute) and c.func.attr in ("add", "update")
            and isinstance(c.func.value, ast.Name) and c.func.value.id == setp]
    gl = [i for i, n in g.nodes.items() if n.kind == "test" and isinstance(n.ast, ast.Call) and callee_name(n.ast) == "S_ISGITLINK"]
    r = reach(g, [g.entry], include_srcs=True, edge_ok=lambda a, b, l: not (a in gl and l == "false"))
    rep.ob("R05.4", OS_PY, cf.qual, f"`{setp}.add(sha)` only for entries that are not gitlinks", bool(adds) and bool(gl) and not any(a in r for a in adds),
           "the commit id a gitlink points to is recorded as already present on the peer: when the same commit is also part of "
           "the wanted history (submodule turned subtree, merge of the submodule's history) it is never sent",
           g.nodes[adds[0]].line if adds else cf.node.lineno)
    rec = [c for c in ast.walk(cf.node) if isinstance(c, ast.Call) and callee_name(c) == "_collect_filetree_revs"]
    dirs = [i for i, n in g.nodes.items() if n.kind == "test" and isinstance(n.ast, ast.Call) and dotted(n.ast.func) == "stat.S_ISDIR"]
    rep.ob("R05.4", OS_PY, cf.qual, "subtrees are descended into (S_ISDIR) so that their entries are assumed present as well", bool(rec) and bool(dirs), "", cf.node.lineno)
    gw = prog.func(OS_PY, "ObjectStoreGraphWalker.next")
    g = cfg_of(prog, gw)
    gp = [i for i, n in g.nodes.items() for c in node_calls(n) if dotted(c.func) == "self.get_parents"]
    rets = [i for i, n in g.nodes.items() if n.kind == "stmt" and isinstance(n.ast, ast.Return) and n.ast.value is not None
            and not (isinstance(n.ast.value, ast.Constant) and n.ast.value.value is None)]
    if not gp or not rets:
        raise AnalysisError("ObjectStoreGraphWalker.next: get_parents call or the return of a have not found")
    fail = [b for i in gp for b, l in g.succ[i] if l in EXC_LABELS]
    r = reach(g, fail, include_srcs=True)
    rep.ob("R05.4", OS_PY, gw.qual, "a commit is announced as a have only after its parents were read from the local store (KeyError = not held)",
           not any(x in r for x in rets) and not must_pass(g, rets, gp),
           "a commit whose lookup failed (it is not in the local store, e.g. below a shallow boundary) is still returned and sent "
           "as `have`: the server omits it and everything below it, leaving the client with a parent it does not hold",
           g.nodes[rets[0]].line)
    rep.floor("R05.4", 3)
    # ---- R05.6 what is sent is decided from what the peer ADVERTISED / acknowledged, and the completed pack contains every
    # external base the indexer asked for
    rep.rule("R05.6", "the pusher never probes the receiver's object store to skip a want; the thin-pack bases handed to extend_pack are the "
                      "indexer's external refs, unfiltered; the shallow boundary the finder uses excludes the not-shallow commits")
    cm = prog.module("dulwich/client.py")
    sp = cm.funcs.get("LocalGitClient.send_pack")
    if sp is None:
        raise AnalysisError("LocalGitClient.send_pack not found")
    wl = [lp for lp in ast.walk(sp.node) if isinstance(lp, ast.For) and any(isinstance(c, ast.Call) and isinstance(c.func, ast.Attribute) and c.func.attr == "append"
                                                                             and norm(c.func.value) == "want" for c in ast.walk(lp))]
    if not wl:
        raise AnalysisError("LocalGitClient.send_pack: the loop that collects `want` was not found")
    probes = [x for lp in wl for x in ast.walk(lp) if isinstance(x, ast.Compare) and isinstance(x.ops[0], (ast.In, ast.NotIn)) and "object_store" in norm(x.comparators[0])]
    rep.ob("R05.6", cm.rel, sp.qual, "no want is skipped because the object is found in the receiver's object store", not probes,
           f"`{norm(probes[0], 60)}`: the presence of one object (possibly unreachable garbage without its closure) stands in for the whole "
           f"history - the ref is moved and nothing is sent" if probes else "", probes[0].lineno if probes else sp.node.lineno)
    cpk = prog.func(OS_PY, "DiskObjectStore._complete_pack")
    pn = [a.arg for a in cpk.node.args.args]
    ext = next((p_ for p_ in pn if "ext" in p_), None)
    rebound = [x for x in ast.walk(cpk.node) if isinstance(x, ast.Name) and x.id == ext and isinstance(x.ctx, ast.Store)]
    ecall = [c for c in ast.walk(cpk.node) if isinstance(c, ast.Call) and callee_name(c) == "extend_pack"]
    rep.ob("R05.6", OS_PY, cpk.qual, f"extend_pack receives the parameter `{ext}` as it came from the indexer", bool(ext) and bool(ecall) and not rebound
           and any(isinstance(a, ast.Name) and a.id == ext for a in ecall[0].args + [k.value for k in ecall[0].keywords]),
           f"`{ext}` is re-bound (filtered) before extend_pack: a base that is left out stays external, the installed pack is still thin and its "
           f"deltas cannot be resolved from the pack alone", rebound[0].lineno if rebound else cpk.node.lineno)
    sm = prog.module("dulwich/server.py")
    hs = sm.funcs.get("_ProtocolGraphWalker._handle_shallow_request")
    if hs is None:
        raise AnalysisError("_ProtocolGraphWalker._handle_shallow_request not found")
    upd = [c for c in ast.walk(hs.node) if isinstance(c, ast.Call) and norm(c.func) == "self.shallow.update"]
    fs = [s_ for s_ in ast.walk(hs.node) if isinstance(s_, ast.Assign) and isinstance(s_.value, ast.Call) and callee_name(s_.value) == "find_shallow"
          and isinstance(s_.targets[0], ast.Tuple) and len(s_.targets[0].elts) == 2]
    ok7 = False
    if upd and fs:
        sh, nsh = (e.id for e in fs[0].targets[0].elts)
        a0 = upd[0].args[0] if upd[0].args else None
        ok7 = isinstance(a0, ast.BinOp) and isinstance(a0.op, ast.Sub) and norm(a0.left) == sh and norm(a0.right) == nsh
    rep.ob("R05.6", sm.rel, hs.qual, "the boundary set the object finder uses is `shallow - not_shallow`", ok7,
           "commits that are reachable above the depth limit on another path stay in the boundary set the finder and the parents provider use: "
           "they are announced as not shallow but cut off, and never sent", upd[0].lineno if upd else hs.node.lineno)
    # ---- R05.5 "apart from tags it follows automatically at the client's request, nothing outside the closure"
    rep.rule("R05.5", "automatic tag following only at the client's request: the tag map is non-empty only behind the include-tag capability; "
                      "a tag is enqueued only for an object that is itself being sent")
    sm = prog.module("dulwich/server.py")
    gt = sm.funcs.get("UploadPackHandler.get_tagged")
    if gt is None:
        raise AnalysisError("UploadPackHandler.get_tagged not found")
    g = cfg_of(prog, gt)
    cap = [i for i, n in g.nodes.items() if n.kind == "test" and isinstance(n.ast, ast.Call) and callee_name(n.ast) == "has_capability"
           and any("INCLUDE_TAG" in norm(a) for a in n.ast.args)]
    nonempty = [i for i, n in g.nodes.items() if n.kind == "stmt" and isinstance(n.ast, ast.Return) and n.ast.value is not None
                and not (isinstance(n.ast.value, ast.Dict) and not n.ast.value.keys)]
    r = reach(g, [g.entry], include_srcs=True, edge_ok=lambda a, b, l: not (a in cap and l == "true"))
    rep.ob("R05.5", sm.rel, gt.qual, "a non-empty tag map is returned only when the client sent include-tag", bool(cap) and bool(nonempty)
           and not any(x in r for x in nonempty),
           "tags are added to the pack although the client did not ask for them: objects outside the closure of the wants are sent",
           gt.node.lineno)
    g = cfg_of(prog, nx)
    tag_adds = [i for i, n in g.nodes.items() for c in node_calls(n) if callee_name(c) == "add_todo" and "_tagged" in norm(c)]
    memb = [i for i, n in g.nodes.items() if n.kind == "test" and isinstance(n.ast, ast.Compare) and isinstance(n.ast.ops[0], ast.In)
            and norm(n.ast.comparators[0]) == "self._tagged"]
    r = reach(g, [g.entry], include_srcs=True, edge_ok=lambda a, b, l: not (a in memb and l == "true"))
    rep.ob("R05.5", OS_PY, nx.qual, "a tag is enqueued only when the object being returned is its target (membership in the tag map)",
           bool(tag_adds) and bool(memb) and not any(x in r for x in tag_adds) and all(norm(g.nodes[i].ast.left) == "sha" for i in memb),
           "", nx.node.lineno)
    fm = prog.func(OS_PY, "MissingObjectFinder.__init__")
    rep.ob("R05.5", OS_PY, fm.qual, "the tag map comes from the caller's get_tagged (empty when none is given)",
           "self._tagged = get_tagged and get_tagged() or {}" in norm(fm.node, 200000), "", fm.node.lineno)
    r05_7(prog, rep)
    rep.floor("R05.3", 7)
    rep.floor("R05.1", 3)
    rep.floor("R05.2", 5)
    r05_8(prog, rep)
    r05_9(prog, rep)


def r05_7(prog: Program, rep):
    """SCENARIO MUST-PRECEDE.  In protocol v0/v1 the server sends the shallow-update section right after the request,
    before the negotiation.  Under the scenario {deepening fetch, protocol_version != 2, stateful transport (can_read
    given)} every path of _handle_upload_pack_head to a read inside the have loop (the ACK poll) passes
    _read_shallow_updates first - otherwise the poll consumes `shallow <sha>` lines as if they were uninteresting ACK
    traffic and the boundary commit is never recorded (F05.1)."""
    from sa.common import scenario_edge_filter
    from sa.flow import reaching_defs
    rep.rule("R05.7", "SCENARIO MUST-PRECEDE: in a stateful v0/v1 deepening fetch the shallow-update section is read before the first ACK poll of the have loop")
    f = prog.func("dulwich/client.py", "_handle_upload_pack_head")
    g = cfg_of(prog, f)
    rd = reaching_defs(g)

    def atoms(e):
        t = norm(e)
        table = {"depth not in (0, None)": True, "depth is not None": True, "depth": True, "depth is None": False, "depth in (0, None)": False,
                 "protocol_version != 2": True, "protocol_version == 2": False, "2 != protocol_version": True, "2 == protocol_version": False,
                 "can_read is not None": True, "can_read is None": False, "can_read": True,
                 "shallow_since is not None": False, "shallow_since is None": True, "shallow_exclude": False, "shallow_since": False}
        return table.get(t)
    edge_ok, decided = scenario_edge_filter(g, rd, atoms)
    loops = [l for l in ast.walk(f.node) if isinstance(l, ast.While)]
    polls = [i for i, n in g.nodes.items() for c in node_calls(n) if callee_name(c) == "read_pkt_line"
             and any(any(x is c for x in ast.walk(l)) for l in loops)]
    reads = [i for i, n in g.nodes.items() for c in node_calls(n) if callee_name(c) == "_read_shallow_updates"]
    if not polls or not reads or len(decided) < 2:
        raise AnalysisError(f"_handle_upload_pack_head: ACK poll in the have loop ({len(polls)}), _read_shallow_updates ({len(reads)}) or the "
                            f"scenario tests ({len(decided)}) not found")
    bad = must_pass(g, polls, reads, edge_ok=edge_ok)
    rep.ob("R05.7", "dulwich/client.py", f.qual, "the shallow-update section is read before the have loop polls for ACKs (deepening, v0/v1, stateful)",
           not bad, "the poll `if can_read(): pkt = proto.read_pkt_line()` is reachable before _read_shallow_updates: a `shallow <sha>` line the server has "
           "already sent is read there and dropped as 'not an ACK'; the fetched tip keeps a missing parent without being recorded as shallow",
           g.nodes[(bad or polls)[0]].line)


def r05_8(prog: Program, rep):
    """A protocol v2 server answers EVERY fetch request that contains `shallow` lines with a shallow-info section, also when no
    deepening was asked for (the section is empty then).  Either the response reader (_handle_upload_pack_tail) recognises the
    section and consumes it up to its delimiter before it starts reading the side-band stream, or the request writer
    (_handle_upload_pack_head) reads the shallow updates in the scenario {v2, shallow lines sent, no deepening}.  With neither, the
    section header is taken for `packfile`, the side-band reader stops at the section's delimiter and the fetch 'succeeds' with zero
    bytes of pack data (F05.2)."""
    from sa.common import scenario_edge_filter
    from sa.flow import reaching_defs
    rep.rule("R05.8", "v2 fetch with shallow lines but no deepening: the shallow-info section is consumed before the side-band stream is read")
    tail = prog.func("dulwich/client.py", "_handle_upload_pack_tail")
    g = cfg_of(prog, tail)
    tests = [i for i, n in g.nodes.items() if n.kind == "test" and any(isinstance(x, ast.Constant) and x.value in (b"shallow-info", b"shallow-info\n")
                                                                        for x in ast.walk(n.ast))]
    sb = [i for i, n in g.nodes.items() for c in node_calls(n) if callee_name(c) == "_read_side_band64k_data"]
    if not sb:
        raise AnalysisError("_handle_upload_pack_tail: side-band reader not found")
    consume = [i for i, n in g.nodes.items() if i not in sb for c in node_calls(n) if callee_name(c) == "read_pkt_seq"]
    ok_a = False
    if tests:
        starts = [b for t in tests for b, l in g.succ[t] if l == "true"]
        ok_a = bool(consume) and not must_pass(g, sb, consume, start=starts)
    head = prog.func("dulwich/client.py", "_handle_upload_pack_head")
    gh = cfg_of(prog, head)
    rd = reaching_defs(gh)

    def atoms(e):
        t = norm(e)
        table = {"depth not in (0, None)": False, "depth is not None": False, "depth": False, "depth is None": True, "depth in (0, None)": True,
                 "protocol_version != 2": False, "protocol_version == 2": True, "2 != protocol_version": False, "2 == protocol_version": True,
                 "can_read is not None": True, "can_read is None": False, "can_read": True, "walker_shallow": True, "walker_shallow is not None": True,
                 "walker_shallow is None": False, "deepening": False,
                 # a non-None value can only come from an earlier _read_shallow_updates, i.e. from a path that has passed a read
                 "shallow_updates is not None": False, "shallow_updates is None": True,
                 "shallow_since is not None": False, "shallow_since is None": True, "shallow_exclude": False, "shallow_since": False}
        return table.get(t)
    edge_ok, decided = scenario_edge_filter(gh, rd, atoms)
    reads = [i for i, n in gh.nodes.items() for c in node_calls(n) if callee_name(c) == "_read_shallow_updates"]
    ok_b = bool(reads) and len(decided) >= 2 and not must_pass(gh, [gh.exit_normal], reads, edge_ok=edge_ok)
    rep.ob("R05.8", "dulwich/client.py", tail.qual, "the (empty) shallow-info section of a v2 response is consumed before the side-band stream is read",
           ok_a or ok_b, "neither does the response reader recognise `shallow-info` and read up to its delimiter, nor does the request writer read the "
           "shallow updates when it sent shallow lines without deepening: the section is taken for `packfile`, zero bytes of pack data are read and "
           "the fetch reports success - every plain fetch into a depth-limited clone from a C git server", g.nodes[sb[0]].line)


def r05_9(prog: Program, rep):
    """A `have` from a shallow client promises the commit, not its ancestry.  find_missing_objects therefore lets the client's own
    shallow lines (graph_walker.client_shallow) take part in the decision: either they are one of the reasons for which the common
    commits are discarded (`haves = []`), or they bound the have-side walk (shallow=/shallows= of the finder / parents provider)."""
    rep.rule("R05.9", "the client's shallow lines bound what a `have` promises (haves discarded, or the have-side walk cut there)")
    f = prog.func("dulwich/repo.py", "BaseRepo.find_missing_objects")
    derived = {"client_shallow"}
    changed = True
    while changed:
        changed = False
        for x in ast.walk(f.node):
            if isinstance(x, (ast.Assign, ast.AnnAssign)) and x.value is not None:
                tg = x.targets if isinstance(x, ast.Assign) else [x.target]
                if any(d in norm(x.value) for d in derived):
                    for t in tg:
                        if isinstance(t, ast.Name) and t.id not in derived:
                            derived.add(t.id)
                            changed = True
    clear = [x for x in ast.walk(f.node) if isinstance(x, ast.If) and any(
        isinstance(s_, ast.Assign) and isinstance(s_.targets[0], ast.Name) and s_.targets[0].id == "haves" and isinstance(s_.value, (ast.List, ast.Tuple, ast.Call))
        and not getattr(s_.value, "elts", None) and not getattr(s_.value, "args", None) for s_ in x.body)]
    if not clear:
        raise AnalysisError("find_missing_objects: the branch that discards the haves of a shallow request not found")
    in_test = any(d in norm(c.test) for c in clear for d in derived)
    in_kw = any(isinstance(x, ast.Call) and callee_name(x) in ("MissingObjectFinder", "ParentsProvider") and any(
        k.arg in ("shallow", "shallows") and any(d in norm(k.value) for d in derived) for k in x.keywords) for x in ast.walk(f.node))
    rep.ob("R05.9", "dulwich/repo.py", f.qual, "the client's shallow set takes part in discarding the haves (or bounds the have-side walk)", in_test or in_kw,
           "only a NEW boundary or an unshallow makes the server distrust the haves: with a deepen that creates no boundary, `have C` from a client "
           "whose shallow commit is C is taken as 'has C and all its ancestors' and the wanted history is pruned at commits the client lacks",
           clear[0].lineno)
