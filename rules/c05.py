"""C05 — fetch/clone/push transfer a complete closure: ONLY two structural necessary conditions are claimed.

R05.1 wants are validated: every value appended to the want list of the server is dominated by a membership test
      against the advertised values (raising on a miss) and came through the hexsha-validating line splitter.
R05.2 thin packs are completed before they are stored: every path of add_thin_pack to the install passes
      extend_pack with the external references collected by the indexer.

The completeness / minimality of the transferred object set is a relation between a history and two object
sets and is NOT decided.
"""
from __future__ import annotations

import ast

from sa.cfg import node_calls, node_exprs
from sa.common import cfg_of
from sa.flow import must_pass, reach
from sa.load import AnalysisError, Program, callee_name, dotted, norm

SERVER = "dulwich/server.py"
OS_PY = "dulwich/object_store.py"


def run(prog: Program, rep, tier="quick"):
    rep.rule("R05.1", "TAINT/MUST-PRECEDE: wire-supplied wants are validated against the advertised set before they are used")
    rep.rule("R05.2", "MUST-PRECEDE: a thin pack is completed (extend_pack with the indexer's external refs) before it is installed")
    rep.not_decided += ["that the transferred set is the complete closure", "that it is minimal", "negotiation modes, capabilities, depth",
                        "byte identity of transferred objects"]
    m = prog.module(SERVER)
    n_entries = 0
    for q, f in m.funcs.items():
        if "#" in q or f.name != "determine_wants" or f.cls is None:
            continue
        body = [s for s in f.node.body if not (isinstance(s, ast.Expr) and isinstance(s.value, ast.Constant))]
        if len(body) == 1 and isinstance(body[0], ast.Raise):
            continue
        reads_wire = any(isinstance(c, ast.Call) and callee_name(c) in ("read_pkt_line", "read_proto_line") for c in ast.walk(f.node))
        if not reads_wire:
            continue
        n_entries += 1
        g = cfg_of(prog, f)
        appends = []
        for i, n in g.nodes.items():
            for c in node_calls(n):
                if isinstance(c.func, ast.Attribute) and c.func.attr in ("append", "add", "extend") and "want" in norm(c.func.value).lower() and c.args:
                    appends.append((i, c))
        if not appends:
            raise AnalysisError(f"{q}: no want list construction found")
        for i, c in appends:
            val = c.args[0]
            names = {x.id for x in ast.walk(val) if isinstance(x, ast.Name)} - {"ObjectID", "RawObjectID"}
            tests = {}
            for j, tn in g.nodes.items():
                if tn.kind == "test" and isinstance(tn.ast, ast.Compare) and len(tn.ast.ops) == 1 \
                        and isinstance(tn.ast.ops[0], (ast.In, ast.NotIn)) and isinstance(tn.ast.left, ast.Name) and tn.ast.left.id in names:
                    tests[j] = ("true" if isinstance(tn.ast.ops[0], ast.In) else "false", norm(tn.ast.comparators[0]))
            r = reach(g, [g.entry], include_srcs=True, edge_ok=lambda a, b, l: not (a in tests and l == tests[a][0]))
            ok = bool(tests) and i not in r
            rep.ob("R05.1", SERVER, q, f"{norm(c, 60)} is dominated by a membership test of the value", ok,
                   "a want taken from the wire reaches the want list without being checked against what was advertised: the "
                   "client can fetch objects that no advertised ref reaches", c.lineno)
            # the set tested against is derived from the advertised heads
            for j, (lab, setname) in tests.items():
                derived = any(isinstance(s, ast.Assign) and isinstance(s.targets[0], ast.Name) and s.targets[0].id == setname
                              and "heads" in norm(s.value) for s in ast.walk(f.node))
                rep.ob("R05.1", SERVER, q, f"the tested set `{setname}` is derived from the advertised heads", derived, "", g.nodes[j].line)
                # the miss side raises
                miss = [b for b, l in g.succ[j] if l != lab and l in ("true", "false")]
                rr = reach(g, miss, include_srcs=True, skip_labels=frozenset({"exc", "raise", "unwind", "catch"}))
                rep.ob("R05.1", SERVER, q, "a want that was not advertised raises", g.exit_normal not in rr and not any(a in rr for a, _ in appends),
                       "the miss side of the membership test continues normally", g.nodes[j].line)
        rets = [n.ast for n in g.nodes.values() if n.kind == "stmt" and isinstance(n.ast, ast.Return) and n.ast.value is not None]
        ok = all(isinstance(r.value, (ast.List,)) and not r.value.elts or (isinstance(r.value, ast.Name) and "want" in r.value.id.lower()) for r in rets)
        rep.ob("R05.1", SERVER, q, "only the validated list (or an empty list) is returned", ok, "", f.node.lineno)
    if n_entries < 1:
        raise AnalysisError("no server determine_wants reading from the wire found")
    sp = m.funcs.get("_split_proto_line")
    if sp is None:
        raise AnalysisError("_split_proto_line not found")
    src = norm(sp.node, 100000)
    rep.ob("R05.1", SERVER, sp.qual, "want lines carry a validated hex sha", "valid_hexsha(" in src and "COMMAND_WANT" in src and "GitProtocolError" in src, "", sp.node.lineno)
    # ---- R05.2
    om = prog.module(OS_PY)
    at = prog.func(OS_PY, "DiskObjectStore.add_thin_pack")
    g = cfg_of(prog, at)
    install = [i for i, n in g.nodes.items() for c in node_calls(n) if callee_name(c) == "_complete_pack"]
    index = [i for i, n in g.nodes.items() for c in node_calls(n) if callee_name(c) == "_index_pack"]
    rep.ob("R05.2", OS_PY, at.qual, "the pack is indexed (external refs collected) before it is completed", bool(install) and bool(index) and not must_pass(g, install, index),
           "", at.node.lineno)
    call = next(c for i in install for c in node_calls(g.nodes[i]) if callee_name(c) == "_complete_pack")
    rep.ob("R05.2", OS_PY, at.qual, "the indexer's external refs are handed to _complete_pack", any("ext_refs" in norm(a) for a in call.args), "", call.lineno)
    cp = prog.func(OS_PY, "DiskObjectStore._complete_pack")
    g = cfg_of(prog, cp)
    ext = [i for i, n in g.nodes.items() for c in node_calls(n) if callee_name(c) == "extend_pack"]
    rename = [i for i, n in g.nodes.items() for c in node_calls(n) if dotted(c.func) in ("os.rename", "os.replace")]
    rep.ob("R05.2", OS_PY, cp.qual, "extend_pack precedes the rename into the pack directory", bool(ext) and bool(rename) and not must_pass(g, rename, ext),
           "a thin pack can be installed without its missing bases appended", cp.node.lineno)
    ec = next(c for i in ext for c in node_calls(g.nodes[i]) if callee_name(c) == "extend_pack")
    rep.ob("R05.2", OS_PY, cp.qual, "extend_pack receives the external refs and the store's get_raw",
           any("ext_refs" in norm(a) for a in ec.args) and any(k.arg == "get_raw" for k in ec.keywords), "", ec.lineno)
    ip = prog.func(OS_PY, "DiskObjectStore._index_pack")
    src = norm(ip.node, 100000)
    rep.ob("R05.2", OS_PY, ip.qual, "external refs come from the indexer", "ext_refs()" in src, "", ip.node.lineno)
    rep.floor("R05.1", 3)
    rep.floor("R05.2", 5)
