"""C08 — ref updates are atomic compare-and-swap.

R08.1 DEF-INSIDE: in the files backend, every ref *value* that (transitively) feeds a test inside the region
      holding a ref's lock was read inside that region (no stale read before the lock).
R08.2 every removal of a loose ref file happens under that ref's own lock; packed-refs is written only
      under packed-refs.lock and the cache is invalidated afterwards on all exits.
R08.3 SAME-DEF: in commit-like functions the expected-old value of the CAS and the parents of the new
      object come from one and the same read of the ref.
R08.4 RESULT-USED, package wide: no conditional CAS result is dropped.
"""
from __future__ import annotations

import ast

from sa.cas import cas_sites, result_dropped
from sa.cfg import EXC_LABELS, node_calls, node_exprs, _walk_shallow
from sa.common import cfg_of, gitfile_mode, is_gitfile_call
from sa.flow import lines, must_pass, path, reach, reaching_defs
from sa.load import AnalysisError, Program, arg_of, callee_name, dotted, is_none, norm

REFS_PY = "dulwich/refs.py"
VALUE_READ_CALLS = {"read_loose_ref", "get_packed_refs", "read_ref", "get_peeled"}
VALUE_READ_FS = {"os.path.exists", "os.path.lexists", "os.path.isfile"}


def files_backend_classes(prog: Program) -> list[str]:
    """Role: classes in refs.py that take write-mode GitFile locks (DiskRefsContainer, locked_ref)."""
    m = prog.module(REFS_PY)
    out = []
    for cname, cls in m.classes.items():
        for c in ast.walk(cls.node):
            if is_gitfile_call(prog, m, c) and "w" in (gitfile_mode(c) or ""):
                out.append(cname)
                break
    return out


def _value_read_in(e: ast.AST) -> str | None:
    for x in ast.walk(e):
        if isinstance(x, ast.Call):
            d = dotted(x.func) or ""
            if d.split(".")[-1] in VALUE_READ_CALLS or d in VALUE_READ_FS:
                return d
        if isinstance(x, ast.Subscript) and isinstance(x.ctx, ast.Load) and dotted(x.value) == "self":
            return "self[...]"
    return None


def _def_value(n) -> ast.AST | None:
    a = n.ast
    if n.kind == "stmt" and isinstance(a, (ast.Assign, ast.AnnAssign, ast.AugAssign)):
        return a.value
    return None


def r08_1(prog: Program, rep):
    m = prog.module(REFS_PY)
    classes = files_backend_classes(prog)
    if len(classes) < 2:
        raise AnalysisError(f"files backend lock users not found in refs.py: {classes}")
    n_regions = 0
    for cname in classes:
        for q, f in m.funcs.items():
            if f.cls != cname or "#" in q or f.qual != f"{cname}.{f.name}":
                continue
            acq_calls = [c for c in ast.walk(f.node) if is_gitfile_call(prog, m, c) and "w" in (gitfile_mode(c) or "")]
            if not acq_calls:
                continue
            g = cfg_of(prog, f)
            rd = reaching_defs(g)
            for ac in acq_calls:
                acq_nodes = g.nodes_containing(ac)
                starts = [b for a in acq_nodes for b, l in g.succ[a] if l not in EXC_LABELS]
                region = reach(g, starts, include_srcs=True)
                n_regions += 1
                stale = []
                checked = 0
                # the handle the lock is bound to (`f = GitFile(..)` / `with GitFile(..) as f`)
                par = m.parents.get(ac)
                hname = None
                if isinstance(par, ast.Assign) and isinstance(par.targets[0], ast.Name):
                    hname = par.targets[0].id
                elif isinstance(par, ast.withitem) and isinstance(par.optional_vars, ast.Name):
                    hname = par.optional_vars.id

                def writes_through_handle(n_):
                    if hname is None:
                        return False
                    for c_ in node_calls(n_):
                        if isinstance(c_.func, ast.Attribute) and isinstance(c_.func.value, ast.Name) and c_.func.value.id == hname \
                                and c_.func.attr.startswith("write"):
                            return True
                        if any(isinstance(a_, ast.Name) and a_.id == hname for a_ in c_.args):
                            return True
                    return False
                for tid in sorted(region):
                    tn = g.nodes[tid]
                    # sinks: tests inside the region, and what is written through the lock handle (read-modify-write: the
                    # read must be inside the region as well)
                    if tn.kind != "test" and not (tn.kind == "stmt" and writes_through_handle(tn)):
                        continue
                    # transitive closure over reaching definitions of the names the test loads
                    seen = set()
                    work = [(tid, x.id) for x in _walk_shallow(tn.ast) if isinstance(x, ast.Name) and isinstance(x.ctx, ast.Load)]
                    while work:
                        at, name = work.pop()
                        for d in rd[at].get(name, ()):
                            if (d, name) in seen:
                                continue
                            seen.add((d, name))
                            dn = g.nodes[d]
                            v = _def_value(dn)
                            if v is None:
                                continue
                            checked += 1
                            rv = _value_read_in(v)
                            if rv is not None and d not in region:
                                stale.append((tid, name, d, rv))
                            for x in _walk_shallow(v):
                                if isinstance(x, ast.Name) and isinstance(x.ctx, ast.Load):
                                    work.append((d, x.id))
                key = f"lock region of {norm(ac, 60)}"
                if not stale:
                    rep.ob("R08.1", REFS_PY, f.qual, key, True, f"{checked} definitions feeding tests checked", ac.lineno)
                else:
                    seen_defs = set()
                    for tid, name, d, rv in stale:
                        if d in seen_defs:
                            continue
                        seen_defs.add(d)
                        dn = g.nodes[d]
                        rep.ob("R08.1", REFS_PY, f.qual, f"stale read: {norm(dn.ast, 70)}", False,
                               f"a value read with {rv} before the lock was taken feeds "
                               f"{'the test' if g.nodes[tid].kind == 'test' else 'what is written by'} "
                               f"`{norm(g.nodes[tid].ast, 60)}` inside the lock region", dn.line,
                               [dn.line, ac.lineno, g.nodes[tid].line])
    rep.count("lock regions (files backend)", n_regions)


def _is_refpath_expr(e: ast.AST) -> bool:
    return isinstance(e, ast.Call) and isinstance(e.func, ast.Attribute) and e.func.attr == "refpath"


def r08_2(prog: Program, rep):
    m = prog.module(REFS_PY)
    for cname in files_backend_classes(prog):
        for q, f in m.funcs.items():
            if f.cls != cname or f.qual != f"{cname}.{f.name}":
                continue
            removals = [c for c in ast.walk(f.node) if isinstance(c, ast.Call)
                        and dotted(c.func) in ("os.remove", "os.unlink", "os.rename", "os.replace") and c.args]
            if not removals:
                continue
            g = cfg_of(prog, f)
            rd = reaching_defs(g)
            for rc in removals:
                nodes = g.nodes_containing(rc)
                arg = rc.args[0]

                def path_src(e, at):
                    """normalised origin of a path expression: the refpath(...) call text, following one def."""
                    if _is_refpath_expr(e):
                        return norm(e)
                    if isinstance(e, ast.Name):
                        outs = set()
                        for d in rd[at].get(e.id, ()):
                            v = _def_value(g.nodes[d])
                            if v is not None and _is_refpath_expr(v):
                                outs.add(norm(v))
                        if len(outs) == 1:
                            return outs.pop()
                    return None
                src = path_src(arg, nodes[0]) if nodes else None
                if src is None:
                    continue   # not a ref path
                # find a dominating acquisition of the same path
                ok = False
                why = ""
                for ac in [c for c in ast.walk(f.node) if is_gitfile_call(prog, m, c) and "w" in (gitfile_mode(c) or "")]:
                    an = g.nodes_containing(ac)
                    if not an:
                        continue
                    asrc = path_src(ac.args[0], an[0]) if ac.args else None
                    if asrc == src and not must_pass(g, nodes, an):
                        ok = True
                # parked handle (locked_ref): the class acquires refpath(self._realname) in __enter__ and the method
                # checks the handle first
                if not ok:
                    enter = m.funcs.get(f"{cname}.__enter__")
                    if enter is not None and f.name != "__enter__":
                        for ac in [c for c in ast.walk(enter.node) if is_gitfile_call(prog, m, c)]:
                            ge = cfg_of(prog, enter)
                            rde = reaching_defs(ge)
                            a0 = ac.args[0]
                            esrc = None
                            if isinstance(a0, ast.Name):
                                for nid in ge.nodes_containing(ac):
                                    for d in rde[nid].get(a0.id, ()):
                                        v = _def_value(ge.nodes[d])
                                        if v is not None and _is_refpath_expr(v):
                                            esrc = norm(v)
                            guard = [i for i, n in g.nodes.items() if n.kind == "test" and dotted(n.ast) == "self._file"]
                            if esrc == src and guard and not must_pass(g, nodes, guard):
                                ok = True
                if not ok:
                    why = "a loose ref file is removed without holding that ref's own lock (a concurrent update of the " \
                          "ref can be deleted without anyone comparing its value)"
                rep.ob("R08.2", REFS_PY, f.qual, f"{norm(rc, 60)} under lock of {src}", ok, why, rc.lineno)
    # packed-refs written only under its lock, cache invalidated on all exits afterwards
    for q, f in m.funcs.items():
        calls = [c for c in ast.walk(f.node) if isinstance(c, ast.Call) and callee_name(c) == "write_packed_refs"]
        if not calls or f.name == "write_packed_refs" or f.cls is None:
            continue
        g = cfg_of(prog, f)
        for wc in calls:
            wn = g.nodes_containing(wc)
            fa = wc.args[0] if wc.args else None
            acqs = []
            for i, n in g.nodes.items():
                for c in node_calls(n):
                    if is_gitfile_call(prog, m, c) and "w" in (gitfile_mode(c) or ""):
                        acqs.append(i)
            locked = bool(acqs) and not must_pass(g, wn, acqs)
            rep.ob("R08.2", REFS_PY, f.qual, "write_packed_refs under packed-refs.lock", locked,
                   "packed-refs is written without the lock", wc.lineno)
            inval = [i for i, n in g.nodes.items() for c in node_calls(n)
                     if callee_name(c) == "_invalidate_packed_refs_cache"]
            starts = [b for a in wn for b, l in g.succ[a]]
            # a raise out of the handle's own abort() (cleanup of the cleanup) is not followed
            aborting = {i for i, n in g.nodes.items() for c in node_calls(n)
                        if isinstance(c.func, ast.Attribute) and c.func.attr == "abort"}
            bad = must_pass(g, [g.exit_normal, g.exit_raise], inval, start=starts,
                            edge_ok=lambda a, b, l: not (a in aborting and l in EXC_LABELS)) if starts else []
            rep.ob("R08.2", REFS_PY, f.qual, "packed-refs cache invalidated after write on all exits", bool(inval) and not bad,
                   "an exit after write_packed_refs is reachable without invalidating the packed-refs cache", wc.lineno)


# --------------------------------------------------------------------------- R08.3

def _is_ref_read(x: ast.AST) -> bool:
    if isinstance(x, ast.Subscript) and isinstance(x.ctx, ast.Load):
        d = dotted(x.value) or ""
        if d.endswith(".refs") or d == "refs":
            return True
    if isinstance(x, ast.Call):
        d = dotted(x.func) or ""
        last = d.split(".")[-1]
        if last == "head" and "." in d:
            return True
        if last in ("read_ref", "read_loose_ref", "get_peeled") and ".refs" in d:
            return True
    return False


def _ref_key(e: ast.AST | None) -> str | None:
    """Which ref an expression names, as far as the text says: 'HEAD' for the HEAD constant, the text of an attribute / call
    expression otherwise, None for a plain variable (may name any ref)."""
    if e is None or isinstance(e, ast.Name) and e.id != "HEADREF":
        return None
    t = norm(e)
    if t in ("HEADREF", "b'HEAD'", "Ref(b'HEAD')", "Ref(HEADREF)"):
        return "HEAD"
    return t


def _read_key(x: ast.AST) -> str | None:
    if isinstance(x, ast.Subscript):
        return _ref_key(x.slice)
    if isinstance(x, ast.Call):
        if (dotted(x.func) or "").split(".")[-1] == "head":
            return "HEAD"
        return _ref_key(x.args[0]) if x.args else None
    return None


class Labels:
    """Read-site labels of an expression, through reaching definitions."""

    def __init__(self, g, rd):
        self.g, self.rd = g, rd
        self.memo = {}

    def of(self, e: ast.AST, at: int, depth=0) -> frozenset:
        out = set()
        for x in _walk_shallow(e):
            if _is_ref_read(x):
                out.add(x)
        if depth > 12:
            return frozenset(out)
        for x in _walk_shallow(e):
            if isinstance(x, ast.Name) and isinstance(x.ctx, ast.Load):
                for d in self.rd[at].get(x.id, ()):
                    key = (d, x.id)
                    if key in self.memo:
                        out |= self.memo[key]
                        continue
                    self.memo[key] = frozenset()
                    v = _def_value(self.g.nodes[d])
                    if v is not None:
                        self.memo[key] = self.of(v, d, depth + 1)
                        out |= self.memo[key]
        return frozenset(out)


def r08_3(prog: Program, rep):
    n_funcs = 0
    for s in cas_sites(prog):
        if s.method != "set_if_equals" or not s.conditional or s.func is None:
            continue
        f = s.func
        if f.cls and f.cls in prog.subclasses("RefsContainer"):
            continue
        # ancestry sites in the same function
        anc = []
        for x in ast.walk(f.node):
            if isinstance(x, ast.Assign) and any(isinstance(t, ast.Attribute) and t.attr == "parents" for t in x.targets):
                anc.append((x, x.value, "parents store"))
            if isinstance(x, ast.Call):
                for k in x.keywords:
                    if k.arg in ("merge_heads", "parents") and not is_none(k.value):
                        anc.append((x, k.value, f"{k.arg}= argument"))
        if not anc:
            continue
        g = cfg_of(prog, f)
        rd = reaching_defs(g)
        L = Labels(g, rd)
        cas_nodes = g.nodes_containing(s.call)
        if not cas_nodes:
            continue
        le = L.of(s.old, cas_nodes[0])
        n_funcs += 1
        bad = None
        compared = 0
        for stmt, val, what in anc:
            for an in g.nodes_containing(stmt):
                if cas_nodes[0] not in reach(g, [an]):
                    continue
                la = L.of(val, an)
                # only reads of the ref that the compare-and-swap updates matter: parents taken from ANOTHER ref (the stash commit's
                # first parent is HEAD, the ref updated is refs/stash) cannot lose an update of this one
                ck = _ref_key(arg_of(s.call, 0, "name"))
                la = frozenset(x for x in la if ck is None or _read_key(x) is None or _read_key(x) == ck)
                if not la:
                    continue
                compared += 1
                if not (la & le):
                    bad = (stmt, what, la, le)
        key = f"{s.key}: expected-old and ancestry from one read"
        if bad:
            stmt, what, la, le = bad
            rep.ob("R08.3", f.module.rel, f.qual, key, False,
                   f"the new object's ancestry ({what} at line {stmt.lineno}) comes from the read(s) at line(s) "
                   f"{sorted(x.lineno for x in la)} but the compare-and-swap expects the value read at line(s) "
                   f"{sorted(x.lineno for x in le)}: a commit landing between the two reads is silently dropped from history",
                   s.call.lineno, sorted({x.lineno for x in la} | {x.lineno for x in le} | {s.call.lineno}))
        else:
            rep.ob("R08.3", f.module.rel, f.qual, key, True, f"{compared} ancestry site(s) share the CAS's read", s.call.lineno)
    rep.count("commit-like functions (CAS + ancestry)", n_funcs)


def r08_4(prog: Program, rep):
    sites = cas_sites(prog)
    rep.count("CAS call sites (package)", len(sites))
    for s in sites:
        if s.func is None:
            continue
        if s.method == "add_if_new":
            # unused result = "only if absent" (documented idiom) - except where the call is the create-branch twin of a
            # checked compare-and-swap in the same function (commit on an unborn branch): siblings must agree, the loser
            # of a creation race must be told
            twins = [t for t in sites if t.func is s.func and t.method == "set_if_equals" and t.conditional and not result_dropped(t)]
            if twins:
                rep.ob("R08.4", s.func.module.rel, s.func.qual, s.key + " (create-branch twin of a checked set_if_equals)", not result_dropped(s),
                       "the same function checks the result of set_if_equals but drops the result of add_if_new on the "
                       "unborn-branch path: the loser of a creation race is told its commit succeeded", s.call.lineno)
            continue
        if not s.conditional:
            rep.count("unconditional CAS calls (old_ref=None)")
            continue
        f = s.func
        if f.module.rel in ("dulwich/server.py",) or (f.module.rel == "dulwich/client.py" and "send_pack" in f.qual):
            continue       # push-serving sites belong to C06 (R06.1)
        rep.ob("R08.4", f.module.rel, f.qual, s.key, not result_dropped(s),
               "a conditional compare-and-swap is called with an expected value and its result is dropped: the loser "
               "of a race is told it succeeded", s.call.lineno)


def r08_9(prog: Program, rep):
    """locked_ref (the public compare-and-update primitive): the lock file is COMMITTED (close) only on a path where something
    was written to it.  In __exit__ the close() is guarded by a flag attribute that is set True only in the writing methods
    (those that call .write on the lock handle); leaving the context after a failed ensure_equals() must abort, or the
    still empty lock file replaces the ref."""
    m = prog.module("dulwich/refs.py")
    ex = m.funcs.get("locked_ref.__exit__")
    if ex is None:
        raise AnalysisError("refs.locked_ref.__exit__ not found")
    writers = [fn for q, fn in m.funcs.items() if q.startswith("locked_ref.") and any(
        isinstance(c, ast.Call) and isinstance(c.func, ast.Attribute) and c.func.attr == "write" and "self._" in norm(c.func.value) for c in ast.walk(fn.node))]
    if not writers:
        raise AnalysisError("locked_ref: no method writes to the lock handle")
    set_true = None
    for w in writers:
        st = {norm(s_.targets[0]) for s_ in ast.walk(w.node) if isinstance(s_, ast.Assign) and norm(s_.targets[0]).startswith("self._")
              and isinstance(s_.value, ast.Constant) and s_.value.value is True}
        set_true = st if set_true is None else (set_true & st)
    others = {norm(s_.targets[0]) for q, fn in m.funcs.items() if q.startswith("locked_ref.") and fn not in writers and not q.endswith("__init__")
              for s_ in ast.walk(fn.node) if isinstance(s_, ast.Assign) and isinstance(s_.value, ast.Constant) and s_.value.value is True}
    flags = (set_true or set()) - others
    g = cfg_of(prog, ex)
    closes = [i for i, n in g.nodes.items() for c in node_calls(n) if isinstance(c.func, ast.Attribute) and c.func.attr == "close"]
    if not closes:
        raise AnalysisError("locked_ref.__exit__: close() of the lock handle not found")
    # cut the edges on which a written-flag is true: close() must then be unreachable
    def flag_true_label(t):
        txt = norm(t)
        for fl in flags:
            if txt == fl:
                return "true"
            if txt == f"not {fl}":
                return "false"
        return None
    tests = {i: flag_true_label(n.ast) for i, n in g.nodes.items() if n.kind == "test" and flag_true_label(n.ast)}
    r = reach(g, [g.entry], include_srcs=True, edge_ok=lambda a, b, l: not (a in tests and l == tests[a]))
    leak = [c for c in closes if c in r]
    rep.ob("R08.9", m.rel, ex.qual, "the lock file is committed only when a writing method has run (a flag set only by set()/set_symbolic_ref())",
           bool(flags) and bool(tests) and not leak,
           "leaving `with locked_ref(..)` without a write - e.g. after ensure_equals() said no - renames the still EMPTY lock file over the ref: the ref that did not "
           "match and had to be left untouched is destroyed", g.nodes[closes[0]].line)


def r08_10(prog: Program, rep):
    """Deleting a ref holds packed-refs.lock for the DECISION, not only for the rewrite: the test whether the name is packed is made
    (again) under the lock.  A test made before the lock lets a concurrent pack_refs write the still-current value into packed-refs
    between the test and the removal of the loose file - the deleted ref comes back."""
    m = prog.module("dulwich/refs.py")
    f = m.funcs.get("DiskRefsContainer._remove_packed_ref")
    if f is None:
        raise AnalysisError("DiskRefsContainer._remove_packed_ref not found")
    g = cfg_of(prog, f)
    acq = [i for i, n in g.nodes.items() for c in node_calls(n) if callee_name(c) == "GitFile"]
    if not acq:
        raise AnalysisError("_remove_packed_ref: acquisition of packed-refs.lock not found")
    early = [i for i, n in g.nodes.items() if n.kind == "stmt" and isinstance(n.ast, ast.Return)]
    r = reach(g, [g.entry], avoid=set(acq), include_srcs=True)
    unlocked_returns = [i for i in early if i in r]
    rep.ob("R08.10", m.rel, f.qual, "no 'not packed, nothing to do' decision is taken before packed-refs.lock is held", not unlocked_returns,
           "`if name not in self.get_packed_refs(): return` runs without the lock: for a loose-only ref the deleter never takes packed-refs.lock, and a pack_refs "
           "running between this test and the removal of the loose file writes the value into packed-refs - remove_if_equals returns True and the ref survives",
           g.nodes[unlocked_returns[0]].line if unlocked_returns else f.node.lineno)


def run(prog: Program, rep, tier="quick"):
    rep.rule("R08.10", "the 'is it packed' decision of a ref deletion is taken under packed-refs.lock")
    rep.rule("R08.9", "locked_ref commits its lock file only when something was written (no empty file over the ref after a failed comparison)")
    rep.rule("R08.1", "DEF-INSIDE: ref values feeding a test inside a ref's lock region are read inside that region")
    rep.rule("R08.2", "loose ref files are removed only under that ref's own lock; packed-refs is written under its lock "
                      "and the cache invalidated on all exits")
    rep.rule("R08.3", "SAME-DEF: expected-old value of the CAS and the new commit's ancestry come from one read of the ref")
    rep.rule("R08.4", "RESULT-USED: no conditional set_if_equals/remove_if_equals result is dropped (package wide)")
    rep.not_decided += ["linearizability over schedules", "retargeting of a symbolic ref between follow() and the lock",
                        "torn reads (that is rename atomicity, C07)"]
    rep.assumptions += ["ref value reads are: read_loose_ref, get_packed_refs, read_ref, self[...], os.path.exists of a ref path",
                        "names resolved by follow() before the lock are not constrained (as in git)"]
    r08_1(prog, rep)
    r08_2(prog, rep)
    r08_3(prog, rep)
    r08_9(prog, rep)
    r08_10(prog, rep)
    r08_4(prog, rep)
    # R08.5: the per-process packed-refs cache that the conditional operations re-read under the lock is keyed to the
    # file it was actually parsed from (same engine as R14.4)
    from rules import c14
    before = len(rep.obs)
    c14.r14_4(prog, rep)
    for o in rep.obs[before:]:
        o.rule = "R08.5"
    rep.rule("R08.5", "packed-refs cache: identity compared before use, recorded from the open file (fstat), read only through its accessor")
    from sa.common import share
    from rules import c07
    share(rep, lambda: c07.r07_1(prog, rep), "R08.6", lambda o: o.rule in ("R07.1a", "R07.1c", "R07.1d", "R07.1g"),
          "the lock every conditional ref update relies on (shared with R07.1): exclusive acquisition, a failed acquisition unlinks nothing, "
          "no unlink after the rename, ownership flag agrees - otherwise two writers end up inside one ref's lock")
    from rules import c09, c10
    share(rep, lambda: c09.r09_5(prog, rep), "R08.7", lambda o: True,
          "a ref is stored somewhere at every instant (shared with R09.5): loose refs go only after the new packed-refs is committed, the packed "
          "entry goes before the loose file on delete - otherwise a concurrent reader or add_if_new sees the ref absent")
    share(rep, lambda: c10.r10_8(prog, rep), "R08.8", lambda o: True,
          "refs are read loose first, packed second (shared with R10.8): the order in which pack_refs moves them, so no interleaving hides a ref")
    from sa.common import alias_guard
    alias_guard(prog, rep, "R08.4", {"set_if_equals", "remove_if_equals", "add_if_new"})
    rep.floor("R08.5", 5)
    rep.floor("R08.1", 7)
    rep.floor("R08.2", 5)
    rep.floor("R08.3", 3)
    rep.floor("R08.4", 8)
