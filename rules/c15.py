"""C15 — Rust extensions vs pure-Python fallbacks: interface agreement and panic freedom.

R15.1 substitution table: every import-time substitution pairs a Python def with a Rust #[pyfunction] that the
      crate's #[pymodule] registers.
R15.2 every in-repo call of a dual function binds under both signatures.
R15.3 no panic / unbounded allocation on input-derived data in any of the three crates (= R03.3 + R03.4).
R15.4 shared constants agree (copy limit, S_IFDIR/S_IFMT in both crates, hash lengths, block size source).
"""
from __future__ import annotations

import ast
import os
import re
import stat as pystat

from sa.load import AnalysisError, Program, callee_name, dotted, norm
from sa.rust import RustFile
from rules import c03

DUAL_MODULES = {"dulwich/objects.py": ("dulwich._objects", "crates/objects/src/lib.rs"),
                "dulwich/pack.py": ("dulwich._pack", "crates/pack/src/lib.rs"),
                "dulwich/diff_tree.py": ("dulwich._diff_tree", "crates/diff-tree/src/lib.rs")}


def substitutions(prog: Program):
    """[(python module rel, public name, rust fn name, rust file rel)] discovered from `from dulwich._x import n [as a]`
    inside try blocks plus the assignments that rebind the public name."""
    out = []
    for rel, (ext, rrel) in DUAL_MODULES.items():
        m = prog.module(rel)
        imported = {}        # local alias -> rust name
        for n in ast.walk(m.tree):
            if isinstance(n, ast.ImportFrom) and n.module == ext:
                for a in n.names:
                    imported[a.asname or a.name] = a.name
        if not imported:
            raise AnalysisError(f"{rel}: no import from {ext} found")
        # public name each alias ends up bound to
        for alias, rname in imported.items():
            public = None
            if alias == rname:
                public = rname          # imported under its own name: replaces the def directly
            for s in ast.walk(m.tree):
                if isinstance(s, ast.Assign) and isinstance(s.value, ast.Name) and s.value.id == alias and isinstance(s.targets[0], ast.Name):
                    public = s.targets[0].id
            # wrapper: def w(...): yield alias(...) ; name = w
            if public is None:
                for q, f in m.funcs.items():
                    if any(isinstance(c, ast.Call) and isinstance(c.func, ast.Name) and c.func.id == alias for c in ast.walk(f.node)):
                        for s in ast.walk(m.tree):
                            if isinstance(s, ast.Assign) and isinstance(s.value, ast.Name) and s.value.id == f.name and isinstance(s.targets[0], ast.Name):
                                public = s.targets[0].id
            out.append((rel, public, rname, rrel, alias))
    return out


def bind(call: ast.Call, names: list[str], required: int, kwonly: set[str] = frozenset(), has_var=False, has_kw=False):
    """Can `call` bind to a signature with positional-or-keyword `names` (first `required` without default)?"""
    if any(isinstance(a, ast.Starred) for a in call.args) or any(k.arg is None for k in call.keywords):
        return True, "dynamic"
    npos = len(call.args)
    pos_names = [n for n in names if n not in kwonly]
    if npos > len(pos_names) and not has_var:
        return False, f"{npos} positional arguments, signature takes {len(pos_names)}"
    bound = set(pos_names[:npos])
    for k in call.keywords:
        if k.arg in bound:
            return False, f"{k.arg} given twice"
        if k.arg not in names and not has_kw:
            return False, f"unknown keyword {k.arg}"
        bound.add(k.arg)
    missing = [n for n in names[:required] if n not in bound]
    if missing:
        return False, f"missing {missing}"
    return True, ""


def _py_rejections(fn_node) -> list[list[str]]:
    """For each `raise` of a function: the sorted local names the decision depends on."""
    parents = {}
    for n in ast.walk(fn_node):
        for c in ast.iter_child_nodes(n):
            parents[c] = n
    a = fn_node.args
    # explaining variables: a local bound exactly once, by a plain assignment, stands for the names of its defining expression
    # (`insert_end = index + cmd; if insert_end > delta_length` rejects on index, cmd and delta_length)
    bind_count: dict[str, int] = {}
    single: dict[str, set[str]] = {}
    for x in ast.walk(fn_node):
        if isinstance(x, ast.Name) and isinstance(x.ctx, ast.Store):
            bind_count[x.id] = bind_count.get(x.id, 0) + 1
    for x in ast.walk(fn_node):
        if isinstance(x, ast.Assign) and len(x.targets) == 1 and isinstance(x.targets[0], ast.Name) and bind_count.get(x.targets[0].id) == 1 \
                and not any(isinstance(y, (ast.Call, ast.Subscript, ast.Attribute, ast.Await, ast.Yield)) for y in ast.walk(x.value)):
            single[x.targets[0].id] = {y.id for y in ast.walk(x.value) if isinstance(y, ast.Name)}

    def expand(names: set[str]) -> set[str]:
        for _ in range(8):
            nxt = set()
            for nm in names:
                nxt |= single.get(nm, {nm}) or {nm}
            if nxt == names:
                break
            names = nxt
        return names
    out = []
    for r in ast.walk(fn_node):
        if not isinstance(r, ast.Raise):
            continue
        n = r
        subj = None
        while n in parents:
            p = parents[n]
            if isinstance(p, ast.If) and (n in p.body or n in p.orelse):
                subj = {x.id for x in ast.walk(p.test) if isinstance(x, ast.Name)}
                break
            if isinstance(p, ast.ExceptHandler):
                t = parents.get(p)
                if isinstance(t, ast.Try):
                    subj = {x.id for s_ in t.body for x in ast.walk(s_) if isinstance(x, ast.Name) and isinstance(x.ctx, ast.Load)}
                break
            if isinstance(p, (ast.FunctionDef, ast.AsyncFunctionDef)):
                break
            n = p
        if subj is None:
            subj = {"<unconditional>"}
        subj = expand(set(subj))
        # builtins and module-level helpers are not subjects
        subj = {x for x in subj if not x[0].isupper() and x not in ("int", "len", "isinstance", "bytes", "str", "ord", "type", "min", "max")}
        out.append(sorted(subj))
    return sorted(out)


def twin_table(duals) -> dict:
    out = {}
    for (rel, public), (pydef, rfn, rrel) in duals.items():
        t = rfn.text()
        out[f"{rel}::{public}"] = {"python": _py_rejections(pydef.node), "rust_errors": t.count("new_err")}
    return out


def run(prog: Program, rep, tier="quick"):
    rep.rule("R15.7", "SIBLINGS-AGREE: binary search range convention of bisect_find_sha; Tree entries are tuples (what the Rust twin accepts)")
    rep.rule("R15.5", "SIBLINGS-AGREE through time: the twins reject on the subjects confirmed in rules/c15_twins.json (validation drift)")
    rep.rule("R15.1", "substitution table: Python def <-> registered Rust #[pyfunction] for every import-time substitution")
    rep.rule("R15.2", "every in-repo call of a dual function binds under the Python and the Rust signature")
    rep.rule("R15.3", "no unwrap on extracted input / unbounded shift / i32 midpoint / header-sized allocation in the crates")
    rep.rule("R15.4", "TABLE-AGREE: constants shared by the two implementations")
    rep.not_decided += ["equality of results over all inputs", "leniency of int(x, 8) vs from_str_radix",
                        "exception classes (the statement accepts failure in both, whatever the class)"]
    rfs = c03.rust_files(prog)
    subs = substitutions(prog)
    rep.count("import-time substitutions", len(subs))
    if len(subs) < 8:
        raise AnalysisError(f"expected >= 8 substitutions, found {len(subs)}")
    duals = {}
    for rel, public, rname, rrel, alias in subs:
        rf = rfs[rrel]
        m = prog.module(rel)
        rfn = rf.fns.get(rname)
        ok = rfn is not None and rfn.is_pyfunction
        rep.ob("R15.1", rrel, rname, f"Rust {rname} exists and is a #[pyfunction]", ok, "", rfn.line if rfn else 0)
        registered = any(f"wrap_pyfunction ! ( {rname} , m )" in f.text() for f in rf.fns.values() if any(a.startswith("pymodule") for a in f.attrs))
        rep.ob("R15.1", rrel, rname, f"Rust {rname} is registered in the #[pymodule]", registered, "", rfn.line if rfn else 0)
        rep.ob("R15.1", rel, public or alias, f"substitution of {rname} rebinds a public name", public is not None,
               f"alias {alias} is imported but never bound to a name the package calls", 0)
        if public is None or rfn is None:
            continue
        # the python twin: the def that the public name had before substitution
        pydef = None
        for cand in (public, "_" + public + "_py", public.lstrip("_") , "_create_delta_py" if public == "create_delta" else None):
            if cand and cand in m.funcs:
                pydef = m.funcs[cand]
                break
        rep.ob("R15.1", rel, public, f"Python twin of {rname} exists", pydef is not None, "", pydef.node.lineno if pydef else 0)
        if pydef is not None:
            duals[(rel, public)] = (pydef, rfn, rrel)
    # ---- R15.5 validation drift between twins: which inputs each side REJECTS is part of "same result or both fail".
    # Per Python twin: the set of local names each explicit rejection depends on (the test guarding the raise, or the try
    # body whose failure is converted); per Rust twin: the number of error constructions.  The confirmed table is the
    # reference (rules/c15_twins.json, regenerate with tools/gen_c15_twins.py after confirming a change on both sides).
    import json as _json
    tw_path = os.path.join(os.path.dirname(os.path.abspath(__file__)), "c15_twins.json")
    try:
        with open(tw_path) as fh:
            frozen = _json.load(fh)
    except OSError:
        frozen = None
    current = twin_table(duals)
    if os.environ.get("VERIF_C15_DUMP"):
        with open(os.environ["VERIF_C15_DUMP"], "w") as fh:
            _json.dump(current, fh, indent=1, sort_keys=True)
    if frozen is None:
        raise AnalysisError("rules/c15_twins.json (confirmed validation table of the twins) is missing")
    for key, cur in sorted(current.items()):
        ref = frozen.get(key)
        if ref is None:
            rep.note(f"R15.5: no confirmed validation table for {key}")
            continue
        pydef, rfn, rrel = duals[tuple(key.split("::"))]
        new_py = [x for x in cur["python"] if x not in ref["python"]]
        gone_py = [x for x in ref["python"] if x not in cur["python"]]
        rep.ob("R15.5", pydef.module.rel, pydef.qual, "the Python twin rejects on the same subjects as when it was confirmed against the Rust twin",
               not new_py and not gone_py,
               (f"new rejection depending on {new_py}" if new_py else f"rejection depending on {gone_py} is gone") +
               ": one side now refuses (or accepts) inputs the other side does not", pydef.node.lineno)
        rep.ob("R15.5", rrel, rfn.name, "the Rust twin constructs the same number of errors as when it was confirmed against the Python twin",
               cur["rust_errors"] == ref["rust_errors"], f"{cur['rust_errors']} error sites, confirmed {ref['rust_errors']}", rfn.line)
    # ---- R15.6 the delta encoders are twins as well: their constants, splitting loops and varint form agree (shared with R03.5)
    from sa.common import share
    share(rep, lambda: c03.run(prog, rep, tier), "R15.6", lambda o: o.rule in ("R03.5", "R03.8"),
          "TABLE-AGREE between the Python and the Rust delta encoder (shared with R03.5): copy limit, insert cap, split loops, op layout, size varint")
    # ---- R15.7 the binary search twins treat their range the same way (inclusive `start..end`, both bounds step past the probe),
    # and Tree stores its entries as real tuples (the Rust sorted_tree_items refuses any other 2-sequence)
    pm_ = prog.module("dulwich/pack.py")
    bs = pm_.funcs.get("bisect_find_sha") or pm_.funcs.get("_bisect_find_sha_py")
    if bs is None:
        raise AnalysisError("pack.bisect_find_sha (Python twin) not found")
    wl_ = [w_ for w_ in ast.walk(bs.node) if isinstance(w_, ast.While)]
    incl = len(wl_) == 1 and isinstance(wl_[0].test, ast.Compare) and isinstance(wl_[0].test.ops[0], ast.LtE) and norm(wl_[0].test).replace(" ", "") == "start<=end"
    upd_ = sorted(norm(x) for x in ast.walk(bs.node) if isinstance(x, (ast.Assign, ast.AugAssign)) and norm(x.targets[0] if isinstance(x, ast.Assign) else x.target) in ("start", "end"))
    rs_b = rfs["crates/pack/src/lib.rs"].fns.get("bisect_find_sha")
    rt = rs_b.text() if rs_b else ""
    rs_incl = ("if start > end { break ; }" in rt) or ("while start <= end" in rt)
    rs_upd = "start = i + 1 ;" in rt and "end = i - 1 ;" in rt
    rep.ob("R15.7", pm_.rel, bs.qual, "binary search over the inclusive range start..end, stepping to i + 1 / i - 1, in both implementations",
           incl and upd_ == ["end = i - 1", "start = i + 1"] and rs_incl and rs_upd,
           f"python: loop `{norm(wl_[0].test) if wl_ else '?'}`, updates {upd_}; rust inclusive {rs_incl}, updates +-1 {rs_upd}: a probe whose match sits at "
           f"index `end` is found by one implementation and missed by the other", bs.node.lineno)
    om = prog.module("dulwich/objects.py")
    stores_ = [x for q_, f_ in om.funcs.items() if f_.cls == "Tree" for x in ast.walk(f_.node) if isinstance(x, ast.Assign) and isinstance(x.targets[0], ast.Subscript)
               and norm(x.targets[0].value) == "self._entries"]
    bad_ = [x for x in stores_ if not (isinstance(x.value, ast.Tuple) or (isinstance(x.value, ast.Call) and callee_name(x.value) in ("tuple", "TreeEntry")))]
    rep.ob("R15.7", om.rel, "Tree", "entries are stored in Tree._entries as real tuples", bool(stores_) and not bad_,
           f"`{norm(bad_[0], 60)}` stores whatever the caller passed: with a list value the pure-Python sorted_tree_items works and the Rust one raises "
           f"TypeError" if bad_ else "", bad_[0].lineno if bad_ else 0)
    # ---- R15.2
    n_calls = 0
    for (rel, public), (pydef, rfn, rrel) in sorted(duals.items()):
        a = pydef.node.args
        py_names = [x.arg for x in a.posonlyargs + a.args] + [x.arg for x in a.kwonlyargs]
        n_def = len(a.defaults)
        py_required = len(a.posonlyargs + a.args) - n_def
        kwonly = {x.arg for x in a.kwonlyargs}
        rs = rfn.py_params()
        rs_names = [n for n, _ in rs]
        rs_required = sum(1 for _, d in rs if not d)
        wrapped = public == "create_delta"      # the wrapper keeps the Python signature
        for mod in prog.modules.values():
            for c in ast.walk(mod.tree):
                if not isinstance(c, ast.Call):
                    continue
                d = dotted(c.func)
                if d is None or d.split(".")[-1] != public:
                    continue
                if isinstance(c.func, ast.Attribute) and not (dotted(c.func.value) or "").endswith(rel[8:-3]):
                    continue        # a method with the same name on some object
                if isinstance(c.func, ast.Name) and mod.rel != rel:
                    origin = mod.imports.get(public, "")
                    modname = rel[8:-3].replace("/", ".")
                    if not (origin.endswith(f"{modname}.{public}")):
                        continue        # not imported from the dual module (e.g. objectspec.parse_tree)
                if isinstance(c.func, ast.Name) and mod.rel == rel:
                    # a local redefinition / parameter of the same name shadows the module-level function
                    f_ = mod.enclosing_func(c)
                    if f_ is not None and public in [a_.arg for a_ in f_.node.args.args + f_.node.args.kwonlyargs]:
                        continue
                n_calls += 1
                ok1, why1 = bind(c, py_names, py_required, kwonly, a.vararg is not None, a.kwarg is not None)
                ok2, why2 = (True, "") if wrapped else bind(c, rs_names, rs_required)
                f = mod.enclosing_func(c)
                rep.ob("R15.2", mod.rel, f.qual if f else "<module>", f"{norm(c, 70)} binds under both signatures", ok1 and ok2,
                       f"python: {why1 or 'ok'}; rust: {why2 or 'ok'} - the call works with one implementation only", c.lineno)
    rep.count("call sites of dual functions", n_calls)
    if n_calls < 10:
        raise AnalysisError(f"expected >= 10 call sites of dual functions, found {n_calls}")
    # ---- R15.3
    c03.r03_3(prog, rep, rule="R15.3")
    c03.r03_4(prog, rep, rule="R15.3")
    # ---- R15.4
    for rrel in ("crates/objects/src/lib.rs", "crates/diff-tree/src/lib.rs"):
        rf = rfs[rrel]
        rep.ob("R15.4", rrel, "S_IFDIR", "equals stat.S_IFDIR", rf.const_int("S_IFDIR") == pystat.S_IFDIR, oct(rf.const_int("S_IFDIR")), rf.consts["S_IFDIR"][2])
        rep.ob("R15.4", rrel, "S_IFMT", "equals the stat type mask 0o170000", rf.const_int("S_IFMT") == 0o170000, oct(rf.const_int("S_IFMT")), rf.consts["S_IFMT"][2])
    it = rfs["crates/diff-tree/src/lib.rs"].fns["_is_tree"].text()
    py_it = norm(prog.module("dulwich/diff_tree.py").funcs["_is_tree"].node, 10000)
    rep.ob("R15.4", "crates/diff-tree/src/lib.rs", "_is_tree", "directory test is (mode & S_IFMT) == S_IFDIR vs stat.S_ISDIR",
           "( lmode & S_IFMT ) == S_IFDIR" in it and "stat.S_ISDIR(entry.mode)" in py_it, "", rfs["crates/diff-tree/src/lib.rs"].fns["_is_tree"].line)
    cb = rfs["crates/diff-tree/src/lib.rs"].fns["_count_blocks"].text()
    rep.ob("R15.4", "crates/diff-tree/src/lib.rs", "_count_blocks", "block size is read from the Python module constant (one source)",
           'getattr ( "_BLOCK_SIZE" )' in cb, "", rfs["crates/diff-tree/src/lib.rs"].fns["_count_blocks"].line)
    py_cb = norm(prog.module("dulwich/diff_tree.py").funcs["_count_blocks"].node, 10000)
    rep.ob("R15.4", "dulwich/diff_tree.py", "_count_blocks", "both split on newline or a full block",
           "_BLOCK_SIZE" in py_cb and ("b'\\n'" in py_cb or "10" in py_cb) and "b'\\n'" in cb, "", 0)
    bs = rfs["crates/pack/src/lib.rs"].fns["bisect_find_sha"].text()
    rep.ob("R15.4", "crates/pack/src/lib.rs", "bisect_find_sha", "accepted hash lengths are 20 and 32", "sha_len != 20 && sha_len != 32" in bs, "", 0)
    pt = rfs["crates/objects/src/lib.rs"].fns["parse_tree"].text()
    rep.ob("R15.4", "crates/objects/src/lib.rs", "parse_tree", "modes are parsed base 8 in both implementations",
           "from_str_radix ( text_str . as_str ( ) , 8 )" in pt and any(
               isinstance(c, ast.Call) and isinstance(c.func, ast.Name) and c.func.id == "int" and len(c.args) == 2 and isinstance(c.args[1], ast.Constant) and c.args[1].value == 8
               for c in ast.walk(prog.module("dulwich/objects.py").funcs["parse_tree"].node)), "", 0)
    # and the Python side admits only what from_str_radix admits: octal digits (after at most one '+'), within 32 bits
    ptn = prog.module("dulwich/objects.py").funcs["parse_tree"].node
    digits_only = any(isinstance(c, ast.Call) and isinstance(c.func, ast.Attribute) and c.func.attr == "strip" and c.args and isinstance(c.args[0], ast.Constant)
                      and c.args[0].value == b"01234567" for c in ast.walk(ptn)) or any(
        isinstance(c, ast.Call) and isinstance(c.func, ast.Attribute) and c.func.attr in ("isdigit", "fullmatch", "match", "issuperset") for c in ast.walk(ptn))
    bound = any(isinstance(c, ast.Compare) and any(isinstance(k, ast.Constant) and k.value in (0xFFFFFFFF, 1 << 32) for k in ast.walk(c)) for c in ast.walk(ptn))
    rep.ob("R15.4", "dulwich/objects.py", "parse_tree", "the Python mode parser admits octal digits only, within 32 bits (what u32::from_str_radix admits)", digits_only and bound,
           "int(text, 8) alone also accepts a minus sign, '_', surrounding whitespace, '0o' and values above 32 bits: such a tree parses without the extension "
           "and raises ObjectFormatException with it", ptn.lineno)
    from sa.common import chunk_boundary_rule
    rep.rule("R15.8", "CHUNKING: loops over an object's chunk list apply only operations that commute with concatenation (the twins chunk "
                      "the output of apply_delta differently)")
    chunk_boundary_rule(rep, "R15.8", prog.module("dulwich/objects.py"), floor=3)
    rep.floor("R15.1", 24)
    rep.floor("R15.2", 10)
    rep.floor("R15.3", 8)
    rep.floor("R15.4", 8)
