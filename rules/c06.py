"""C06 — a push reports success exactly for the refs it changed; server refs stay valid.

R06.1 RESULT-USED: the result of every conditional set_if_equals/remove_if_equals in a push-serving function
      reaches a branch / return.
R06.2 a success status is emitted only where the compare-and-swap succeeded: from the failure edge (and the
      exception edge) of each CAS, every path to the status emission passes a failure-status definition.
R06.3 a ref value received from the wire is never written unless a membership test in the object store
      dominates the write (server side).
R06.4 atomic: the atomic flag/capability is honoured; before the first mutation every commanded ref's current
      value is read with a ref-state read and compared.
"""
from __future__ import annotations

import ast

from sa.cas import cas_sites, result_dropped, CasSite
from sa.cfg import EXC_LABELS, node_calls, node_exprs, _walk_shallow
from sa.common import cfg_of
from sa.flow import lines, must_pass, path, reach, reaching_defs
from sa.load import AnalysisError, Program, arg_of, callee_name, dotted, is_none, norm

REF_VALUE_READS = {"read_loose_ref", "read_ref", "get_packed_refs", "__getitem__", "follow", "get_symrefs"}


def push_serving_functions(prog: Program):
    """Role: functions that perform CAS calls and produce per-ref status (yielded (ref, status) tuples or a
    mapping passed as ``ref_status=``)."""
    sites = cas_sites(prog)
    by_func = {}
    for s in sites:
        if s.func is not None:
            by_func.setdefault(s.func, []).append(s)
    out = []
    for f, ss in by_func.items():
        yields_tuples = any(isinstance(n, ast.Yield) and isinstance(n.value, ast.Tuple) and len(n.value.elts) == 2
                            for n in ast.walk(f.node))
        status_kw = [k.value for c in ast.walk(f.node) if isinstance(c, ast.Call) for k in c.keywords
                     if k.arg == "ref_status" and isinstance(k.value, ast.Name)]
        if yields_tuples:
            out.append((f, ss, "yield", None))
        elif status_kw:
            out.append((f, ss, "map", status_kw[0].id))
    return out


def _is_ok_const(e):
    return isinstance(e, ast.Constant) and e.value in (b"ok", "ok", None)


def _failure_emissions(g, kind, status_var):
    """Nodes that define a failure status."""
    out = set()
    for i, n in g.nodes.items():
        for e in node_exprs(n):
            if isinstance(e, ast.Raise):
                out.add(i)
            if kind == "yield":
                if isinstance(e, ast.Assign) and any(isinstance(t, ast.Name) and t.id == status_var for t in e.targets) \
                        and not _is_ok_const(e.value):
                    out.add(i)
                for y in _walk_shallow(e):
                    if isinstance(y, ast.Yield) and isinstance(y.value, ast.Tuple) and len(y.value.elts) == 2:
                        v = y.value.elts[1]
                        if isinstance(v, ast.Constant) and not _is_ok_const(v):
                            out.add(i)
            else:
                if isinstance(e, ast.Assign) and any(
                        isinstance(t, ast.Subscript) and isinstance(t.value, ast.Name) and t.value.id == status_var
                        for t in e.targets) and not _is_ok_const(e.value):
                    out.add(i)
    return out


def _ok_emissions(g, kind, status_var):
    """Nodes at which a per-ref status becomes final: yield of (ref, status_var) / loop head / exit."""
    out = set()
    for i, n in g.nodes.items():
        if kind == "yield":
            for e in node_exprs(n):
                for y in _walk_shallow(e):
                    if isinstance(y, ast.Yield) and isinstance(y.value, ast.Tuple) and len(y.value.elts) == 2:
                        v = y.value.elts[1]
                        if (isinstance(v, ast.Name) and v.id == status_var) or _is_ok_const(v):
                            out.add(i)
    return out


def _status_var(f, kind, map_name):
    if kind == "map":
        return map_name
    names = {}
    for y in ast.walk(f.node):
        if isinstance(y, ast.Yield) and isinstance(y.value, ast.Tuple) and len(y.value.elts) == 2 \
                and isinstance(y.value.elts[1], ast.Name):
            names[y.value.elts[1].id] = names.get(y.value.elts[1].id, 0) + 1
    if not names:
        raise AnalysisError(f"{f.where}: cannot find the status variable in yielded tuples")
    return max(names, key=names.get)


def _cas_outcome_edges(g, site: CasSite):
    """(failure_targets, exception_targets, how) for a CAS call inside ``g``."""
    nodes = g.nodes_containing(site.call)
    fail, exc = set(), set()
    how = None
    rd = None
    for nid in nodes:
        n = g.nodes[nid]
        for b, l in g.succ[nid]:
            if l in EXC_LABELS:
                exc.add(b)
        if n.kind == "test" and n.ast is site.call:
            how = "test"
            for b, l in g.succ[nid]:
                if l == "false":
                    fail.add(b)
        elif n.kind == "stmt" and isinstance(n.ast, (ast.Assign, ast.AnnAssign)) and n.ast.value is site.call:
            tgt = n.ast.targets[0] if isinstance(n.ast, ast.Assign) else n.ast.target
            if isinstance(tgt, ast.Name):
                how = f"var:{tgt.id}"
                rd = rd or reaching_defs(g)
                for tid, tn in g.nodes.items():
                    if tn.kind == "test" and isinstance(tn.ast, ast.Name) and tn.ast.id == tgt.id \
                            and nid in rd[tid].get(tgt.id, ()):
                        for b, l in g.succ[tid]:
                            if l == "false":
                                fail.add(b)
        elif n.kind == "stmt" and isinstance(n.ast, ast.Return):
            how = "return"
    return fail, exc, how


def _only_fnf(type_node) -> bool:
    """An except clause / suppress() argument list that catches nothing but FileNotFoundError."""
    if type_node is None:
        return False
    elts = type_node.elts if isinstance(type_node, ast.Tuple) else [type_node]
    return bool(elts) and all(dotted(e) == "FileNotFoundError" for e in elts)


def r06_6(prog: Program, rep):
    """The files backend answers True only when the effect happened: from the exception edge of each effect of a
    conditional operation (unlink of the ref file, write of the new value, rewrite of packed-refs) no `return True` is
    reachable, except through a handler / suppress() that catches nothing but FileNotFoundError (already absent)."""
    m = prog.module("dulwich/refs.py")
    n = 0
    for name in ("set_if_equals", "add_if_new", "remove_if_equals"):
        f = m.funcs.get(f"DiskRefsContainer.{name}")
        if f is None:
            raise AnalysisError(f"DiskRefsContainer.{name} not found")
        g = cfg_of(prog, f)
        rets = [i for i, nd in g.nodes.items() if nd.kind == "stmt" and isinstance(nd.ast, ast.Return) and isinstance(nd.ast.value, ast.Constant)
                and nd.ast.value.value is True]
        eff = []
        for i, nd in g.nodes.items():
            for c in node_calls(nd):
                d = dotted(c.func) or ""
                if d in ("os.remove", "os.unlink", "os.rename", "os.replace") or callee_name(c) in ("_remove_packed_ref",) or \
                        (isinstance(c.func, ast.Attribute) and c.func.attr == "write"):
                    eff.append((i, c))

        def edge_ok(a, b, l):
            na, nb = g.nodes[a], g.nodes[b]
            if l == "catch" and nb.kind == "handler" and _only_fnf(nb.ast.type):
                return False
            if na.kind == "with_exit_exc" and l == "next":
                item = na.ast.items[na.info]
                ce = item.context_expr
                if isinstance(ce, ast.Call) and ce.args and all(dotted(a_) == "FileNotFoundError" for a_ in ce.args):
                    return False
            return True
        for i, c in eff:
            n += 1
            fail = [b for b, l in g.succ[i] if l in EXC_LABELS]
            r = reach(g, fail, include_srcs=True, edge_ok=edge_ok) if fail else set()
            bad = [x for x in rets if x in r]
            rep.ob("R06.6", m.rel, f.qual, f"a failure of `{norm(c, 50)}` never ends in `return True`", not bad,
                   "the exception of this effect is swallowed (broad except / suppress) and the operation still answers True: the "
                   "server and the local client report `ok` for a ref that was not changed", c.lineno)
    if n < 4:
        raise AnalysisError(f"expected >= 4 effects in the files backend's conditional operations, found {n}")


def r06_8(prog: Program, rep):
    """Atomic means atomic on every transport and for every command.
    (a) SIBLINGS-AGREE: every wire client's send_pack that knows the atomic capability refuses (raises) when the caller asked
        for atomic and the server did not advertise it - it never sends the push anyway;
    (b) the validation loop of an atomic push looks at EVERY command: no iteration ends before the comparison with the
        expected old value;
    (c) refs are changed only through the conditional operations in push-serving functions: no `del refs[..]`, no
        `refs[..] = ..`, no unconditional call."""
    cm = prog.module("dulwich/client.py")
    n = 0
    for q, f in sorted(cm.funcs.items()):
        if f.name != "send_pack" or "#" in q:
            continue
        if not any(isinstance(x, ast.Name) and x.id == "CAPABILITY_ATOMIC" for x in ast.walk(f.node)):
            continue
        n += 1
        g = cfg_of(prog, f)
        at = [i for i, nd in g.nodes.items() if nd.kind == "test" and isinstance(nd.ast, ast.Name) and nd.ast.id == "atomic"]
        cap = {}
        for i, nd in g.nodes.items():
            if nd.kind == "test" and isinstance(nd.ast, ast.Compare) and len(nd.ast.ops) == 1 and isinstance(nd.ast.left, ast.Name) and nd.ast.left.id == "CAPABILITY_ATOMIC" \
                    and "server" in norm(nd.ast.comparators[0]):
                cap[i] = "true" if isinstance(nd.ast.ops[0], ast.NotIn) else "false"        # the "server lacks it" edge
        raises = [i for i, nd in g.nodes.items() if nd.kind == "stmt" and isinstance(nd.ast, ast.Raise)]
        ok = False
        for i, lab in cap.items():
            lacking = [b for b, l in g.succ[i] if l == lab]
            # on the lacking side (reached under `atomic`) the only way on is a raise
            r_ = reach(g, lacking, include_srcs=True, avoid=set(raises))
            ok = ok or (g.exit_normal not in r_ and bool(at))
        rep.ob("R06.8", cm.rel, q, "atomic requested but not advertised by the server: the push is refused", ok,
               "the request goes out although the server cannot apply it atomically: refs are updated one by one and a failure in the middle "
               "leaves the push half applied, while the caller asked for all-or-nothing", f.node.lineno)
    if n < 2:
        raise AnalysisError(f"expected >= 2 wire send_pack implementations handling CAPABILITY_ATOMIC, found {n}")
    for f, sites, kind, map_name in push_serving_functions(prog):
        g = cfg_of(prog, f)
        # (b) validation loops of the atomic branch: for-loops under `if atomic` that contain no CAS call
        for t in [x for x in ast.walk(f.node) if isinstance(x, ast.If) and isinstance(x.test, ast.Name) and x.test.id == "atomic"]:
            for lp in [x for s_ in t.body for x in ast.walk(s_) if isinstance(x, ast.For)]:
                has_cas = any(isinstance(c, ast.Call) and isinstance(c.func, ast.Attribute) and c.func.attr in ("set_if_equals", "remove_if_equals", "add_if_new")
                              for c in ast.walk(lp))
                cmps = {i for i, nd in g.nodes.items() if nd.kind == "test" and isinstance(nd.ast, ast.Compare) and any(id(nd.ast) == id(x) for x in ast.walk(lp))
                        and any(isinstance(y, ast.Name) and "old" in y.id for y in ast.walk(nd.ast))}
                if has_cas or not cmps:
                    continue
                heads = [i for i, nd in g.nodes.items() if nd.kind == "for_iter" and nd.ast is lp]
                first = g.nodes_of(lp.body[0])
                # an iteration may end early once a failure status was recorded for this command (a store to the status map / flag)
                fails = {i for i, nd in g.nodes.items() if nd.kind == "stmt" and isinstance(nd.ast, ast.Assign) and any(id(nd.ast) == id(x) for x in ast.walk(lp))
                         and (isinstance(nd.ast.targets[0], ast.Subscript) or (isinstance(nd.ast.value, ast.Constant) and nd.ast.value.value is True)
                              or "status" in norm(nd.ast.targets[0]))}
                bad = must_pass(g, heads, cmps | fails, start=first)
                rep.ob("R06.8", f.module.rel, f.qual, f"the atomic validation loop at line {lp.lineno} compares every command with its expected old value", not bad,
                       "an iteration of the validation loop can end (continue) before the comparison: that command is not validated, the push is applied "
                       "and fails for exactly that ref afterwards - partially applied", lp.lineno)
        # (c) unconditional ref mutations
        bad = []
        for x in ast.walk(f.node):
            tg = None
            if isinstance(x, ast.Delete):
                tg = x.targets[0]
            elif isinstance(x, ast.Assign):
                tg = x.targets[0]
            if isinstance(tg, ast.Subscript) and (dotted(tg.value) or "").endswith("refs"):
                bad.append(x)
        rep.ob("R06.8", f.module.rel, f.qual, "refs are changed only through the conditional operations", not bad,
               f"`{norm(bad[0], 60)}` changes a ref without comparing it with the value the pusher was shown: a concurrent update is overwritten "
               f"(or deleted) and both pushers are told ok" if bad else "", bad[0].lineno if bad else f.node.lineno)


def r06_9(prog: Program, rep):
    """(a) WHO-MAY-ESCAPE: the exceptions the ref operations raise for ONE ref (FileLocked when another pusher holds its lock,
    RefFormatError for a malformed name) are turned into that ref's status line by _apply_pack, they do not end the command list
    before the report is sent; (b) SIBLINGS-AGREE: the in-process push path checks that the new value is in the target store
    before every set_if_equals, like receive-pack ("missing necessary objects")."""
    SERVER = "dulwich/server.py"
    sm = prog.module(SERVER)
    f = sm.funcs.get("ReceivePackHandler._apply_pack")
    if f is None:
        raise AnalysisError("server.ReceivePackHandler._apply_pack not found")
    caught = set()
    for t in ast.walk(f.node):
        if isinstance(t, ast.Assign) and isinstance(t.value, ast.Tuple) and isinstance(t.targets[0], ast.Name) and "exception" in t.targets[0].id:
            caught |= {norm(e).split(".")[-1] for e in t.value.elts}
        if isinstance(t, ast.ExceptHandler) and t.type is not None:
            caught |= {norm(e).split(".")[-1] for e in (t.type.elts if isinstance(t.type, ast.Tuple) else [t.type])}
    for exc, why in (("FileLocked", "another pusher holds the lock of the ref - the ordinary outcome of two overlapping pushes"), ("RefFormatError", "a name check_ref_format refuses")):
        rep.ob("R06.9", SERVER, f.qual, f"{exc} raised while one ref is updated becomes that ref's status", exc in caught or "Exception" in caught,
               f"{exc} ({why}) is not caught: the handler dies before _report_status, refs updated earlier in the list keep their new value unreported and "
               f"the offending ref is not reported as rejected", f.node.lineno)
    cm = prog.module("dulwich/client.py")
    lf = cm.funcs.get("LocalGitClient.send_pack")
    if lf is None:
        raise AnalysisError("client.LocalGitClient.send_pack not found")
    g = cfg_of(prog, lf)
    sets = [i for i, n in g.nodes.items() for c in node_calls(n) if callee_name(c) == "set_if_equals"]
    memb = [i for i, n in g.nodes.items() if n.kind == "test" and "object_store" in norm(n.ast) and any(isinstance(x, ast.Compare) and isinstance(x.ops[0], (ast.In, ast.NotIn)) for x in ast.walk(n.ast))]
    if not sets:
        raise AnalysisError("LocalGitClient.send_pack: set_if_equals call not found")
    bad = must_pass(g, sets, memb)
    rep.ob("R06.9", cm.rel, lf.qual, "every ref update is preceded by a test that the new value is in the target's object store", bool(memb) and not bad,
           "the in-process push goes from add_pack_data straight to set_if_equals: a push whose tip lies behind the target's shallow boundary (empty pack) reports "
           "success and leaves a ref naming a missing object; receive-pack answers 'missing necessary objects'", g.nodes[sets[0]].line)


def run(prog: Program, rep, tier="quick"):
    rep.rule("R06.9", "per-ref exceptions of the ref store become that ref's status in receive-pack; the in-process push checks the new value is present")
    rep.rule("R06.8", "atomic on every transport: refused when not advertised; validation covers every command; refs change only through CAS")
    rep.rule("R06.6", "files backend: True only when the effect happened - no effect failure is swallowed on a path to `return True` "
                      "(FileNotFoundError excepted)")
    rep.rule("R06.1", "RESULT-USED: the value of each conditional set_if_equals/remove_if_equals in a push-serving "
                      "function reaches a branch or return")
    rep.rule("R06.2", "from the failure and exception outcome of each CAS every path to the per-ref status emission "
                      "passes a failure-status definition (success only on the success path)")
    rep.rule("R06.3", "server: the new value of a wire-commanded ref update is dominated by a membership test in the "
                      "object store whose 'absent' side does not reach the write")
    rep.rule("R06.5", "the files backend's compare-and-swap compares values read under the ref lock (DEF-INSIDE, shared with R08.1): "
                      "a stale compare lets a rejected update through and reports it ok")
    rep.rule("R06.7", "the expected-old argument of every conditional compare-and-swap in a push-serving function cannot be None "
                      "(None = unconditional): dict.get without a non-None default, literal None")
    rep.rule("R06.4c", "the all-or-nothing decision variable of the atomic branch accumulates: inside the validation loop it is "
                       "only ever set to True (or or-ed), never overwritten by the last command's verdict")
    rep.rule("R06.4b", "atomic under a racing writer: the per-ref compare-and-swap loop of the atomic branch runs with "
                       "all ref locks held / inside a transaction, or a failure after an earlier success is rolled back")
    rep.rule("R06.4", "atomic: the flag/capability is tested; the validation before the first mutation reads every "
                      "commanded ref's current value with a ref-state read")
    rep.not_decided += ["round trip of status lines through the client parser", "racing pushers (C08)",
                        "full connectivity of the pushed history (only presence of the named object)"]
    rep.assumptions += ["push-serving functions are found by role: CAS calls plus yielded (ref, status) tuples or a "
                        "ref_status= mapping", "CAS call sites are enumerated by method name (set_if_equals, "
                        "remove_if_equals, add_if_new) on any receiver"]
    funcs = push_serving_functions(prog)
    rep.count("push-serving functions", len(funcs))
    if len(funcs) < 2:
        raise AnalysisError(f"expected >= 2 push-serving functions (server _apply_pack, local send_pack), found "
                            f"{[f.where for f, *_ in funcs]}")
    for f, sites, kind, map_name in funcs:
        rel, qual = f.module.rel, f.qual
        g = cfg_of(prog, f)
        sv = _status_var(f, kind, map_name)
        fails = _failure_emissions(g, kind, sv)
        oks = _ok_emissions(g, kind, sv)
        loop_heads = {i for i, n in g.nodes.items() if n.kind == "for_iter"}
        ends = set(oks) | ({g.exit_normal} | loop_heads if kind == "map" else set())
        for s in sorted(sites, key=lambda s: s.call.lineno):
            if not s.conditional or s.method == "add_if_new":
                continue
            key = s.key
            # distinguish syntactically identical calls in different branches by the enclosing atomic/non-atomic test
            dropped = result_dropped(s)
            rep.ob("R06.1", rel, qual, key + _branch_tag(f, s), not dropped,
                   "result of a conditional compare-and-swap is dropped: a rejected update is reported as success",
                   s.call.lineno)
            # R06.7 the expected-old argument is never possibly None: None means "unconditional" to every backend, so a
            # compare-and-swap whose expected value can be None silently overwrites a ref created by a rival pusher
            rd_ = reaching_defs(g)
            maybe_none = None
            cn = g.nodes_containing(s.call)
            if s.old is not None and cn:
                seen_, work_ = set(), [(cn[0], x.id) for x in ast.walk(s.old) if isinstance(x, ast.Name)]
                exprs_ = [s.old]
                while work_:
                    at, nm = work_.pop()
                    for d in rd_[at].get(nm, ()):
                        if (d, nm) in seen_:
                            continue
                        seen_.add((d, nm))
                        dn = g.nodes[d]
                        if dn.kind == "stmt" and isinstance(dn.ast, (ast.Assign, ast.AnnAssign)) and dn.ast.value is not None:
                            t_ = dn.ast.targets[0] if isinstance(dn.ast, ast.Assign) else dn.ast.target
                            if isinstance(t_, ast.Name) and t_.id == nm:
                                exprs_.append(dn.ast.value)
                for e_ in exprs_:
                    if isinstance(e_, ast.Constant) and e_.value is None:
                        maybe_none = e_
                    if isinstance(e_, ast.Call) and isinstance(e_.func, ast.Attribute) and e_.func.attr == "get" and len(e_.args) == 1 \
                            and not any(k.arg == "default" for k in e_.keywords):
                        maybe_none = e_
                    if isinstance(e_, ast.Call) and isinstance(e_.func, ast.Attribute) and e_.func.attr == "get" and len(e_.args) == 2 \
                            and isinstance(e_.args[1], ast.Constant) and e_.args[1].value is None:
                        maybe_none = e_
            rep.ob("R06.7", rel, qual, "expected-old of " + key + _branch_tag(f, s) + " cannot be None", maybe_none is None,
                   (f"the expected value comes from `{norm(maybe_none, 50)}`, which is None for a ref the pusher was never shown: "
                    f"None means 'unconditional' to the ref backends, so a ref created by a rival in the meantime is overwritten "
                    f"and both pushers are told ok") if maybe_none is not None else "", s.call.lineno)
            if dropped:
                continue
            fail, exc, how = _cas_outcome_edges(g, s)
            if how is None or (not fail and how != "return"):
                raise AnalysisError(f"{f.where}:{s.call.lineno}: CAS result is used in a shape R06.2 does not understand")
            starts = fail | exc
            bad = must_pass(g, ends, fails, start=starts)
            if bad:
                # a failure recorded through a None-initialised temporary (`failure = "..."; if failure is not None: status[ref] = failure`):
                # follow None-flags precisely before believing the path
                from sa.flow import must_pass_ps
                bad = must_pass_ps(g, ends, fails, start=starts)
            w = []
            if bad:
                p = path(g, starts, bad[0], avoid=fails)
                w = lines(g, p)
            rep.ob("R06.2", rel, qual, key + _branch_tag(f, s), not bad,
                   "a failed or raising compare-and-swap can reach the success status without a failure status being set",
                   s.call.lineno, w)
        # ---- R06.4 atomic
        atomic_tests = [i for i, n in g.nodes.items() if n.kind == "test" and isinstance(n.ast, ast.Name)
                        and n.ast.id == "atomic"]
        has_atomic_notion = any(isinstance(x, ast.Name) and x.id == "atomic" for x in ast.walk(f.node)) or \
            any(a.arg == "atomic" for a in f.node.args.args + f.node.args.kwonlyargs)
        if has_atomic_notion:
            rep.ob("R06.4", rel, qual, "atomic flag is tested", bool(atomic_tests),
                   "the function knows an atomic flag but no branch depends on it", f.node.lineno)
        for t in atomic_tests:
            true_side = {b for b, l in g.succ[t] if l == "true"}
            after = {b for b, l in g.succ[t] if l == "false"}
            region = reach(g, true_side, avoid=after, include_srcs=True)
            cas_nodes = [i for i in region for c in node_calls(g.nodes[i])
                         if isinstance(c.func, ast.Attribute) and c.func.attr in ("set_if_equals", "remove_if_equals")]
            # the CAS loop may be shared with the non-atomic path (local client): then the validation must
            # dominate it under the atomic branch
            reads = []
            for i in region:
                for c in node_calls(g.nodes[i]):
                    if isinstance(c.func, ast.Attribute) and c.func.attr in REF_VALUE_READS and \
                            (dotted(c.func.value) or "").endswith("refs"):
                        reads.append(i)
                for e in node_exprs(g.nodes[i]):
                    for x in _walk_shallow(e):
                        if isinstance(x, ast.Subscript) and isinstance(x.ctx, ast.Load) and \
                                (dotted(x.value) or "").endswith(".refs"):
                            reads.append(i)
            # ... and what was read must be compared: a name bound at a read node occurs in a comparison test
            read_names = set()
            for i in reads:
                for e in node_exprs(g.nodes[i]):
                    if isinstance(e, ast.Assign):
                        for t_ in e.targets:
                            read_names |= {x.id for x in ast.walk(t_) if isinstance(x, ast.Name)}
            compared = any(g.nodes[i].kind == "test" and isinstance(g.nodes[i].ast, ast.Compare)
                           and read_names & {x.id for x in ast.walk(g.nodes[i].ast) if isinstance(x, ast.Name)}
                           and any(isinstance(o, (ast.Eq, ast.NotEq)) for o in g.nodes[i].ast.ops) for i in region)
            reads = reads if compared else []
            rep.ob("R06.4", rel, qual, "atomic validation reads current ref values", bool(reads),
                   "the atomic branch compares nothing that was read from the ref store with a ref-state read "
                   "before it starts mutating: a stale old value is discovered only after other refs were changed",
                   g.nodes[t].line)
        # ---- R06.4c the failure flag accumulates over the commands
        for t in atomic_tests:
            true_side = {b for b, l in g.succ[t] if l == "true"}
            region = reach(g, true_side, include_srcs=True)
            # flags: names tested alone in the region whose true side returns before any CAS
            cas_set = {i for i in region for c in node_calls(g.nodes[i])
                       if isinstance(c.func, ast.Attribute) and c.func.attr in ("set_if_equals", "remove_if_equals")}
            flags = set()
            for i in region:
                nd = g.nodes[i]
                if nd.kind == "test" and isinstance(nd.ast, ast.Name) and nd.ast.id != "atomic" and i not in reach(g, [i]):
                    # the decision point: outside any loop, and its true side gives up without touching a ref
                    tside = [b for b, l in g.succ[i] if l == "true"]
                    r_ = reach(g, tside, include_srcs=True)
                    if not (r_ & cas_set) and g.exit_normal in r_:
                        flags.add(nd.ast.id)
            for flag in sorted(flags):
                assigns = [(i, e) for i in region for e in node_exprs(g.nodes[i])
                           if isinstance(e, (ast.Assign, ast.AugAssign)) and isinstance(
                               (e.targets[0] if isinstance(e, ast.Assign) else e.target), ast.Name)
                           and (e.targets[0] if isinstance(e, ast.Assign) else e.target).id == flag]
                in_loop = [(i, e) for i, e in assigns if i in reach(g, [i])]
                if not in_loop:
                    continue
                for i, e in in_loop:
                    v = e.value
                    ok = (isinstance(v, ast.Constant) and v.value is True) or isinstance(e, ast.AugAssign) or \
                        any(isinstance(x, ast.Name) and x.id == flag for x in ast.walk(v))
                    rep.ob("R06.4c", rel, qual, f"`{norm(e, 60)}` accumulates the failure of any command", ok,
                           f"`{flag}` decides whether the atomic push is applied at all but is overwritten on every iteration: "
                           f"only the last command's verdict counts, so an earlier failing command lets the rest be applied",
                           g.nodes[i].line)
        # ---- R06.4b all-or-nothing under a racing writer: a CAS that fails after an earlier one succeeded
        for t in atomic_tests:
            true_side = {b for b, l in g.succ[t] if l == "true"}
            cas_nodes = set()
            for i in reach(g, true_side, include_srcs=True):
                for c in node_calls(g.nodes[i]):
                    if isinstance(c.func, ast.Attribute) and c.func.attr in ("set_if_equals", "remove_if_equals") \
                            and not is_none(arg_of(c, 1, "old_ref")):
                        cas_nodes.add(i)
            in_loop = [i for i in cas_nodes if i in reach(g, [i])]
            guarded = False
            for i in in_loop:
                # held locks / transaction: an enclosing `with` whose manager mentions lock or transaction,
                # or a rollback/restore call reachable from the failure outcome
                n = g.nodes[i]
                cur = n.ast
                m = f.module
                while cur in m.parents:
                    cur = m.parents[cur]
                    if isinstance(cur, ast.With) and any(
                            any(w in norm(it.context_expr).lower() for w in ("lock", "transaction")) for it in cur.items):
                        guarded = True
                for j in reach(g, [i]):
                    for c in node_calls(g.nodes[j]):
                        if any(w in (callee_name(c) or "").lower() for w in ("rollback", "restore", "undo")):
                            guarded = True
            if in_loop:
                rep.ob("R06.4b", rel, qual, "atomic apply loop holds all ref locks or rolls back", guarded,
                       "refs are compare-and-swapped one at a time after validation: when a concurrent writer moves one "
                       "of them in between, the refs applied earlier stay changed (some but not all)",
                       g.nodes[min(in_loop)].line)
    # ---- R06.3 (server only: values from the wire)
    server = [x for x in funcs if x[0].module.rel == "dulwich/server.py"]
    if not server:
        raise AnalysisError("no push-serving function in dulwich/server.py")
    for f, sites, kind, map_name in server:
        g = cfg_of(prog, f)
        for s in sorted(sites, key=lambda s: s.call.lineno):
            if s.method != "set_if_equals":
                continue
            new = arg_of(s.call, 2, "new_ref")
            if not isinstance(new, ast.Name):
                raise AnalysisError(f"{f.where}:{s.call.lineno}: new value of set_if_equals is not a plain name")
            tests = {}
            for i, n in g.nodes.items():
                if n.kind == "test" and isinstance(n.ast, ast.Compare) and len(n.ast.ops) == 1 \
                        and isinstance(n.ast.ops[0], (ast.In, ast.NotIn)) and isinstance(n.ast.left, ast.Name) \
                        and n.ast.left.id == new.id and (dotted(n.ast.comparators[0]) or "").endswith("object_store"):
                    tests[i] = "true" if isinstance(n.ast.ops[0], ast.In) else "false"
            call_nodes = g.nodes_containing(s.call)

            def edge_ok(a, b, l, _t=tests):
                # forbid the 'present' edges: if the call is still reachable, some path skips the test
                return not (a in _t and l == _t[a])
            r = reach(g, [g.entry], edge_ok=edge_ok, include_srcs=True)
            bad = [c for c in call_nodes if c in r]
            rep.ob("R06.3", f.module.rel, f.qual, s.key + _branch_tag(f, s), bool(tests) and not bad,
                   "a ref is set to a value received from the wire without checking that the object store has it",
                   s.call.lineno, lines(g, path(g, [g.entry], bad[0], edge_ok=edge_ok)) if bad else [])
    # ---- R06.5: the compare-and-swap primitive the push relies on compares under the lock (same engine as R08.1)
    from rules import c08
    before = len(rep.obs)
    c08.r08_1(prog, rep)
    for o in rep.obs[before:]:
        o.rule = "R06.5"
    from sa.common import alias_guard
    alias_guard(prog, rep, "R06.1", {"set_if_equals", "remove_if_equals", "add_if_new"})
    rep.floor("R06.5", 7)
    rep.floor("R06.1", 6)
    rep.floor("R06.3", 2)
    r06_6(prog, rep)
    r06_8(prog, rep)
    r06_9(prog, rep)
    rep.floor("R06.4", 3)


def _branch_tag(f, s: CasSite) -> str:
    """Disambiguates textually identical CAS calls: ' @atomic' when nested under `if atomic:` true side."""
    m = f.module
    n = s.call
    while n in m.parents:
        p = m.parents[n]
        if isinstance(p, ast.If) and isinstance(p.test, ast.Name) and p.test.id == "atomic":
            return " @atomic" if n in p.body else " @non-atomic"
        n = p
    return ""
