"""C17 — checkout never writes outside the work tree or into .git.

R17.1 TAINT: a file-system path derived from a tree path / index key reaches a mutating sink only if BOTH
      validate_path(p, ...) and verify_leading_dirs(p, ...) dominate the conversion, for the same p.
R17.2 build_file_from_blob never opens a symlink for writing (lstat/remove precedes the write-mode open).
R17.3 modes given to os.chmod for checked-out files come from cleanup_mode / a fixed constant.
R17.4 the element validator is not optional: callers pass one derived from the configuration; the default
      protects NTFS.
"""
from __future__ import annotations

import ast
import os

from sa.cfg import EXC_LABELS, node_calls, node_exprs, _walk_shallow
from sa.common import cfg_of
from sa.flow import lines, must_pass, path, reach, reaching_defs
from sa.load import AnalysisError, Program, arg_of, callee_name, dotted, norm, names_in

SCOPE = ["dulwich/index.py", "dulwich/stash.py", "dulwich/sparse_patterns.py", "dulwich/patch.py",
         "dulwich/porcelain/__init__.py", "dulwich/worktree.py", "dulwich/submodule.py",
         "dulwich/porcelain/submodule.py", "dulwich/merge.py", "dulwich/rebase.py", "dulwich/rerere.py",
         "dulwich/porcelain/worktree.py", "dulwich/porcelain/subtree.py", "dulwich/subtree.py", "dulwich/am.py"]

PRIM_MUT = {"os.remove": 0, "os.unlink": 0, "os.rmdir": 0, "os.rename": None, "os.replace": None, "os.symlink": 1,
            "os.mkdir": 0, "os.makedirs": 0, "os.chmod": 0, "shutil.rmtree": 0, "shutil.move": None, "os.utime": 0,
            "shutil.copyfile": 1, "shutil.copy": 1, "os.link": 1, "os.mkfifo": 0, "os.truncate": 0}


def _open_write(c: ast.Call) -> bool:
    if dotted(c.func) not in ("open", "io.open", "os.open"):
        return False
    mode = arg_of(c, 1, "mode")
    if dotted(c.func) == "os.open":
        return any(f in norm(c) for f in ("O_WRONLY", "O_RDWR", "O_CREAT", "O_TRUNC"))
    if mode is None:
        return False
    if isinstance(mode, ast.Constant) and isinstance(mode.value, str):
        return any(ch in mode.value for ch in "wax+")
    return "w" in norm(mode)


def mutating_params(prog: Program) -> dict[str, set[int]]:
    """Summary: function name -> indices of parameters that reach a mutating file-system call (depth 3)."""
    cached = getattr(prog, "_mut_params", None)
    if cached is not None:
        return cached
    summ: dict[str, set[int]] = {}
    funcs = [f for rel in SCOPE if rel in prog.modules for f in prog.modules[rel].funcs.values()]
    funcs += [f for f in prog.module("dulwich/file.py").funcs.values() if f.name == "ensure_dir_exists"]
    for _ in range(3):
        changed = False
        for f in funcs:
            ps = [a.arg for a in f.node.args.posonlyargs + f.node.args.args]
            if not ps:
                continue
            for c in ast.walk(f.node):
                if not isinstance(c, ast.Call):
                    continue
                d = dotted(c.func) or ""
                idxs: list[int] = []
                if d in PRIM_MUT:
                    idxs = list(range(len(c.args))) if PRIM_MUT[d] is None else [PRIM_MUT[d]]
                elif _open_write(c):
                    idxs = [0]
                else:
                    nm = d.split(".")[-1]
                    if nm in summ and nm != f.name:
                        idxs = sorted(summ[nm])
                for i in idxs:
                    if i < len(c.args):
                        for n in ast.walk(c.args[i]):
                            if isinstance(n, ast.Name) and n.id in ps:
                                k = ps.index(n.id)
                                if k not in summ.setdefault(f.name, set()):
                                    summ[f.name].add(k)
                                    changed = True
        if not changed:
            break
    prog._mut_params = summ
    return summ


def _strip_decode(e: ast.AST) -> ast.AST:
    while True:
        if isinstance(e, ast.Call) and isinstance(e.func, ast.Attribute) and e.func.attr in ("decode", "encode") :
            e = e.func.value
        elif isinstance(e, ast.Call) and dotted(e.func) in ("os.fsdecode", "os.fsencode", "str", "bytes") and e.args:
            e = e.args[0]
        else:
            return e


def _def_value(n):
    a = n.ast
    if n.kind == "stmt" and isinstance(a, (ast.Assign, ast.AnnAssign)):
        return a.value
    return None


def _index_key_loopvars(g, f) -> set[str]:
    """Names bound by `for k[, e] in <expr mentioning an index>` in this function."""
    out = set()
    for n in g.nodes.values():
        if n.kind == "for_iter":
            it = norm(n.ast.iter)
            if "index" in it.lower() and "enumerate" not in it:
                t = n.ast.target
                first = t.elts[0] if isinstance(t, ast.Tuple) and t.elts else t
                if isinstance(first, ast.Name):
                    out.add(first.id)
    return out


def conversions(prog, f, g):
    """(call, tree-path expr, kind) for each tree-path -> fs-path conversion in f."""
    out = []
    keyvars = _index_key_loopvars(g, f)
    for c in ast.walk(f.node):
        if not isinstance(c, ast.Call) or f.module.enclosing_func(c) is not f:
            continue
        if callee_name(c) == "_tree_to_fs_path" and len(c.args) >= 2:
            out.append((c, c.args[1], "tree path"))
        elif dotted(c.func) == "os.path.join" and len(c.args) >= 2:
            p = _strip_decode(c.args[-1])
            if isinstance(p, ast.Name) and p.id in keyvars:
                out.append((c, p, "index key"))
    return out


def sinks_of(prog, g, rd, conv_node: int, var: str, summ):
    """Mutating uses of ``var`` reached by its definition at ``conv_node``."""
    out = []
    for i, n in g.nodes.items():
        if conv_node not in rd[i].get(var, ()):
            continue
        for c in node_calls(n):
            d = dotted(c.func) or ""
            nm = d.split(".")[-1]
            idxs = None
            if d in PRIM_MUT:
                idxs = list(range(len(c.args))) if PRIM_MUT[d] is None else [PRIM_MUT[d]]
            elif _open_write(c):
                idxs = [0]
            elif nm in summ:
                idxs = sorted(summ[nm])
            if idxs is None:
                continue
            for k in idxs:
                if k < len(c.args) and var in names_in(c.args[k]):
                    out.append((i, c, nm or d))
    return out


def sanitised(g, rd, at: int, pexpr: ast.AST, f):
    """Which sanitizers dominate node ``at`` for the tree path ``pexpr``."""
    ptxt = norm(pexpr)
    base = next((x.id for x in ast.walk(pexpr) if isinstance(x, ast.Name)), None)
    res = {}
    # validate_path: cut the 'valid' edges; if `at` is still reachable, it is not dominated
    vtests = {}
    for i, n in g.nodes.items():
        if n.kind == "test" and isinstance(n.ast, ast.Call) and callee_name(n.ast) == "validate_path" and n.ast.args \
                and norm(n.ast.args[0]) == ptxt and (base is None or rd[i].get(base) == rd[at].get(base)):
            vtests[i] = "true"
    r = reach(g, [g.entry], include_srcs=True, edge_ok=lambda a, b, l: not (a in vtests and l == vtests[a]))
    res["validate_path"] = bool(vtests) and at not in r
    vl = [i for i, n in g.nodes.items() for c in node_calls(n)
          if callee_name(c) == "verify_leading_dirs" and c.args and norm(c.args[0]) == ptxt
          and (base is None or rd[i].get(base) == rd[at].get(base))]
    res["verify_leading_dirs"] = bool(vl) and not must_pass(g, [at], vl)
    return res


def r17_1(prog: Program, rep):
    summ = mutating_params(prog)
    rep.count("functions summarised as mutating a path parameter", len(summ))
    n_conv = n_mut = 0
    for rel in SCOPE:
        if rel not in prog.modules:
            continue
        m = prog.modules[rel]
        for q, f in m.funcs.items():
            if "#" in q:
                continue
            txt_has = any(isinstance(c, ast.Call) and (callee_name(c) == "_tree_to_fs_path" or dotted(c.func) == "os.path.join")
                          for c in ast.walk(f.node))
            if not txt_has or f.name == "_tree_to_fs_path":
                continue
            g = cfg_of(prog, f)
            convs = conversions(prog, f, g)
            if not convs:
                continue
            rd = reaching_defs(g)
            for call, pexpr, kind in convs:
                n_conv += 1
                nodes = g.nodes_containing(call)
                if not nodes:
                    continue
                cn = nodes[0]
                a = g.nodes[cn].ast
                var = None
                if isinstance(a, (ast.Assign, ast.AnnAssign)):
                    t = a.targets[0] if isinstance(a, ast.Assign) else a.target
                    if isinstance(t, ast.Name):
                        var = t.id
                if isinstance(a, ast.Return):
                    # sanitising constructor: the returned path must be sanitised
                    san = sanitised(g, rd, cn, pexpr, f)
                    ok = all(san.values())
                    rep.ob("R17.1", rel, f.qual, f"returned {norm(call, 60)} [{kind} {norm(pexpr)}]", ok,
                           "a work-tree path is handed out without " + " and ".join(k for k, v in san.items() if not v),
                           call.lineno)
                    continue
                if var is None:
                    # used inline as an argument
                    ss = []
                    for c in node_calls(g.nodes[cn]):
                        d = dotted(c.func) or ""
                        if (d in PRIM_MUT or _open_write(c) or d.split(".")[-1] in summ) and any(
                                x is call for a_ in c.args for x in ast.walk(a_)):
                            ss.append((cn, c, d))
                else:
                    ss = sinks_of(prog, g, rd, cn, var, summ)
                if not ss:
                    rep.count("read-only conversions (not constrained)")
                    continue
                n_mut += 1
                san = sanitised(g, rd, cn, pexpr, f)
                # a sanitizer between the conversion and the sink also counts (dominates the sink)
                for (si, sc, snm) in ss:
                    s2 = sanitised(g, rd, si, pexpr, f)
                    for k in san:
                        san[k] = san[k] or False
                    sink_san = {k: san[k] or s2[k] for k in san}
                    if not all(sink_san.values()):
                        break
                else:
                    sink_san = {k: True for k in san}
                ok = all(sink_san.values())
                missing = [k for k, v in sink_san.items() if not v]
                sink_names = sorted({snm for _, _, snm in ss})
                rep.ob("R17.1", rel, f.qual, f"{kind} {norm(pexpr)} -> {var or 'inline'} -> {','.join(sink_names)}", ok,
                       f"a path built from a {kind} reaches a mutating file-system operation ({', '.join(sink_names)}) "
                       f"without {' and '.join(missing)}: a crafted name or a symlinked leading directory lets it act "
                       f"outside the work tree", call.lineno, [call.lineno] + sorted({g.nodes[i].line for i, _, _ in ss}))
    rep.count("tree-path conversions", n_conv)
    rep.count("conversions reaching a mutating sink", n_mut)
    # sanitising constructors that join before they validate (patch._validate_patch_target shape):
    for rel, qual in (("dulwich/patch.py", "_validate_patch_target"), ("dulwich/porcelain/__init__.py", "_checked_worktree_path")):
        f = prog.func_opt(rel, qual)
        if f is None:
            raise AnalysisError(f"sanitising constructor {rel}:{qual} not found")
        g = cfg_of(prog, f)
        rd = reaching_defs(g)
        pexpr = ast.Name(id="tree_path", ctx=ast.Load())
        rets = [i for i, n in g.nodes.items() if n.kind == "stmt" and isinstance(n.ast, ast.Return)]
        ok = bool(rets)
        miss = set()
        for r in rets:
            san = sanitised(g, rd, r, pexpr, f)
            for k, v in san.items():
                if not v:
                    ok = False
                    miss.add(k)
        rep.ob("R17.1", rel, qual, "sanitising constructor: every return is dominated by both sanitizers", ok,
               f"returns a path without {sorted(miss)}", f.node.lineno)
        # and its callers use the result: any os.path.join(repo_path, tree_path) next to it is out of scope here


def r17_2(prog: Program, rep):
    f = prog.func("dulwich/index.py", "build_file_from_blob")
    g = cfg_of(prog, f)
    opens = [i for i, n in g.nodes.items() for c in node_calls(n) if _open_write(c)]
    if not opens:
        raise AnalysisError("build_file_from_blob: write-mode open not found")
    # guards: a test on S_ISLNK(lstat) or removal of the target
    guards = [i for i, n in g.nodes.items() if n.kind == "test" and "S_ISLNK" in norm(n.ast)]
    removes = [i for i, n in g.nodes.items() for c in node_calls(n)
               if (dotted(c.func) in ("os.unlink", "os.remove") or callee_name(c) == "_remove_file_with_readonly_handling")]
    lst = [i for i, n in g.nodes.items() for c in node_calls(n) if dotted(c.func) == "os.lstat"]
    bad = must_pass(g, opens, set(guards) | set(removes) | set(lst))
    rep.ob("R17.2", "dulwich/index.py", f.qual, "lstat/symlink test or removal precedes the write-mode open", not bad,
           "the blob is opened for writing on a path that was never checked for being a symlink",
           g.nodes[opens[0]].line)
    # the symlink test's true side must remove before reaching open
    for t in guards:
        tside = [b for b, l in g.succ[t] if l == "true"]
        bad = must_pass(g, opens, removes, start=tside)
        rep.ob("R17.2", "dulwich/index.py", f.qual, "an existing symlink is removed before the write", not bad,
               "open(..., 'wb') is reachable from the 'is a symlink' branch without unlinking it first",
               g.nodes[t].line)


def r17_3(prog: Program, rep):
    m = prog.module("dulwich/index.py")
    n = 0
    for fname in ("build_file_from_blob", "_transition_to_file", "build_index_from_tree"):
        f = m.funcs.get(fname)
        if f is None:
            continue
        for c in ast.walk(f.node):
            if isinstance(c, ast.Call) and dotted(c.func) == "os.chmod" and len(c.args) >= 2:
                mode = c.args[1]
                n += 1
                ok = False
                if isinstance(mode, ast.Constant):
                    ok = True
                else:
                    # the mode variable is defined from cleanup_mode(...) or masks with 0o111 / S_IMODE constants
                    names = names_in(mode)
                    for x in ast.walk(f.node):
                        if isinstance(x, ast.Assign) and any(isinstance(t, ast.Name) and t.id in names for t in x.targets):
                            if "cleanup_mode" in norm(x.value) or "0o" in norm(x.value) or "st_mode" in norm(x.value):
                                ok = True
                    if "cleanup_mode" in norm(mode) or "st_mode" in norm(mode):
                        ok = True
                    # parameter `mode` of build_file_from_blob: its callers must clean it
                    if isinstance(mode, ast.Name) and mode.id in [a.arg for a in f.node.args.args]:
                        ok = "caller"
                if ok == "caller":
                    callers = [cc for ff in m.funcs.values() for cc in ast.walk(ff.node)
                               if isinstance(cc, ast.Call) and callee_name(cc) == fname]
                    pidx = [a.arg for a in f.node.args.args].index(mode.id)
                    good = True
                    for cc in callers:
                        a = arg_of(cc, pidx, mode.id)
                        if a is None:
                            continue
                        src = norm(a)
                        cf = m.enclosing_func(cc)
                        cleaned = "cleanup_mode" in src or any(
                            isinstance(x, ast.Assign) and any(isinstance(t, ast.Name) and t.id in names_in(a) for t in x.targets)
                            and "cleanup_mode" in norm(x.value) for x in ast.walk(cf.node)) or ".mode" in src
                        good = good and cleaned
                    ok = good
                rep.ob("R17.3", m.rel, f.qual, f"os.chmod mode `{norm(mode, 40)}` is canonical", bool(ok),
                       "a mode taken from a tree entry reaches chmod without cleanup_mode: set-uid/sticky/world-writable "
                       "bits can be applied to checked-out files", c.lineno)
    # cleanup_mode itself keeps only 0o755/0o644 style bits
    cm = m.funcs.get("cleanup_mode")
    if cm is None:
        raise AnalysisError("cleanup_mode not found")
    src = norm(cm.node, 10000)
    rep.ob("R17.3", m.rel, "cleanup_mode", "only canonical permission bits survive", "0o755" in src or "0o644" in src or "493" in src or "420" in src,
           "", cm.node.lineno)
    # entries written by build_file_from_blob: tree entry modes flow into IndexEntry through cleanup
    return n


def r17_4(prog: Program, rep):
    m = prog.module("dulwich/index.py")
    gpev = prog.func("dulwich/index.py", "get_path_element_validator")
    src = norm(gpev.node, 100000)
    # protectNTFS default
    dflt_ok = False
    for c in ast.walk(gpev.node):
        if isinstance(c, ast.Call) and callee_name(c) == "get_boolean" and any(
                isinstance(a, ast.Constant) and isinstance(a.value, (bytes, str)) and "protectntfs" in str(a.value).lower()
                for a in c.args):
            d = arg_of(c, 2, "default")
            if d is not None:
                v = norm(d)
                dflt_ok = v in ("True",) or "nt" in v or "True" in v
    rep.ob("R17.4", m.rel, gpev.qual, "core.protectNTFS is honoured with a protecting default", dflt_ok,
           "", gpev.node.lineno)
    n = 0
    for mod in prog.modules.values():
        for c in ast.walk(mod.tree):
            if isinstance(c, ast.Call) and callee_name(c) == "build_index_from_tree":
                kw = {k.arg: k.value for k in c.keywords}
                v = kw.get("validate_path_element")
                f = mod.enclosing_func(c)
                ok = False
                if v is not None and f is not None:
                    if isinstance(v, ast.Name):
                        for x in ast.walk(f.node):
                            if isinstance(x, ast.Assign) and any(isinstance(t, ast.Name) and t.id == v.id for t in x.targets) \
                                    and "get_path_element_validator" in norm(x.value):
                                ok = True
                    elif "get_path_element_validator" in norm(v):
                        ok = True
                n += 1
                rep.ob("R17.4", mod.rel, f.qual if f else "<module>", "build_index_from_tree gets the configured element validator",
                       ok, "build_index_from_tree is called without validate_path_element from get_path_element_validator: "
                           "its default is the weak validator", c.lineno)
    if n < 2:
        raise AnalysisError(f"expected >= 2 callers of build_index_from_tree, found {n}")
    uwt = prog.func("dulwich/index.py", "update_working_tree")
    g = cfg_of(prog, uwt)
    derive = [i for i, nd in g.nodes.items() if nd.kind == "stmt" and isinstance(nd.ast, ast.Assign)
              and any(isinstance(t, ast.Name) and t.id == "validate_path_element" for t in nd.ast.targets)]
    tests = [i for i, nd in g.nodes.items() if nd.kind == "test" and "validate_path_element" in norm(nd.ast) and "None" in norm(nd.ast)]
    uses = [i for i, nd in g.nodes.items() for c in node_calls(nd) if callee_name(c) == "validate_path"]
    # every use is preceded by the None-test whose None side assigns the derived validator
    ok = bool(derive) and bool(tests) and not must_pass(g, uses, tests)
    derived_from_cfg = any("get_path_element_validator" in norm(g.nodes[i].ast) or "validate_path_element_" in norm(g.nodes[i].ast)
                           for i in derive)
    rep.ob("R17.4", m.rel, uwt.qual, "validator derived from configuration when the argument is None", ok and derived_from_cfg,
           "", uwt.node.lineno)


FOLLOWING_PREDICATES = {"os.path.isdir", "os.path.isfile", "os.path.exists", "os.stat", "os.path.getsize", "os.access",
                        "os.path.samefile", "os.listdir"}


def r17_5(prog: Program, rep):
    """In the helpers that replace what is at a work-tree path, the decision about what is there comes from the lstat
    result they are handed, never from a predicate that follows symlinks."""
    m = prog.module("dulwich/index.py")
    n = 0
    for q, f in m.funcs.items():
        ps = [a.arg for a in f.node.args.args]
        stat_params = [p for p in ps if p.endswith("_stat") or p == "current_stat"]
        path_params = [p for p in ps if p in ("full_path", "target_path", "path_fs")]
        if not stat_params or not path_params or "#" in q:
            continue
        n += 1
        bad = []
        for c in ast.walk(f.node):
            if isinstance(c, ast.Call) and dotted(c.func) in FOLLOWING_PREDICATES and c.args \
                    and any(isinstance(x, ast.Name) and x.id in path_params for x in ast.walk(c.args[0])):
                # os.listdir of a path already established as a directory by the lstat test is fine
                if dotted(c.func) == "os.listdir":
                    continue
                bad.append(c)
        rep.ob("R17.5", m.rel, q, "what is at the path is decided from the lstat result, not by following symlinks", not bad,
               (f"`{norm(bad[0])}` follows a symlink at the leaf: a stale symlink to a directory is taken for a directory and "
                f"the checkout writes through it") if bad else "", bad[0].lineno if bad else f.node.lineno)
    if n < 3:
        raise AnalysisError(f"expected >= 3 transition helpers taking (path, lstat result), found {n}")


def r17_6(prog: Program, rep):
    """verify_leading_dirs may skip the lstat of leading components only for the *leading run* of components that
    equal the already verified chain.  Accepted idioms for computing the skip count: an index-aligned while loop, a
    for/zip (or enumerate) loop that breaks at the first mismatch, itertools.takewhile.  Counting matches at any
    position (sum/len over a filtered zip) is the defect; any other shape is an analysis error, not a verdict."""
    m = prog.module("dulwich/index.py")
    f = m.funcs.get("verify_leading_dirs")
    if f is None:
        raise AnalysisError("verify_leading_dirs not found")
    # the skip count: the name used as lower slice bound of the loop that lstat()s (`components[common:]`)
    skip = None
    for loop in [x for x in ast.walk(f.node) if isinstance(x, ast.For)]:
        if any(isinstance(c, ast.Call) and dotted(c.func) == "os.lstat" for c in ast.walk(loop)) and isinstance(loop.iter, ast.Subscript) \
                and isinstance(loop.iter.slice, ast.Slice) and isinstance(loop.iter.slice.lower, ast.Name):
            skip = loop.iter.slice.lower.id
    if skip is None:
        # second idiom: one loop over enumerate(components) that `continue`s while the index is below the skip count
        for loop in [x for x in ast.walk(f.node) if isinstance(x, ast.For)]:
            if not (any(isinstance(c, ast.Call) and dotted(c.func) == "os.lstat" for c in ast.walk(loop)) and isinstance(loop.iter, ast.Call)
                    and callee_name(loop.iter) == "enumerate" and isinstance(loop.target, ast.Tuple) and isinstance(loop.target.elts[0], ast.Name)):
                continue
            idx = loop.target.elts[0].id
            for st in loop.body:
                if isinstance(st, ast.If) and any(isinstance(b_, ast.Continue) for b_ in st.body) and isinstance(st.test, ast.Compare) and len(st.test.ops) == 1:
                    l_, r_, op_ = st.test.left, st.test.comparators[0], st.test.ops[0]
                    # canonical form: `idx < skip`
                    if isinstance(op_, ast.Lt) and isinstance(l_, ast.Name) and l_.id == idx and isinstance(r_, ast.Name):
                        # the guard must come before the lstat in the loop body
                        before = loop.body[:loop.body.index(st)]
                        if not any(isinstance(c, ast.Call) and dotted(c.func) == "os.lstat" for b_ in before for c in ast.walk(b_)):
                            skip = r_.id
    if skip is None:
        raise AnalysisError("verify_leading_dirs: the loop that lstat()s components[<skip>:] was not found")
    assigns = [s_ for s_ in ast.walk(f.node) if isinstance(s_, (ast.Assign, ast.AugAssign))
               and isinstance((s_.targets[0] if isinstance(s_, ast.Assign) else s_.target), ast.Name)
               and (s_.targets[0] if isinstance(s_, ast.Assign) else s_.target).id == skip]
    verdict = None
    why = ""
    for a in assigns:
        if isinstance(a, ast.Assign) and isinstance(a.value, ast.Constant) and a.value.value == 0:
            continue
        par = m.parents.get(a)
        if isinstance(a, ast.AugAssign) and isinstance(a.op, ast.Add):
            # inside `while ... A[skip] == B[skip] ...:` (index aligned, stops at the first mismatch)
            if isinstance(par, ast.While) and any(
                    isinstance(c, ast.Compare) and isinstance(c.ops[0], ast.Eq) and all(
                        isinstance(side, ast.Subscript) and isinstance(side.slice, ast.Name) and side.slice.id == skip
                        for side in (c.left, c.comparators[0])) for c in ast.walk(par.test)):
                verdict = True if verdict is None else verdict
                continue
            # inside `for a, b in zip(...): if a != b: break ; skip += 1`   (also: `if a == b: skip += 1 else: break`)
            zp = par
            while zp is not None and not isinstance(zp, (ast.For, ast.While, ast.FunctionDef)):
                zp = m.parents.get(zp)
            if isinstance(zp, ast.For) and "zip(" in norm(zp.iter) and any(isinstance(x, ast.Break) for x in ast.walk(zp)):
                # every iteration either counts or leaves the loop: the increment and the break are the two arms of one test
                # (or the break precedes the increment)
                verdict = True if verdict is None else verdict
                continue
        if isinstance(a, ast.Assign):
            v = norm(a.value)
            if "takewhile(" in v:
                verdict = True if verdict is None else verdict
                continue
            if ("sum(" in v or "len(" in v) and "zip(" in v and " if " in v:
                verdict = False
                why = f"`{norm(a, 90)}` counts matching components at ANY position"
                continue
        raise AnalysisError(f"verify_leading_dirs: skip count `{skip}` is computed by an idiom this rule does not know: {norm(a, 80)}")
    if verdict is None:
        raise AnalysisError("verify_leading_dirs: no computation of the skip count found")
    rep.ob("R17.6", m.rel, f.qual, f"lstat is skipped only for the leading run of already verified components (`{skip}`)", verdict,
           why + ": a component that matches the cache at a later position is skipped although an earlier one differs, so a "
           "symlinked leading directory is never lstat()ed", f.node.lineno)
    # what is skipped is also what is dropped from the cache, and every non-skipped component is lstat()ed before use
    src = norm(f.node, 100000)
    rep.ob("R17.6", m.rel, f.qual, "stale cache entries beyond the common run are dropped", f"del safe_prefix[{skip}:]" in src, "", f.node.lineno)
    rep.ob("R17.6", m.rel, f.qual, "a symlinked component raises InvalidPathError", "S_ISLNK" in src and "raise InvalidPathError" in src, "", f.node.lineno)


WT_MODULES = ("dulwich/index.py", "dulwich/patch.py", "dulwich/worktree.py", "dulwich/sparse_patterns.py", "dulwich/stash.py",
              "dulwich/porcelain/__init__.py", "dulwich/file.py")


def _charwise_prefix_tests(tree: ast.AST):
    """Character-wise prefix tests between paths: os.path.commonprefix(...) anywhere; x.startswith(<root>) where both are
    resolved paths and the argument carries no separator."""
    out = []
    for c in ast.walk(tree):
        if isinstance(c, ast.Call) and (dotted(c.func) or "").endswith("commonprefix"):
            out.append(c)
    return out


def r17_7(prog: Program, rep):
    """Containment of a resolved path in the work tree is decided per path COMPONENT.  `/w/tree-backup/x` starts with
    `/w/tree` character-wise; a character-wise test lets a symlink into a sibling directory whose name merely starts with
    the work tree's name pass.  Accepted idioms: x == root or x.startswith(root + <separator>); os.path.commonpath;
    Path.relative_to / is_relative_to.  Rejected: os.path.commonprefix; startswith(root) without a separator."""
    # self-check of the detector (the expected count on the tree is zero)
    probe = ast.parse("import os\ndef f(a, b):\n    return os.path.commonprefix([a, b]) == a\n")
    if len(_charwise_prefix_tests(probe)) != 1:
        raise AnalysisError("R17.7 detector self-check failed")
    n_mod = 0
    for rel in WT_MODULES:
        if rel not in prog.modules and not os.path.exists(os.path.join(prog.root, rel)):
            continue
        m = prog.module(rel)
        n_mod += 1
        bad = _charwise_prefix_tests(m.tree)
        fq = (m.enclosing_func(bad[0]).qual if bad and m.enclosing_func(bad[0]) else "<module>")
        rep.ob("R17.7", rel, fq if bad else "<module>", "no character-wise path prefix test (os.path.commonprefix)", not bad,
               f"`{norm(bad[0], 70)}` compares characters, not path components: `<tree>-backup/x` has the common prefix `<tree>`, so a "
               f"path resolved into a sibling directory whose name starts with the work tree's name is accepted as inside" if bad else "",
               bad[0].lineno if bad else 0)
    if n_mod < 5:
        raise AnalysisError(f"work-tree modules not found ({n_mod})")
    # the patch-target sanitizer: equality or prefix-with-separator
    m = prog.module("dulwich/patch.py")
    f = m.funcs.get("_ensure_within_repo")
    if f is None:
        raise AnalysisError("patch._ensure_within_repo not found")
    resolved = {s_.targets[0].id for s_ in ast.walk(f.node) if isinstance(s_, ast.Assign) and isinstance(s_.targets[0], ast.Name)
                and isinstance(s_.value, ast.Call) and dotted(s_.value.func) in ("os.path.realpath", "os.path.abspath")}
    sw = [c for c in ast.walk(f.node) if isinstance(c, ast.Call) and isinstance(c.func, ast.Attribute) and c.func.attr == "startswith"
          and isinstance(c.func.value, ast.Name) and c.func.value.id in resolved]
    accepted = any(isinstance(c, ast.Call) and ((dotted(c.func) or "").endswith("commonpath") or
                                                (isinstance(c.func, ast.Attribute) and c.func.attr in ("relative_to", "is_relative_to")))
                   for c in ast.walk(f.node))
    for c in sw:
        a = c.args[0] if c.args else None
        with_sep = isinstance(a, ast.BinOp) and isinstance(a.op, ast.Add) and isinstance(a.left, ast.Name) and a.left.id in resolved and \
            ("sep" in norm(a.right) or (isinstance(a.right, ast.Constant) and a.right.value in ("/", b"/")))
        rep.ob("R17.7", m.rel, f.qual, f"`{norm(c, 60)}` compares with the root plus a separator", with_sep,
               "a prefix test against the bare root accepts sibling directories whose names start with the root's name", c.lineno)
        accepted = accepted or with_sep
    rep.ob("R17.7", m.rel, f.qual, "both paths are resolved (realpath) and the test is component-wise; outside raises", len(resolved) >= 2 and accepted
           and any(isinstance(x, ast.Raise) for x in ast.walk(f.node)), f"resolved: {sorted(resolved)}", f.node.lineno)


def _absent_label(test: ast.AST, var: str):
    """For a test on `var` alone: the edge label on which nothing is at the path (`var` is None / falsy)."""
    t = norm(test)
    if t in (var, f"{var} is not None", f"{var} != None"):
        return "false"
    if t in (f"not {var}", f"{var} is None", f"{var} == None"):
        return "true"
    return None


def _is_symlink_call(c: ast.Call) -> bool:
    fn = c.func
    names = {x.id for x in ast.walk(fn) if isinstance(x, ast.Name)} | {x.attr for x in ast.walk(fn) if isinstance(x, ast.Attribute)}
    return bool(names & {"symlink", "symlink_fn"}) and len(c.args) >= 2


def r17_2s(prog: Program, rep):
    """The symlink arm of build_file_from_blob: whatever the lstat found at the target is removed BEFORE the link is made.
    With core.symlinks=false the `symlink_fn` fallback writes the link text with open(dst, "wb"); an attempt-first order
    (`try: symlink() except FileExistsError: remove; symlink()`) lets that fallback write through an existing link."""
    f = prog.func("dulwich/index.py", "build_file_from_blob")
    g = cfg_of(prog, f)
    links = [i for i, n in g.nodes.items() for c in node_calls(n) if _is_symlink_call(c)]
    if not links:
        raise AnalysisError("build_file_from_blob: symlink creation call not found")
    removes = [i for i, n in g.nodes.items() for c in node_calls(n)
               if (dotted(c.func) in ("os.unlink", "os.remove") or callee_name(c) == "_remove_file_with_readonly_handling")]
    stat_vars = {v for i, n in g.nodes.items() if n.kind == "stmt" and isinstance(n.ast, ast.Assign) and isinstance(n.ast.value, ast.Call)
                 and dotted(n.ast.value.func) == "os.lstat" for v in stored_names_of(n.ast)}
    if not stat_vars:
        raise AnalysisError("build_file_from_blob: lstat of the target not found")
    absent = {}
    for i, n in g.nodes.items():
        if n.kind == "test":
            for v in stat_vars:
                lab = _absent_label(n.ast, v)
                if lab:
                    absent[i] = lab

    def ok(a, b, l):
        return not (a in absent and l == absent[a])
    bad = must_pass(g, links, removes, edge_ok=ok)
    rep.ob("R17.2", "dulwich/index.py", f.qual, "in the symlink arm, what lstat found at the target is removed before the link is created",
           not bad, "the link-creating call (which may be the core.symlinks=false fallback that open()s the target for writing) is "
           "reachable with something still at the target path: an existing symlink there is written through",
           g.nodes[(bad or links)[0]].line)


def stored_names_of(s: ast.AST) -> set[str]:
    return {x.id for x in ast.walk(s) if isinstance(x, ast.Name) and isinstance(x.ctx, ast.Store)}


def _strip_derived(g, rd, at: int, name: str, depth: int = 0) -> bool:
    """`name` at node `at` may hold `sep.join(parts[strip:])` (directly or through a copy)."""
    for d in rd[at].get(name, ()):
        n = g.nodes[d]
        a = n.ast
        if not isinstance(a, (ast.Assign, ast.AnnAssign)) or a.value is None:
            continue
        v = a.value
        if isinstance(v, ast.Call) and isinstance(v.func, ast.Attribute) and v.func.attr == "join" and v.args and \
                isinstance(v.args[0], ast.Subscript) and isinstance(v.args[0].slice, ast.Slice) and v.args[0].slice.lower is not None \
                and "strip" in norm(v.args[0].slice.lower):
            return True
        if isinstance(v, ast.Name) and depth < 3 and _strip_derived(g, rd, d, v.id, depth + 1):
            return True
    return False


def r17_8(prog: Program, rep):
    """SAME PATH in patch application.  Every path that apply_patches / _apply_rename_or_copy validates, joins to the
    repository root or uses as an index key has had the `-p<strip>` components removed; otherwise the path that was
    validated is not the path that the rename clean-up later removes (which strips, and is not validated again)."""
    m = prog.module("dulwich/patch.py")
    n = 0
    for q in ("_apply_rename_or_copy", "apply_patches"):
        f = m.funcs.get(q)
        if f is None:
            raise AnalysisError(f"patch.{q} not found")
        if "strip" not in [a.arg for a in f.node.args.args + f.node.args.kwonlyargs]:
            continue
        g = cfg_of(prog, f)
        rd = reaching_defs(g)
        for i, nd in g.nodes.items():
            for c in node_calls(nd):
                arg = None
                if callee_name(c) == "_validate_patch_target" and len(c.args) >= 3:
                    arg = c.args[2]
                elif dotted(c.func) == "os.path.join" and len(c.args) == 2 and "path" in norm(c.args[0]):
                    arg = c.args[1]
                if not isinstance(arg, ast.Name):
                    continue
                n += 1
                ok = _strip_derived(g, rd, i, arg.id)
                rep.ob("R17.8", m.rel, f.qual, f"`{norm(c, 60)}`: the path has had the -p components stripped", ok,
                       f"`{arg.id}` is used as a work-tree path without the `-p<strip>` prefix removed, while sibling sites strip: the "
                       f"path validated here is not the path the rename clean-up removes", nd.line)
    if n < 3:
        raise AnalysisError(f"expected >= 3 validated/joined patch paths in functions taking `strip`, found {n}")


def r17_9(prog: Program, rep):
    """_is_ntfs_dotgit: after the `.git` / `git~1` stem only the run of dots and spaces that FOLLOWS THE STEM is skipped,
    and what comes next must be the end or `:`.  Accepted idioms: a character loop that returns on the first byte that is
    not dot/space; lstrip of the tail; a regular expression.  Rejected: rstrip/strip of the tail (removes the run at the
    wrong end: `.git :x` and `.git.:$DATA` get through)."""
    m = prog.module("dulwich/index.py")
    f = m.funcs.get("_is_ntfs_dotgit")
    if f is None:
        raise AnalysisError("index._is_ntfs_dotgit not found")
    calls = [c for c in ast.walk(f.node) if isinstance(c, ast.Call) and isinstance(c.func, ast.Attribute)]
    wrong = [c for c in calls if c.func.attr in ("rstrip", "strip") and c.args and isinstance(c.args[0], ast.Constant)
             and isinstance(c.args[0].value, bytes) and set(c.args[0].value) <= set(b". ") and c.args[0].value]
    right = [c for c in calls if c.func.attr == "lstrip"]
    loops = [l for l in ast.walk(f.node) if isinstance(l, (ast.While, ast.For))
             and any(isinstance(x, ast.Return) for x in ast.walk(l))]
    regex = [c for c in calls if c.func.attr in ("match", "fullmatch", "search")]
    colon = any(isinstance(x, ast.Constant) and x.value == b":" for x in ast.walk(f.node)) or regex
    if not (wrong or right or loops or regex):
        raise AnalysisError("_is_ntfs_dotgit: tail handling idiom not recognised (loop / lstrip / regex expected)")
    rep.ob("R17.9", m.rel, f.qual, "only the dots/spaces directly after the .git stem are skipped before the `:`/end test",
           not wrong and bool(colon),
           (f"`{norm(wrong[0], 60)}` removes dots/spaces at the END of the tail, not the run after the stem: `.git :stream` and "
            f"`.git.:$DATA` are no longer recognised as .git") if wrong else "no test for the `:` stream marker",
           wrong[0].lineno if wrong else f.node.lineno)


def _symlink_replacers(prog: Program) -> set[str]:
    """Helpers that remove a symlink found at their path parameter: body tests islink / S_ISLNK of the parameter and
    unlinks it (e.g. patch._replace_symlink)."""
    out = set()
    for rel in SCOPE:
        if rel not in prog.modules:
            continue
        for q, f in prog.modules[rel].funcs.items():
            ps = [a.arg for a in f.node.args.args]
            if not ps or "#" in q or "." in q:
                continue
            src_tests = [c for c in ast.walk(f.node) if isinstance(c, ast.Call) and (dotted(c.func) == "os.path.islink" or callee_name(c) == "S_ISLNK")]
            rm = [c for c in ast.walk(f.node) if isinstance(c, ast.Call) and (dotted(c.func) in ("os.unlink", "os.remove") or
                  callee_name(c) == "_remove_file_with_readonly_handling") and c.args and isinstance(c.args[0], ast.Name) and c.args[0].id == ps[0]]
            writes = [c for c in ast.walk(f.node) if isinstance(c, ast.Call) and _open_write(c)]
            if src_tests and rm and not writes and len(list(ast.walk(f.node))) < 120:
                out.add(f.name)
    return out


def r17_10(prog: Program, rep):
    """LEAF SYMLINK.  A validated work-tree path may still END in a symlink that an earlier checkout materialised
    (`notes -> .git/hooks/pre-commit` resolves inside the work tree).  open(p, "wb") follows it.  Every write-mode open
    of a work-tree path is therefore dominated by a decision that does NOT follow the link: a symlink replacer helper,
    os.path.islink / lstat+S_ISLNK with removal on the link side, os.path.lexists (open only when nothing is there), or an
    unconditional removal.  os.path.exists is not such a decision (it is False for a dangling link)."""
    repl = _symlink_replacers(prog)
    n = 0
    for rel in ("dulwich/patch.py", "dulwich/sparse_patterns.py", "dulwich/index.py"):
        m = prog.module(rel)
        for q, f in m.funcs.items():
            if "#" in q:
                continue
            opens = [c for c in ast.walk(f.node) if isinstance(c, ast.Call) and m.enclosing_func(c) is f and _open_write(c)
                     and c.args and isinstance(c.args[0], ast.Name)]
            if not opens:
                continue
            g = cfg_of(prog, f)
            rd = reaching_defs(g)
            keyvars = _index_key_loopvars(g, f)
            params = [a.arg for a in f.node.args.args]
            for oc in opens:
                var = oc.args[0].id
                at = g.nodes_containing(oc)
                if not at:
                    continue
                at = at[0]
                # is it a work-tree path?  (validated patch target, tree-path conversion, index-key join, or the blob writer's target)
                wt = rel == "dulwich/index.py" and f.name == "build_file_from_blob" and var in params
                for d in rd[at].get(var, ()):
                    v = _def_value(g.nodes[d])
                    if isinstance(v, ast.Call) and callee_name(v) in ("_validate_patch_target", "_checked_worktree_path", "_tree_to_fs_path"):
                        wt = True
                    if isinstance(v, ast.Call) and dotted(v.func) == "os.path.join" and v.args:
                        pz = _strip_decode(v.args[-1])
                        if isinstance(pz, ast.Name) and (pz.id in keyvars or any(
                                isinstance(_def_value(g.nodes[dd]), ast.Call) and pz.id in keyvars for dd in rd[d].get(pz.id, ()))):
                            wt = True
                        if isinstance(pz, ast.Name) and any(k in norm(v) for k in keyvars):
                            wt = True
                if not wt:
                    continue
                n += 1

                def on_var(c):
                    return bool(c.args) and var in names_in(c.args[0])
                guards, veto = set(), {}
                for i, nd in g.nodes.items():
                    for c in node_calls(nd):
                        d = dotted(c.func) or ""
                        if callee_name(c) in repl and on_var(c):
                            guards.add(i)
                        elif d in ("os.unlink", "os.remove") and on_var(c) or callee_name(c) == "_remove_file_with_readonly_handling" and on_var(c):
                            guards.add(i)
                        elif nd.kind == "test" and d == "os.path.islink" and on_var(c):
                            guards.add(i)           # the link side is checked below (R17.2 does it for the blob writer)
                        elif nd.kind == "test" and callee_name(c) == "S_ISLNK":
                            guards.add(i)
                        elif nd.kind == "test" and d == "os.path.lexists" and on_var(c):
                            # open only where nothing is there: with the 'nothing there' edge cut, the open must be unreachable
                            t = norm(nd.ast)
                            veto[i] = "true" if t.startswith("not ") else "false"
                bad = must_pass(g, [at], guards, edge_ok=lambda a, b, l: not (a in veto and l == veto[a]))
                follows = [c for nd in g.nodes.values() if nd.kind == "test" for c in node_calls(nd) if dotted(c.func) == "os.path.exists" and on_var(c)]
                rep.ob("R17.10", rel, f.qual, f"`{norm(oc, 50)}`: a symlink at the leaf is detected without following it (and replaced) before the write",
                       not bad, f"`{var}` is validated component-wise but may END in a symlink materialised by an earlier checkout (e.g. -> .git/hooks/pre-commit, "
                       f"which resolves inside the work tree); open(.., 'wb') follows it" + ("; os.path.exists() is False for a dangling link, so it does not protect"
                                                                                           if follows else ""), oc.lineno)
    if n < 4:
        raise AnalysisError(f"expected >= 4 write-mode opens of work-tree paths in patch.py/sparse_patterns.py/index.py, found {n}")


def r17_11(prog: Program, rep):
    """(a) _remove_empty_parents never reaches the work-tree root or above: its loop is conditioned on CONTAINMENT below the root
    (a prefix test with a separator / commonpath), not on inequality with one spelling of the root path; (b) the operations that
    write at caller-given tree paths refuse to run without a work tree (repo.bare: Repo.path is then the control directory);
    (c) submodule_update checks every component of a submodule path for symbolic links before it creates anything there."""
    m = prog.module("dulwich/index.py")
    f = m.funcs.get("_remove_empty_parents")
    if f is None:
        raise AnalysisError("index._remove_empty_parents not found")
    loops = [l for l in ast.walk(f.node) if isinstance(l, ast.While)]
    cont = any(isinstance(c, ast.Call) and isinstance(c.func, ast.Attribute) and c.func.attr in ("startswith", "is_relative_to", "relative_to") or
               (isinstance(c, ast.Call) and (dotted(c.func) or "").endswith("commonpath")) for l in loops for c in ast.walk(l.test))
    rep.ob("R17.11", m.rel, f.qual, "the walk up is bounded by containment below the root, not by inequality with one spelling of it", bool(loops) and cont,
           "`parent != stop_at` is never false when the work tree is spelled with a trailing separator (core.worktree=/srv/site/): removing the last file "
           "rmdir()s the work tree root and every empty directory above it", (loops or [f.node])[0].lineno)
    pm = prog.module("dulwich/porcelain/__init__.py")
    cw = pm.funcs.get("_checked_worktree_path")
    wt = prog.module("dulwich/worktree.py").funcs.get("WorkTree.reset_index")
    if cw is None or wt is None:
        raise AnalysisError("_checked_worktree_path / WorkTree.reset_index not found")
    for fn, rel in ((cw, pm.rel), (wt, "dulwich/worktree.py")):
        g = cfg_of(prog, fn)
        bare = [i for i, n in g.nodes.items() if n.kind == "test" and ".bare" in norm(n.ast)]
        sinks = [i for i, n in g.nodes.items() for c in node_calls(n) if dotted(c.func) == "os.path.join" or callee_name(c) in ("build_index_from_tree",)]
        bad = must_pass(g, sinks, bare) if sinks else []
        rep.ob("R17.11", rel, fn.qual, "refuses to run without a work tree before any path is formed", bool(bare) and not bad,
               "for a bare repository (and one opened through GIT_DIR alone) Repo.path is the control directory: a tree entry hooks/pre-commit or config is written "
               "INTO it", fn.node.lineno)
    sm = prog.module("dulwich/porcelain/submodule.py")
    su = sm.funcs.get("submodule_update")
    if su is None:
        raise AnalysisError("porcelain.submodule.submodule_update not found")
    g = cfg_of(prog, su)
    checks = [i for i, n in g.nodes.items() for c in node_calls(n) if callee_name(c) in ("_check_submodule_path_not_symlink", "verify_leading_dirs") or dotted(c.func) == "os.lstat"]
    # the paths that are materialised are those put on the work list (or, without a work list, the creating calls themselves)
    sinks = [i for i, n in g.nodes.items() for c in node_calls(n) if isinstance(c.func, ast.Attribute) and c.func.attr == "append" and "submodule" in norm(c.func.value)]
    if not sinks:
        sinks = [i for i, n in g.nodes.items() for c in node_calls(n) if dotted(c.func) in ("os.makedirs", "open") or callee_name(c) in ("build_index_from_tree", "clone")]
    bad = must_pass(g, sinks, checks) if sinks else []
    rep.ob("R17.11", sm.rel, su.qual, "every component of the submodule path is lstat-checked for symlinks before anything is created", bool(checks) and bool(sinks) and not bad,
           "gitlink paths are only name-validated: a symlink left at (or above) the submodule path by an earlier checkout is followed by makedirs/open/the checkout "
           "of the submodule tree - files land outside the work tree or in .git/hooks", su.node.lineno)


def run(prog: Program, rep, tier="quick"):
    rep.rule("R17.11", "empty-parent removal bounded by containment; path-restricted checkout refuses bare repositories; submodule paths lstat-checked for symlinks")
    rep.rule("R17.10", "LEAF SYMLINK: every write-mode open of a work-tree path is dominated by a non-following symlink decision (replacer / islink / lstat / lexists); os.path.exists does not count")
    rep.rule("R17.8", "patch application: every validated / joined path has had the -p components stripped (the validated path is the path acted on)")
    rep.rule("R17.9", "_is_ntfs_dotgit skips only the dots/spaces that directly follow the stem (lstrip/loop idioms accepted, rstrip rejected)")
    rep.rule("R17.7", "containment of a resolved path is decided per path component (no os.path.commonprefix, no prefix test without separator)")
    rep.rule("R17.6", "verify_leading_dirs skips the lstat only for the leading run of verified components (accepted idioms enumerated)")
    rep.rule("R17.5", "transition helpers decide on the lstat result they are given; no symlink-following predicate on the leaf path")
    rep.rule("R17.1", "TAINT: fs paths built from tree paths / index keys reach mutating sinks only behind validate_path AND "
                      "verify_leading_dirs on the same path (sinks attributed by reaching definitions; helpers summarised)")
    rep.rule("R17.2", "build_file_from_blob: symlink test/removal precedes the write-mode open")
    rep.rule("R17.3", "chmod modes for checked-out files are canonicalised")
    rep.rule("R17.4", "element validator comes from configuration at every entry; protectNTFS default protects")
    rep.not_decided += ["that the element validators reject exactly the dangerous spellings", "TOCTOU between lstat and write",
                        "read-only uses of unvalidated paths (outside the statement)"]
    rep.note("dulwich/porcelain/lfs.py rewrites pointer files in place at index-key paths with no sanitizer; LFS smudging is "
             "not one of the operations the statement names (clone, checkout, reset, stash apply, patch), so it is listed "
             "here as information and not checked")
    rep.assumptions += ["mutating helpers are summarised to depth 3 over the work-tree modules",
                        "index keys are recognised as loop variables over an expression mentioning an index"]
    r17_1(prog, rep)
    r17_2(prog, rep)
    r17_3(prog, rep)
    r17_4(prog, rep)
    r17_5(prog, rep)
    r17_6(prog, rep)
    r17_7(prog, rep)
    r17_2s(prog, rep)
    r17_8(prog, rep)
    r17_9(prog, rep)
    r17_10(prog, rep)
    r17_11(prog, rep)
    from sa.common import alias_guard
    alias_guard(prog, rep, "R17.1", {"validate_path", "verify_leading_dirs", "_tree_to_fs_path"})
    rep.floor("R17.1", 6)
    rep.floor("R17.2", 1)
    rep.floor("R17.4", 4)
