"""C03 — delta codec: safety half of both decoders, constant agreement of both encoders.

R03.1 failure family (Python): every explicit raise in apply_delta is ApplyDeltaError; every ord(x[i:i+1]) on
      the delta is dominated by a bound test on the same index.
R03.2 post-conditions dominate the return (both languages): source size equality, all input consumed,
      produced length == declared length, opcode 0 rejected.
R03.3 no allocation sized by an unvalidated header value (Rust): vec![_; n] / with_capacity(n) / reserve /
      resize with n from get_delta_header_size only behind min(n, len-derived) or a comparison with supplied data.
R03.4 no panic on input-derived data (Rust): unwrap/expect on extract() of Python input, unbounded shift by a
      loop counter, i32 midpoint overflow.
R03.5 encoder constants agree: copy split limit, insert limit 127, size varints first.
R03.6 ingestion guard: non-blob objects resolved from a delta with empty payload are rejected.
R03.7 output never exceeds the declared size while decoding (running total tested before each append).
"""
from __future__ import annotations

import ast
import re

from sa.cfg import node_calls, node_exprs, _walk_shallow
from sa.common import cfg_of, var_cmp
from sa.consts import Folder
from sa.flow import must_pass, reach
from sa.load import AnalysisError, Program, callee_name, dotted, norm
from sa.rust import RustFile, find_seq, macro_calls, method_calls, receiver_chain

PACK = "dulwich/pack.py"
RPACK = "crates/pack/src/lib.rs"
CRATES = ["crates/pack/src/lib.rs", "crates/objects/src/lib.rs", "crates/diff-tree/src/lib.rs"]


def rust_files(prog: Program) -> dict[str, RustFile]:
    c = getattr(prog, "_rust", None)
    if c is None:
        c = prog._rust = {rel: RustFile(rel, prog.read_text(rel)) for rel in CRATES}
    return c


# ---------------------------------------------------------------------------- Rust rules (shared with C15)

def rust_unwrap_sites(rf: RustFile):
    """(fn name, line, receiver text, kind) for every .unwrap()/.expect() and panic-family macro."""
    out = []
    for name, f in rf.fns.items():
        toks = f.body
        for meth in ("unwrap", "expect"):
            for i in method_calls(toks, meth):
                recv = " ".join(t.text for t in receiver_chain(toks, i))
                out.append((name, toks[i].line, recv, meth))
        for mac in ("panic", "unreachable", "todo", "unimplemented"):
            for i in macro_calls(toks, mac):
                out.append((name, toks[i].line, mac + "!", "macro"))
    return out


INFALLIBLE_RECV = (
    r"PyTuple :: new \(",            # building a tuple from owned objects
    r"PyList :: new \(",
    r"\. into_pyobject \( py \)$",   # conversion of an already built collection/object
    r"into_pyobject \( py \)$",
)


def r03_4(prog: Program, rep, rule="R03.4"):
    n = 0
    for rel, rf in rust_files(prog).items():
        for fname, line, recv, kind in rust_unwrap_sites(rf):
            f = rf.fns[fname]
            n += 1
            if kind == "macro":
                # unreachable!() in a total match over a masked nibble is structural, not input derived
                ok = fname in ("bytehex",) and recv == "unreachable!"
                rep.ob(rule, rel, fname, f"{recv} is not reachable from input", ok,
                       "a panic macro on a path that input can reach", line)
                continue
            extract = "extract" in recv
            infallible = any(re.search(p, recv) for p in INFALLIBLE_RECV)
            guarded = False
            if extract:
                # `x.extract::<&[u8]>(py).unwrap()` right after a type guard on x (py_is_sha(&x) / is_instance_of)
                var = recv.split(" . ")[0].strip()
                txt = f.text()
                guarded = bool(re.search(rf"py_is_sha \( & {re.escape(var)} , py \) \?", txt)) or \
                    bool(re.search(rf"{re.escape(var)} \. is_instance_of", txt))
            ok = (infallible and not extract) or (extract and guarded)
            rep.ob(rule, rel, fname, f".{kind}() on `{recv[-60:]}`", ok,
                   "unwrap/expect on a value extracted from a Python argument: a wrong type panics (PanicException is a "
                   "BaseException) where the Python twin raises an ordinary error or accepts the value", line)
        # unbounded shift by a loop-carried counter
        for fname, f in rf.fns.items():
            toks = f.body
            for i in range(len(toks) - 1):
                if toks[i].text == "<<" and toks[i + 1].kind == "ident":
                    amt = toks[i + 1].text
                    # is `amt` incremented in a loop (amt += k)?
                    incs = find_seq(toks, [amt, "+=", "_"]) or find_seq(toks, [amt, "=", amt, "+"]) or \
                        [j for j in find_seq(toks, [amt, "=", amt, "."]) if toks[j + 4].text in ("saturating_add", "wrapping_add", "checked_add")]
                    if not incs:
                        continue
                    n += 1
                    # an upper-bound test on amt before the shift: `amt >= X` / `amt > X` / `amt < X`
                    bound = any(toks[j].text == amt and toks[j + 1].text in (">=", ">", "<", "<=") for j in range(0, i))
                    rep.ob(rule, rel, fname, f"shift `<< {amt}` by a loop counter is bounded", bound,
                           "the shift amount grows with every input byte and is never tested: a long varint panics with "
                           "'attempt to shift left with overflow'", toks[i].line)
        # i32 midpoint
        for fname, f in rf.fns.items():
            i32_params = [p for p, ty in f.params if ty.replace(" ", "") == "i32"]
            if len(i32_params) < 2:
                continue
            toks = f.body
            for i in find_seq(toks, ["(", "_", "+", "_", ")", "/", "2"]):
                a, b = toks[i + 1].text, toks[i + 3].text
                n += 1
                rep.ob(rule, rel, fname, f"midpoint ({a} + {b}) / 2 cannot overflow", False,
                       "the sum of two i32 indexes overflows above 2^30 (panics in debug builds, wraps in release)", toks[i].line)
            if find_seq(toks, ["_", "+", "(", "_", "-", "_", ")", "/", "2"]):
                n += 1
                rep.ob(rule, rel, fname, "midpoint computed as start + (end - start) / 2", True, "", f.line)
    return n


def r03_3(prog: Program, rep, rule="R03.3"):
    rf = rust_files(prog)[RPACK]
    f = rf.fns.get("apply_delta")
    if f is None:
        raise AnalysisError("Rust apply_delta not found")
    toks = f.body
    # variables bound from get_delta_header_size
    tainted = set()
    for i in find_seq(toks, ["let", "_", "=", "get_delta_header_size"]) + find_seq(toks, ["let", "mut", "_", "=", "get_delta_header_size"]):
        tainted.add(toks[i + 1].text if toks[i + 1].text != "mut" else toks[i + 2].text)
    if len(tainted) < 2:
        raise AnalysisError(f"Rust apply_delta: header size bindings not found ({tainted})")
    n = 0
    # vec![x; n]
    for i in macro_calls(toks, "vec"):
        j = i + 2
        depth = 0
        k = j
        while k < len(toks):
            if toks[k].text in ("[", "("):
                depth += 1
            if toks[k].text in ("]", ")"):
                depth -= 1
                if depth == 0:
                    break
            k += 1
        inner = toks[j + 1:k]
        if any(t.text == ";" for t in inner):
            size_toks = inner[[t.text for t in inner].index(";") + 1:]
            used = {t.text for t in size_toks} & tainted
            if used:
                n += 1
                sanit = any(t.text == "min" for t in size_toks)
                rep.ob(rule, RPACK, "apply_delta", f"vec![_; {' '.join(t.text for t in size_toks)}]", sanit,
                       "memory is allocated for the size the delta header *declares* before anything validates it: a "
                       "13-byte delta declaring 2^63-1 aborts the process", toks[i].line)
    for meth in ("with_capacity", "reserve", "resize", "reserve_exact"):
        for i in range(len(toks) - 1):
            if toks[i].text == meth and toks[i + 1].text == "(":
                depth = 0
                k = i + 1
                while k < len(toks):
                    if toks[k].text == "(":
                        depth += 1
                    if toks[k].text == ")":
                        depth -= 1
                        if depth == 0:
                            break
                    k += 1
                arg = toks[i + 2:k]
                used = {t.text for t in arg} & tainted
                if used:
                    n += 1
                    texts = [t.text for t in arg]
                    sanit = "min" in texts and any("len" in x for x in texts)
                    rep.ob(rule, RPACK, "apply_delta", f"{meth}({' '.join(texts)})", sanit,
                           "capacity taken from the declared size without bounding it by the supplied data", toks[i].line)
    if n == 0:
        rep.ob(rule, RPACK, "apply_delta", "no allocation is sized by a header value", True, "", f.line)
    # the running bound replaces the pre-sized buffer: every extend is preceded by the cumulative test
    ext = find_seq(toks, ["out", ".", "extend_from_slice"])
    idx = [i for i in range(len(toks) - 3) if toks[i].text == "outindex" and toks[i + 1].text in (">", "+")]
    rep.ob(rule, RPACK, "apply_delta", "output grows only behind a test of the running length against the declared size",
           (not ext) or bool(idx), "", f.line)


def r03_2_rust(prog: Program, rep):
    rf = rust_files(prog)[RPACK]
    f = rf.fns["apply_delta"]
    t = f.text()
    checks = {
        "source size equals the base length": "if src_size != src_buf_len { return Err (",
        "all input consumed": "if index != delta_len { return Err (",
        "produced length equals declared length": "if outindex != dest_size { return Err (",
        "opcode 0 rejected": 'else { return Err ( ApplyDeltaError :: new_err ( "Invalid opcode 0" ) ) ; }',
    }
    for what, needle in checks.items():
        rep.ob("R03.2", RPACK, "apply_delta", f"Rust: {what}", needle in t, "post-condition test not found", f.line)
    # the final Ok(...) comes after the three tests
    pos_ok = t.rfind("Ok ( vec !")
    rep.ob("R03.2", RPACK, "apply_delta", "Rust: the success return follows the post-condition tests",
           pos_ok > t.find("if outindex != dest_size") > t.find("if index != delta_len") > 0, "", f.line)


def r03_9(prog: Program, rep, m, F):
    """The copy opcode has FOUR offset bytes.  An encoder that is handed a source position of 2^32 or more must not emit it (it
    would silently keep the low 32 bits): the offset helper refuses/asserts such a value, or its callers test the position and
    fall back to a literal insert."""
    rep.rule("R03.9", "copy offsets of 2^32 and more are never encoded (refused, or replaced by literal inserts)")
    py = m.funcs.get("_encode_copy_operation")
    if py is None:
        raise AnalysisError("pack._encode_copy_operation not found")
    def guards(node):
        for x in ast.walk(node):
            v = var_cmp(x, F) if isinstance(x, ast.Compare) else None
            if v is not None and isinstance(v[2], int) and v[2] in (0xFFFFFFFF, 1 << 32):
                return True
            if isinstance(x, ast.BinOp) and isinstance(x.op, ast.RShift) and F.try_fold(x.right) == 32:
                return True
        return False
    cr = m.funcs.get("_create_delta_py")
    rep.ob("R03.9", PACK, py.qual, "the Python encoder tests a copy offset against 2^32 (in the helper or where it is called)", guards(py.node) or (cr is not None and guards(cr.node)),
           "_encode_copy_operation emits at most four offset bytes and nobody checks for more: with a base of 4 GiB or more `copy n from 2^32+1` is written as "
           "`copy n from 1` and both decoders return the wrong bytes without an error", py.node.lineno)
    from sa.rust import RustFile
    rf = RustFile("crates/pack/src/lib.rs", prog.read_text("crates/pack/src/lib.rs"))
    txt = rf.fns["encode_copy_operation"].text() + (rf.fns["create_delta"].text() if "create_delta" in rf.fns else "")
    rep.ob("R03.9", rf.rel, "encode_copy_operation", "the Rust encoder tests a copy offset against 2^32", "0xFFFF_FFFF" in txt or "u32 :: MAX" in txt or ">> 32" in txt or "u32 :: try_from" in txt,
           "same truncation in the Rust twin", rf.fns["encode_copy_operation"].line)


def run(prog: Program, rep, tier="quick"):
    rep.rule("R03.1", "Python apply_delta: explicit raises are ApplyDeltaError; every ord() of a delta byte is dominated by a bound test")
    rep.rule("R03.2", "post-conditions dominate the normal return in both languages")
    rep.rule("R03.3", "TAINT (Rust): declared sizes never size an allocation unless bounded by the supplied data")
    rep.rule("R03.4", "no panic on input-derived data in the Rust crates (unwrap on extract, unbounded shift, i32 midpoint)")
    rep.rule("R03.5", "TABLE-AGREE: encoder constants of the Python and Rust encoders")
    rep.rule("R03.6", "empty payload for non-blob delta results is rejected at ingestion")
    rep.rule("R03.8", "decoder format constants: size header ends on a clear continuation bit; copy size 0 means 0x10000")
    rep.rule("R03.7", "Python decoder tests the running output length against the declared size before each append")
    rep.not_decided += ["apply(create(b, t), b) == t", "equality of outputs across encoder/decoder pairs"]
    m = prog.module(PACK)
    F = Folder(prog, m)
    ad = m.funcs.get("apply_delta")
    if ad is None:
        raise AnalysisError("Python apply_delta not found")
    # ---- R03.1
    funcs = [ad] + [f for q, f in m.funcs.items() if q.startswith("apply_delta.<locals>.")]
    for f in funcs:
        for r in [x for x in ast.walk(f.node) if isinstance(x, ast.Raise) and m.enclosing_func(x) is f]:
            ok = isinstance(r.exc, ast.Call) and callee_name(r.exc) == "ApplyDeltaError"
            rep.ob("R03.1", PACK, f.qual, f"raise {norm(r.exc, 50) if r.exc else ''} is the delta error", ok,
                   "a malformed delta escapes as another exception type", r.lineno)
        g = cfg_of(prog, f)
        for i, n in g.nodes.items():
            for c in node_calls(n):
                pass
            for sub in [x for e in node_exprs(n) for x in _walk_shallow(e)
                        if isinstance(x, ast.Subscript) and isinstance(x.ctx, ast.Load) and dotted(x.value) == "delta"]:
                if True:
                    c = sub
                    sl = sub.slice
                    if isinstance(sl, ast.Slice) and sl.upper is None:
                        continue        # open-ended slice used in an error message, cannot raise
                    lo = sl.lower if isinstance(sl, ast.Slice) else sl
                    idx_names = {x.id for x in ast.walk(lo) if isinstance(x, ast.Name)} if lo is not None else set()
                    tests = {}
                    for j, tn in g.nodes.items():
                        if tn.kind == "test" and isinstance(tn.ast, ast.Compare) and "delta_length" in norm(tn.ast) \
                                and idx_names & {x.id for x in ast.walk(tn.ast) if isinstance(x, ast.Name)}:
                            # canonical comparisons (sa/canon.py) only use < and <=
                            op = tn.ast.ops[0]
                            left_is_idx = idx_names & {x.id for x in ast.walk(tn.ast.left) if isinstance(x, ast.Name)}
                            right_is_idx = idx_names & {x.id for x in ast.walk(tn.ast.comparators[0]) if isinstance(x, ast.Name)}
                            if isinstance(op, ast.Lt) and left_is_idx and not right_is_idx:
                                tests[j] = "true"       # index < delta_length: in-bounds side
                            elif isinstance(op, (ast.Lt, ast.LtE)) and right_is_idx and not left_is_idx:
                                tests[j] = "false"      # delta_length <= index / delta_length < index + n raises on true
                    r = reach(g, [g.entry], include_srcs=True, edge_ok=lambda a, b, l: not (a in tests and l == tests[a]))
                    ok = bool(tests) and i not in r
                    rep.ob("R03.1", PACK, f.qual, f"{norm(c, 40)} is dominated by a bound test on its index", ok,
                           "a byte of the delta is read without a dominating bound test: a truncated delta raises "
                           "TypeError/IndexError instead of ApplyDeltaError", c.lineno)
    # ---- R03.2 python
    g = cfg_of(prog, ad)
    rets = [i for i, n in g.nodes.items() if n.kind == "stmt" and isinstance(n.ast, ast.Return)]
    def tests_matching(pred):
        return [i for i, n in g.nodes.items() if n.kind == "test" and pred(norm(n.ast))]
    conds = {
        "source size equals the base length": lambda s: "src_size != len(src_buf)" in s or "len(src_buf) != src_size" in s,
        "all input consumed": lambda s: "index != delta_length" in s or "delta_length != index" in s,
        "produced length equals declared length": lambda s: "dest_size != " in s or "!= dest_size" in s,
    }
    for what, pred in conds.items():
        ts = tests_matching(pred)
        # the true side raises; the return is reachable only via the false side
        r = reach(g, [g.entry], include_srcs=True, edge_ok=lambda a, b, l: not (a in ts and l == "false"))
        ok = bool(ts) and not any(x in r for x in rets)
        rep.ob("R03.2", PACK, "apply_delta", f"Python: {what}", ok, "the success return is reachable without this test", ad.node.lineno)
    zero = [x for x in ast.walk(ad.node) if isinstance(x, ast.Raise) and "Invalid opcode 0" in norm(x)]
    rep.ob("R03.2", PACK, "apply_delta", "Python: opcode 0 rejected", bool(zero), "", ad.node.lineno)
    r03_2_rust(prog, rep)
    r03_3(prog, rep)
    r03_4(prog, rep)
    # ---- R03.5
    rf = rust_files(prog)[RPACK]
    py_max = F.try_fold(m.consts.get("_MAX_COPY_LEN")) if "_MAX_COPY_LEN" in m.consts else None
    rep.ob("R03.5", PACK, "_MAX_COPY_LEN", "Python and Rust copy limits are equal and 0xFFFF", py_max == rf.const_int("MAX_COPY_LEN") == 0xFFFF,
           f"python {py_max} rust {rf.const_int('MAX_COPY_LEN')}", m.consts["_MAX_COPY_LEN"].lineno if "_MAX_COPY_LEN" in m.consts else 0)
    cd = m.funcs.get("_create_delta_py")
    src = norm(cd.node, 100000)
    rep.ob("R03.5", PACK, cd.qual, "Python encoder splits copies with min(len, _MAX_COPY_LEN)", "min(copy_len, _MAX_COPY_LEN)" in src, "", cd.node.lineno)
    rep.ob("R03.5", PACK, cd.qual, "Python encoder caps literal inserts at 127", ("127 < s" in src or "s > 127" in src) and "bytes([127])" in src and "bytes([s])" in src, "", cd.node.lineno)
    def _preorder(n_):
        yield n_
        for ch_ in ast.iter_child_nodes(n_):
            yield from _preorder(ch_)
    ys = [y for y in _preorder(cd.node) if isinstance(y, ast.Yield)]      # program order (inlined code keeps foreign line numbers)
    rep.ob("R03.5", PACK, cd.qual, "Python encoder emits both size varints first",
           len(ys) >= 2 and "_delta_encode_size(len(base_buf))" in norm(ys[0]) and "_delta_encode_size(len(target_buf))" in norm(ys[1]), "", cd.node.lineno)
    ci = rf.fns.get("create_delta_internal")
    t = ci.text()
    rep.ob("R03.5", RPACK, "create_delta_internal", "Rust encoder splits copies with min(MAX_COPY_LEN)", "copy_len . min ( MAX_COPY_LEN )" in t, "", ci.line)
    rep.ob("R03.5", RPACK, "create_delta_internal", "Rust encoder caps literal inserts at 127", t.count("remaining . min ( 127 )") >= 2, "", ci.line)
    rep.ob("R03.5", RPACK, "create_delta_internal", "Rust encoder emits both size varints first",
           t.find("delta_encode_size ( base_buf . len ( ) )") < t.find("delta_encode_size ( target_buf . len ( ) )") < t.find("capture_diff_slices"), "", ci.line)
    # the copy-splitting loops of the twin encoders advance the same way (SIBLINGS-AGREE on the loop updates)
    upd = sorted(norm(x) for w_ in ast.walk(cd.node) if isinstance(w_, ast.While) and "copy_len" in norm(w_.test)
                 for x in w_.body if isinstance(x, (ast.AugAssign, ast.Assign)) and "to_copy" in norm(x) and not norm(x).startswith("to_copy"))
    rs_upd = "copy_start += to_copy ; copy_len -= to_copy ;" in t
    rep.ob("R03.5", PACK, cd.qual, "copy-splitting loop advances start by and shrinks length by the amount copied, like the Rust twin",
           upd == ["copy_len -= to_copy", "copy_start += to_copy"] and rs_upd,
           f"python loop updates {upd}; rust has `copy_start += to_copy; copy_len -= to_copy`: {rs_upd}", cd.node.lineno)
    eco_py = norm(m.funcs["_encode_copy_operation"].node, 10000)
    eco_rs = rf.fns["encode_copy_operation"].text()
    eco_n = m.funcs["_encode_copy_operation"].node
    rng = [F.try_fold(lp.iter.args[0]) for lp in ast.walk(eco_n) if isinstance(lp, ast.For) and isinstance(lp.iter, ast.Call) and callee_name(lp.iter) == "range"
           and len(lp.iter.args) == 1]
    flag_ofs = []
    for x in ast.walk(eco_n):
        if isinstance(x, ast.AugAssign) and isinstance(x.op, ast.BitOr) and isinstance(x.value, ast.BinOp) and isinstance(x.value.op, ast.LShift) \
                and F.try_fold(x.value.left) == 1:
            sh = x.value.right
            if isinstance(sh, ast.Name):
                flag_ofs.append(0)
            elif isinstance(sh, ast.BinOp) and isinstance(sh.op, ast.Add):
                k = F.try_fold(sh.left) if not isinstance(sh.left, ast.Name) or F.try_fold(sh.left) is not None else F.try_fold(sh.right)
                k = k if isinstance(k, int) else F.try_fold(sh.right)
                flag_ofs.append(k)
    rep.ob("R03.5", PACK, "_encode_copy_operation", "copy op: 4 offset bytes, 2 length bytes, flag bits 0-3 and 4-5 in both encoders",
           rng == [4, 2] and flag_ofs == [0, 4] and "0 .. 4" in eco_rs and "0 .. 2" in eco_rs and "1 << ( 4 + i )" in eco_rs,
           f"python: loops over {rng} bytes, flag bit offsets {flag_ofs}", eco_n.lineno)
    # each offset / length byte of a copy op is emitted or skipped on its own: no early exit from the byte loops (a zero byte
    # below a non-zero byte is skipped, the higher byte still has to be written)
    eco = m.funcs["_encode_copy_operation"]
    exits = [x for lp in ast.walk(eco.node) if isinstance(lp, ast.For) and "range(" in norm(lp.iter)
             for x in ast.walk(lp) if isinstance(x, (ast.Break, ast.Return))]
    loops = [lp for lp in ast.walk(eco.node) if isinstance(lp, ast.For) and "range(" in norm(lp.iter)]
    rep.ob("R03.5", PACK, eco.qual, "the byte loops of the copy op have no early exit (bytes are independent)", len(loops) == 2 and not exits,
           f"`{type(exits[0]).__name__.lower()}` inside the byte loop: an offset such as 0x10000 or 0xFF00 loses its high bytes and the "
           f"delta copies from the wrong place in the base" if exits else f"{len(loops)} byte loops", exits[0].lineno if exits else eco.node.lineno)
    # size varint (LEB128) encoder: idiom A `c = size & 0x7F; size >>= 7; while size: emit c | 0x80; ...; emit c`
    #                               idiom B `while size > 0x7F: emit size & 0x7F | 0x80; size >>= 7; emit size`
    from sa.common import var_cmp, same_int_test
    des = m.funcs.get("_delta_encode_size")
    if des is None:
        raise AnalysisError("_delta_encode_size not found")
    # idiom independent formulation on the CFG: the decision "another group follows" is either a truthiness test of the
    # value that is evaluated only AFTER a `>>= 7` (on the way in and around the loop), or a comparison of the unshifted
    # value equivalent to `> 0x7F`; groups are `value & 0x7F`, the flag is 0x80
    gd = cfg_of(prog, des)
    pname = des.node.args.args[0].arg if des.node.args.args else "size"
    shifts_n = [i for i, n in gd.nodes.items() if n.kind == "stmt" and isinstance(n.ast, ast.AugAssign) and isinstance(n.ast.op, ast.RShift)
                and isinstance(n.ast.target, ast.Name) and n.ast.target.id == pname and F.try_fold(n.ast.value) == 7]
    truth_t = [i for i, n in gd.nodes.items() if n.kind == "test" and isinstance(n.ast, ast.Name) and n.ast.id == pname]
    cmp_t = [(i, var_cmp(n.ast, F)) for i, n in gd.nodes.items() if n.kind == "test" and var_cmp(n.ast, F) is not None
             and isinstance(var_cmp(n.ast, F)[0], ast.Name) and var_cmp(n.ast, F)[0].id == pname]
    verdict, why = None, ""
    if truth_t and not cmp_t:
        on_entry = not must_pass(gd, truth_t, shifts_n)
        around = all(not must_pass(gd, [t_], shifts_n, start=[b_ for b_, l_ in gd.succ[t_] if l_ in ("true", "false")]) for t_ in truth_t)
        verdict = bool(shifts_n) and on_entry and around
        why = "the continuation test looks at the value before it was shifted (on entry or around the loop): the last group is " \
              "followed by a superfluous zero byte or cut off"
    elif cmp_t and not truth_t:
        verdict = all(same_int_test(v[1], v[2], ">", 0x7F) or same_int_test(v[1], v[2], "<=", 0x7F) for _, v in cmp_t) and bool(shifts_n)
        why = f"the loop continues while `{norm(gd.nodes[cmp_t[0][0]].ast)}`; a final group needs the loop exactly while the value exceeds 0x7F: " \
              f"sizes whose last group is exactly 0x80 are written without a terminating byte"
    if verdict is None:
        raise AnalysisError("_delta_encode_size: varint loop idiom not recognised")
    masks = sorted({F.try_fold(x.right) for x in ast.walk(des.node) if isinstance(x, ast.BinOp) and isinstance(x.op, (ast.BitAnd, ast.BitOr)) and F.try_fold(x.right) is not None})
    shifts = [F.try_fold(x.value) for x in ast.walk(des.node) if isinstance(x, ast.AugAssign) and isinstance(x.op, ast.RShift)]
    rep.ob("R03.5", PACK, des.qual, "size varint encoder: 7-bit groups, continuation 0x80, loop exactly while more than 7 bits remain", verdict and masks == [127, 128]
           and set(shifts) == {7}, why if not verdict else f"masks {masks} shifts {shifts}", des.node.lineno)
    # ---- R03.6
    ro = m.funcs.get("DeltaChainIterator._resolve_object")
    if ro is None:
        raise AnalysisError("DeltaChainIterator._resolve_object not found")
    g = cfg_of(prog, ro)
    ap = [i for i, n in g.nodes.items() for c in node_calls(n) if callee_name(c) == "apply_delta"]
    # however the guard is spelled: following only the edges that mean "payload is empty" (at the length test) and "not a blob"
    # (at the type test), no return is reachable from the successful apply_delta
    empty_edge = {}              # length test -> the edge that means "payload is empty"
    type_test = {}               # type test -> function(type number) -> label of the edge taken
    for i, n in g.nodes.items():
        if n.kind != "test":
            continue
        t_ = norm(n.ast)
        v_ = var_cmp(n.ast, F)
        if v_ is not None and ("chunks_length(" in norm(v_[0]) or "len(" in norm(v_[0])) and "obj_chunks" in norm(v_[0]):
            if same_int_test(v_[1], v_[2], "==", 0) or same_int_test(v_[1], v_[2], "<=", 0) or same_int_test(v_[1], v_[2], "<", 1):
                empty_edge[i] = "true"
            elif same_int_test(v_[1], v_[2], "!=", 0) or same_int_test(v_[1], v_[2], ">", 0) or same_int_test(v_[1], v_[2], ">=", 1):
                empty_edge[i] = "false"
        elif v_ is not None and isinstance(v_[0], ast.Name) and "type" in v_[0].id and isinstance(v_[2], int) and v_[1] in ("==", "!="):
            type_test[i] = (lambda k, op: (lambda t: "true" if ((t == k) == (op == "==")) else "false"))(v_[2], v_[1])
        elif isinstance(n.ast, ast.Compare) and len(n.ast.ops) == 1 and isinstance(n.ast.ops[0], (ast.In, ast.NotIn)) and isinstance(n.ast.left, ast.Name) \
                and "type" in n.ast.left.id and isinstance(F.try_fold(n.ast.comparators[0]), (tuple, list, set, frozenset)):
            vals = set(F.try_fold(n.ast.comparators[0]))
            type_test[i] = (lambda vs, neg: (lambda t: "true" if ((t in vs) != neg) else "false"))(vals, isinstance(n.ast.ops[0], ast.NotIn))
        elif isinstance(n.ast, ast.Call) and callee_name(n.ast) in ("chunks_length", "len") and "obj_chunks" in t_:
            empty_edge[i] = "false"           # truthiness of the length: the false edge is "empty"
    guard = list(empty_edge)
    rets = [i for i, n in g.nodes.items() if n.kind == "stmt" and isinstance(n.ast, ast.Return)]
    starts = [b for a in ap for b, l in g.succ[a] if l not in ("exc", "raise")]
    # however the guard is spelled: for each object type, follow only the edges taken when the payload is EMPTY and the type is t;
    # the type is exempt when a return is reachable from the successful apply_delta
    exempt: set[int] = set()
    for t in (1, 2, 3, 4):
        def ok(a_, b_, l_, t=t):
            if l_ not in ("true", "false"):
                return True
            if a_ in empty_edge:
                return l_ == empty_edge[a_]
            if a_ in type_test:
                return l_ == type_test[a_](t)
            return True
        r_ = reach(g, starts, include_srcs=True, edge_ok=ok) if starts else set()
        if any(x in r_ for x in rets):
            exempt.add(t)
    bad = sorted(exempt - {2, 3})
    rep.ob("R03.6", PACK, ro.qual, "result of apply_delta passes the empty-payload test before it is returned", bool(ap) and bool(guard) and not bad,
           "", ro.node.lineno)
    rep.ob("R03.6", PACK, ro.qual, "the empty-payload guard exempts exactly the types that can be empty: blob (3) and tree (2)", exempt == {2, 3},
           f"exempt types {sorted(exempt)}: " + ("the EMPTY TREE is an ordinary object and a correct delta against any tree produces it - the pack is rejected although "
                                                   "git and dulwich's other resolver accept it" if 2 not in exempt else "a commit or tag with an empty payload is let through"),
           ro.node.lineno)
    # "no base" is None; an EMPTY base (the empty blob, b"" / []) is a base like any other: the decision is an identity test
    bp = [a.arg for a in ro.node.args.args if "base" in a.arg and a.annotation is not None and "None" in norm(a.annotation)]
    truthy = []
    for x in ast.walk(ro.node):
        if isinstance(x, (ast.If, ast.IfExp, ast.While, ast.Assert)):
            st = [x.test]
            while st:
                e = st.pop()
                if isinstance(e, ast.BoolOp):
                    st.extend(e.values)
                elif isinstance(e, ast.UnaryOp) and isinstance(e.op, ast.Not):
                    st.append(e.operand)
                elif isinstance(e, ast.Name) and e.id in bp:
                    truthy.append(e)
    ident = [x for x in ast.walk(ro.node) if isinstance(x, ast.Compare) and isinstance(x.left, ast.Name) and x.left.id in bp
             and isinstance(x.ops[0], (ast.Is, ast.IsNot))]
    rep.ob("R03.6", PACK, ro.qual, f"whether there is a base ({', '.join(bp)}) is decided by `is None`, not by truthiness", bool(bp) and bool(ident) and not truthy,
           "an empty base (the empty blob as delta base, e.g. of a thin pack) is taken for 'no base': the delta is not applied", 
           truthy[0].lineno if truthy else ro.node.lineno)
    # ---- R03.8 format constants of the decoder: a size header ends only on a byte whose continuation bit is clear (running out
    # of input with the bit set is a truncated delta), and a copy size of zero - however it came about - means 0x10000
    hs = m.funcs.get("apply_delta.<locals>.get_delta_header_size")
    if hs is None:
        raise AnalysisError("apply_delta.<locals>.get_delta_header_size not found")
    gh = cfg_of(prog, hs)
    cont = {i for i, n in gh.nodes.items() if n.kind == "test" and isinstance(n.ast, ast.BinOp) and isinstance(n.ast.op, ast.BitAnd) and F.try_fold(n.ast.right) == 0x80}
    rets_h = [i for i, n in gh.nodes.items() if n.kind == "stmt" and isinstance(n.ast, ast.Return)]
    r_h = reach(gh, [gh.entry], include_srcs=True, edge_ok=lambda a, b, l: not (a in cont and l == "false"))
    rep.ob("R03.8", PACK, hs.qual, "the size header ends only on a byte with the continuation bit clear", bool(cont) and bool(rets_h) and not any(x in r_h for x in rets_h),
           "the loop can end while the last byte read still has its continuation bit set (end of input): a delta truncated inside a size "
           "header is accepted with a partial size instead of being rejected", hs.node.lineno)
    zero_sz = [x for x in ast.walk(ad.node) if isinstance(x, ast.If) and var_cmp(x.test, F) is not None and "size" in norm(var_cmp(x.test, F)[0])
               and same_int_test(var_cmp(x.test, F)[1], var_cmp(x.test, F)[2], "==", 0)]
    vals = [F.try_fold(s_.value) for x in zero_sz for s_ in x.body if isinstance(s_, ast.Assign)]
    rs_txt = rf.fns["apply_delta"].text() if "apply_delta" in rf.fns else ""
    rep.ob("R03.8", PACK, "apply_delta", "a copy size of zero means 0x10000 (both decoders)", vals == [0x10000] and ("0x10000" in rs_txt or "65536" in rs_txt),
           f"python: `if <size> == 0` assigns {vals}; rust mentions 0x10000: {'0x10000' in rs_txt or '65536' in rs_txt}: git writes 64 KiB copies with "
           f"the size bytes left out (and a decoder must also read explicit zero size bytes that way)", zero_sz[0].lineno if zero_sz else ad.node.lineno)
    # ---- R03.7
    g = cfg_of(prog, ad)
    appends = [i for i, n in g.nodes.items() for c in node_calls(n) if dotted(c.func) == "out.append"]
    if len(appends) < 2:
        raise AnalysisError("apply_delta: output appends not found")
    for a in appends:
        # a dominating test mentioning the running length and the declared size
        tests = [i for i, n in g.nodes.items() if n.kind == "test" and "dest_size" in norm(n.ast) and "out_len" in norm(n.ast)]
        # within the same loop iteration: reachable from the loop head without passing such a test?
        heads = [i for i, n in g.nodes.items() if n.kind == "test" and "index < delta_length" in norm(n.ast)]
        r = reach(g, heads, avoid=set(tests), include_srcs=True)
        rep.ob("R03.7", PACK, "apply_delta", f"`{norm(next(node_exprs(g.nodes[a]).__iter__()), 50)}` follows a running-length test", bool(tests) and a not in r,
               "output is appended without comparing the accumulated length with the declared size: many small copy "
               "operations build an output out of proportion to the delta before the final check", g.nodes[a].line)
    r03_9(prog, rep, m, F)
    rep.floor("R03.1", 8)
    rep.floor("R03.2", 9)
    rep.floor("R03.3", 2)
    rep.floor("R03.4", 11)
    rep.floor("R03.5", 8)
