"""C07 — lock files: mutual exclusion, all-or-nothing replacement.

R07.1  typestate of the lock object itself (dulwich/file.py:_GitFile)
R07.2  every write-mode GitFile user pairs acquire with commit/abort on all paths (RELEASE-ON-EXIT)
R07.3  who may write a protected file (WHO-MAY)
"""
from __future__ import annotations

import ast

from sa.cfg import CFG, EXC_LABELS, node_calls, node_exprs
from sa.common import cfg_of, closing_wrappers, gitfile_mode, is_gitfile_call
from sa.flow import Product, lines, must_pass, reach
from sa.load import AnalysisError, Program, arg_of, callee_name, dotted, norm, walk_no_nested

FILE_PY = "dulwich/file.py"


# =============================================================================== R07.1

def _find_lock_class(prog: Program):
    m = prog.module(FILE_PY)
    for cname, cls in m.classes.items():
        init = m.funcs.get(f"{cname}.__init__")
        if init is None:
            continue
        for c in ast.walk(init.node):
            if isinstance(c, ast.Call) and dotted(c.func) == "os.open":
                return cls
    raise AnalysisError("no class in dulwich/file.py acquires with os.open (lock class not found)")


def _flag_names(e: ast.AST) -> set[str]:
    out = set()
    for n in ast.walk(e):
        d = dotted(n) if isinstance(n, (ast.Attribute, ast.Name)) else None
        if d:
            out.add(d.split(".")[-1])
    return out


def _self_attr(e: ast.AST) -> str | None:
    if isinstance(e, ast.Attribute) and isinstance(e.value, ast.Name) and e.value.id == "self":
        return e.attr
    return None


class LockProto:
    """Facts about the lock class, discovered from its source."""

    def __init__(self, prog: Program, rep):
        self.prog = prog
        self.cls = _find_lock_class(prog)
        self.m = prog.module(FILE_PY)
        self.cname = self.cls.name
        self.init = self.m.funcs[f"{self.cname}.__init__"]
        # lock path attribute = first argument of os.open ; target attribute = what the lock path is derived from
        self.lock_attr = None
        self.open_call = None
        for c in ast.walk(self.init.node):
            if isinstance(c, ast.Call) and dotted(c.func) == "os.open":
                self.open_call = c
                self.lock_attr = _self_attr(c.args[0]) if c.args else None
        if self.lock_attr is None:
            raise AnalysisError("os.open in the lock class does not open a self.<attr> path")
        self.target_attr = None
        for s in ast.walk(self.init.node):
            if isinstance(s, (ast.Assign, ast.AnnAssign)):
                tgt = s.targets[0] if isinstance(s, ast.Assign) else s.target
                if _self_attr(tgt) == self.lock_attr and isinstance(s.value, ast.BinOp):
                    a = _self_attr(s.value.left)
                    suffix = s.value.right
                    if isinstance(suffix, ast.Name) and suffix.id in self.m.consts:
                        suffix = self.m.consts[suffix.id]            # a module-level constant holding the suffix
                    if a and isinstance(suffix, ast.Constant) and suffix.value in (".lock", b".lock"):
                        self.target_attr = a
        self.closed_attr = None
        for s in ast.walk(self.init.node):
            if isinstance(s, ast.Assign) and isinstance(s.value, ast.Constant) and s.value.value is False:
                a = _self_attr(s.targets[0])
                if a:
                    self.closed_attr = a
        self.file_attr = None
        for s in ast.walk(self.init.node):
            if isinstance(s, ast.Assign) and isinstance(s.value, ast.Call) and dotted(s.value.func) == "os.fdopen":
                self.file_attr = _self_attr(s.targets[0])

    # ---- event classification for statements inside the lock class
    def events(self, node) -> list[str]:
        ev = []
        for c in node_calls(node):
            d = dotted(c.func) or ""
            args = [_self_attr(a) for a in c.args]
            if d in ("os.replace", "os.rename", "_fancy_rename", "shutil.move") and len(args) >= 2 \
                    and args[0] == self.lock_attr and args[1] == self.target_attr:
                ev.append("RENAME")
            elif d in ("os.remove", "os.unlink") and args[:1] == [self.lock_attr]:
                ev.append("REMOVE")
            elif d == f"self.{self.file_attr}.flush":
                ev.append("FLUSH")
            elif d == "os.fsync":
                ev.append("FSYNC")
            elif d == f"self.{self.file_attr}.close":
                ev.append("FCLOSE")
            elif d == "self.abort":
                ev.append("CALL_ABORT")
            elif d == "self.close":
                ev.append("CALL_CLOSE")
        for e in node_exprs(node):
            if isinstance(e, ast.Assign) and _self_attr(e.targets[0]) == self.closed_attr \
                    and isinstance(e.value, ast.Constant) and e.value.value is True:
                ev.append("SETCLOSED")
        return ev

    def closed_test(self, node):
        """polarity of a test node on self._closed: True if the test is the flag itself."""
        if node.kind != "test":
            return None
        if _self_attr(node.ast) == self.closed_attr:
            return True
        return None


def _run_lock_method(lp: LockProto, g: CFG, abort_summary=None, start_state=("HELD", False, False)):
    """Typestate over one method of the lock class.  state = (phase, closed_flag, gone) where `gone` records that the
    lock path was given up for certain (unlink returned normally, or the rename succeeded): from then on the path may
    belong to another writer.  Returns (product, problems) where problems = [(kind, node id, state)]."""
    problems = []

    def node_fn(node, st):
        return st

    def edge_fn(node, st, label, succ):
        phase, closed, gone = st
        pol = lp.closed_test(node)
        if pol is not None and label in ("true", "false"):
            if (label == "true") != closed:
                return None
        evs = lp.events(node)
        exc = label in EXC_LABELS
        for e in evs:
            if e == "RENAME":
                if not exc and phase == "HELD":
                    phase = "TRANSFERRED"
                    gone = True
            elif e == "REMOVE":
                if phase == "TRANSFERRED":
                    problems.append(("unlink-after-rename", node.id, st))
                elif phase == "HELD":
                    phase = "RELEASED"   # attempted on both edges: failure of the unlink itself is not modelled
                if not exc:
                    gone = True
            elif e == "SETCLOSED":
                if not exc:
                    closed = True
            elif e == "CALL_ABORT" and abort_summary is not None:
                if not closed:
                    if phase == "TRANSFERRED":
                        problems.append(("unlink-after-rename", node.id, st))
                    elif phase == "HELD":
                        if not exc and abort_summary["normal"]:
                            phase = "RELEASED"
                        elif exc and abort_summary["raise"]:
                            phase = "RELEASED"
                    if not exc:
                        closed = True
                        gone = True
                    elif abort_summary.get("flag_ok_on_raise", False):
                        # abort() raised: by its own R07.1g every such exit has (path gone => flag set); represent it by
                        # the stronger of the two cases
                        closed, gone = True, True
                    else:
                        gone = True     # abort() may have unlinked before it raised, without setting the flag
        return (phase, closed, gone)

    prod = Product(g, [(g.entry, start_state)], node_fn, edge_fn)
    return prod, problems


def r07_1(prog: Program, rep):
    lp = LockProto(prog, rep)
    F = FILE_PY
    q = lambda name: f"{lp.cname}.{name}"
    # (a) acquisition
    fl_expr = lp.open_call.args[1] if len(lp.open_call.args) > 1 else None
    if isinstance(fl_expr, ast.Name) and fl_expr.id in lp.m.consts:
        fl_expr = lp.m.consts[fl_expr.id]                        # flags hoisted into a module-level constant
    flags = _flag_names(fl_expr) if fl_expr is not None else set()
    rep.ob("R07.1a", F, q("__init__"), "os.open flags contain O_CREAT|O_EXCL",
           {"O_CREAT", "O_EXCL"} <= flags, f"flags={sorted(flags)}", lp.open_call.lineno)
    rep.ob("R07.1a", F, q("__init__"), "lock path is <target>.lock", lp.target_attr is not None,
           f"lock attr={lp.lock_attr} target attr={lp.target_attr}", lp.open_call.lineno)
    # FileExistsError mapped to FileLocked
    mapped = False
    for t in ast.walk(lp.init.node):
        if isinstance(t, ast.Try) and any(c is lp.open_call for s in t.body for c in ast.walk(s)):
            for h in t.handlers:
                hn = dotted(h.type) if h.type is not None else None
                if hn == "FileExistsError":
                    for r in ast.walk(h):
                        if isinstance(r, ast.Raise) and isinstance(r.exc, ast.Call) and callee_name(r.exc) == "FileLocked":
                            mapped = True
    rep.ob("R07.1a", F, q("__init__"), "FileExistsError -> FileLocked", mapped, "", lp.open_call.lineno)
    # no other creating open in __init__ before the exclusive one
    others = [c for c in ast.walk(lp.init.node) if isinstance(c, ast.Call) and dotted(c.func) in ("open", "io.open")
              ]
    rep.ob("R07.1a", F, q("__init__"), "single acquisition call", not others,
           "additional open() in the acquisition path" if others else "", lp.init.node.lineno)

    # a failed acquisition owns nothing: no unlink of the lock path is reachable from the exception edge of the os.open
    # (the file that exists there is the current holder's lock).  Tests of the descriptor variable are evaluated: it is
    # still unbound/None on that edge.
    gi = cfg_of(prog, lp.init)
    onodes = [i for i, n in gi.nodes.items() if any(c is lp.open_call for c in node_calls(n))]
    fdvar = None
    for i in onodes:
        a_ = gi.nodes[i].ast
        if isinstance(a_, ast.Assign) and isinstance(a_.targets[0], ast.Name):
            fdvar = a_.targets[0].id

    def fd_none_edge(a, b, l):
        n = gi.nodes[a]
        if n.kind != "test" or fdvar is None:
            return True
        t = n.ast
        if isinstance(t, ast.Name) and t.id == fdvar:
            return l != "true"
        if isinstance(t, ast.Compare) and len(t.ops) == 1 and isinstance(t.left, ast.Name) and t.left.id == fdvar \
                and isinstance(t.comparators[0], ast.Constant) and t.comparators[0].value is None:
            if isinstance(t.ops[0], ast.IsNot):
                return l != "true"
            if isinstance(t.ops[0], ast.Is):
                return l != "false"
        return True
    fail = [b for i in onodes for b, l in gi.succ[i] if l in EXC_LABELS]
    r_ = reach(gi, fail, include_srcs=True, edge_ok=fd_none_edge) if fail else set()
    rm = [i for i in r_ if "REMOVE" in lp.events(gi.nodes[i])]
    rep.ob("R07.1a", F, q("__init__"), "a failed acquisition never unlinks the lock path (it belongs to the holder)", bool(onodes) and not rm,
           "os.remove(<path>.lock) is reachable after os.open(O_EXCL) itself failed (EMFILE, ENOMEM, interrupt...): the "
           "contender deletes the current holder's lock file", gi.nodes[rm[0]].line if rm else lp.open_call.lineno)
    # abort summary
    abort = lp.m.funcs.get(q("abort"))
    close = lp.m.funcs.get(q("close"))
    exit_ = lp.m.funcs.get(q("__exit__"))
    if not (abort and close and exit_):
        raise AnalysisError("lock class lacks abort/close/__exit__")
    ga = cfg_of(prog, abort)
    prod, probs = _run_lock_method(lp, ga)
    normal_ok = all(st[0] != "HELD" for st in prod.states_at(ga.exit_normal))
    raise_states = prod.states_at(ga.exit_raise)
    raise_ok = all(st[0] != "HELD" for st in raise_states)
    # R07.1g ownership flag: once the lock path is gone for certain, the handle must know it (flag set) on EVERY way out,
    # otherwise a second abort()/close()/__del__ unlinks a path that may by then be another writer's lock
    flag_bad = [(ex, st) for ex in (ga.exit_normal, ga.exit_raise) for st in prod.states_at(ex) if st[2] and not st[1]]
    rep.ob("R07.1g", F, q("abort"), "whenever abort() leaves with the lock path unlinked, the closed flag is set (normal and raising exits)", not flag_bad,
           "abort() can raise after it unlinked the lock file without recording that: a later abort() (error handler, __del__) "
           "unlinks the path again, by then possibly another writer's lock", abort.node.lineno,
           lines(ga, prod.witness(flag_bad[0][0], flag_bad[0][1])) if flag_bad else [])
    summary = {"normal": normal_ok, "raise": raise_ok, "flag_ok_on_raise": not any(st[2] and not st[1] for st in raise_states)}
    rep.ob("R07.1d", F, q("abort"), "abort removes the lock on every normal path", normal_ok, "", abort.node.lineno)
    w = []
    for st in raise_states:
        if st[0] == "HELD":
            w = lines(ga, prod.witness(ga.exit_raise, st))
            break
    rep.ob("R07.1d", F, q("abort"), "abort removes the lock even when closing the handle raises", raise_ok,
           "a path raises out of abort() before the lock file is removed", abort.node.lineno, w)
    # (e) abort never touches the target
    touches = []
    for c in ast.walk(abort.node):
        if isinstance(c, ast.Call) and any(_self_attr(a) == lp.target_attr for a in c.args):
            touches.append(c)
    rep.ob("R07.1e", F, q("abort"), "abort never touches the protected path", not touches,
           norm(touches[0]) if touches else "", abort.node.lineno)

    # close(): (b) ordering, (c) no unlink after rename, (d) failure releases
    gc = cfg_of(prog, close)
    ren = [i for i, n in gc.nodes.items() if "RENAME" in lp.events(n)]
    rep.ob("R07.1b", F, q("close"), "close renames lock over target", bool(ren), "", close.node.lineno)
    if not ren:
        raise AnalysisError("no rename of lock->target in close()")
    for evname, what in (("FLUSH", "flush"), ("FCLOSE", "close of the underlying file")):
        evn = [i for i, n in gc.nodes.items() if evname in lp.events(n)]
        bad = must_pass(gc, ren, evn)
        rep.ob("R07.1b", F, q("close"), f"{what} precedes rename", bool(evn) and not bad,
               f"rename reachable without {what}", close.node.lineno,
               [gc.nodes[i].line for i in bad])
    # fsync: every path to rename passes fsync or the false branch of the fsync option test
    fs = [i for i, n in gc.nodes.items() if "FSYNC" in lp.events(n)]
    opt_tests = [i for i, n in gc.nodes.items() if n.kind == "test" and _self_attr(n.ast) and "fsync" in _self_attr(n.ast)]
    # remove false edges of option tests by avoiding... simulate: reach from entry skipping fs nodes and the false edges
    seen = set([gc.entry])
    work = [gc.entry]
    while work:
        x = work.pop()
        for b, l in gc.succ[x]:
            if x in opt_tests and l == "false":
                continue
            if b in fs or b in seen:
                continue
            seen.add(b)
            work.append(b)
    bad = [r for r in ren if r in seen]
    rep.ob("R07.1b", F, q("close"), "fsync (when enabled) precedes rename", bool(fs) and not bad,
           "rename reachable with fsync enabled but not performed", close.node.lineno)
    prod, probs = _run_lock_method(lp, gc, summary)
    c_bad = [(k, nid, st) for k, nid, st in probs if k == "unlink-after-rename"]
    rep.ob("R07.1c", F, q("close"), "no unlink of the lock path after a successful rename", not c_bad,
           "after os.replace succeeded the lock path may belong to another writer; it is unlinked again",
           gc.nodes[c_bad[0][1]].line if c_bad else close.node.lineno,
           lines(gc, prod.witness(c_bad[0][1], c_bad[0][2])) if c_bad else [])
    held_raise = [st for st in prod.states_at(gc.exit_raise) if st[0] == "HELD"]
    rep.ob("R07.1d", F, q("close"), "a failing close releases the lock", not held_raise,
           "a path raises out of close() with the lock file left behind", close.node.lineno,
           lines(gc, prod.witness(gc.exit_raise, held_raise[0])) if held_raise else [])
    flag_bad = [(ex, st) for ex in (gc.exit_normal, gc.exit_raise) for st in prod.states_at(ex) if st[2] and not st[1]]
    rep.ob("R07.1g", F, q("close"), "whenever close() leaves with the lock path renamed or unlinked, the closed flag is set (normal and raising exits)",
           not flag_bad, "close() can leave after the lock path was given up without recording that: a later abort()/close() "
           "(error handler, __del__) unlinks or renames a path that may by then be another writer's lock", close.node.lineno,
           lines(gc, prod.witness(flag_bad[0][0], flag_bad[0][1])) if flag_bad else [])
    held_norm = [st for st in prod.states_at(gc.exit_normal) if st[0] == "HELD" and not st[1]]
    rep.ob("R07.1d", F, q("close"), "close never returns normally still holding", not held_norm, "", close.node.lineno)

    # (f) __exit__
    ge = cfg_of(prog, exit_)
    pnames = [a.arg for a in exit_.node.args.args]
    exc_param = pnames[1] if len(pnames) > 1 else None

    def run_exit(entry_exc: bool):
        def exc_test(node):
            if node.kind != "test":
                return None
            t = node.ast
            if isinstance(t, ast.Compare) and isinstance(t.left, ast.Name) and t.left.id == exc_param \
                    and len(t.ops) == 1 and isinstance(t.comparators[0], ast.Constant) and t.comparators[0].value is None:
                if isinstance(t.ops[0], ast.IsNot):
                    return True
                if isinstance(t.ops[0], ast.Is):
                    return False
            if isinstance(t, ast.Name) and t.id == exc_param:
                return True
            return None

        def edge_fn(node, st, label, succ):
            pol = exc_test(node)
            if pol is not None and label in ("true", "false"):
                val = entry_exc if pol else (not entry_exc)
                if (label == "true") != val:
                    return None
            s = set(st)
            evs = lp.events(node)
            if "CALL_ABORT" in evs:
                s.add("A")
            if "CALL_CLOSE" in evs:
                s.add("C")
            return frozenset(s)
        return Product(ge, [(ge.entry, frozenset())], lambda n, s: s, edge_fn)
    p_exc = run_exit(True)
    sts = p_exc.states_at(ge.exit_normal) + p_exc.states_at(ge.exit_raise)
    ok = bool(sts) and all("A" in s and "C" not in s for s in sts)
    rep.ob("R07.1f", F, q("__exit__"), "exceptional exit aborts and never commits", ok,
           f"states at exit: {sorted(map(sorted, sts))}", exit_.node.lineno)
    p_ok = run_exit(False)
    sts = p_ok.states_at(ge.exit_normal)
    ok = bool(sts) and all("C" in s or "A" in s for s in sts)
    rep.ob("R07.1f", F, q("__exit__"), "normal exit commits (or aborts)", ok,
           f"states at exit: {sorted(map(sorted, sts))}", exit_.node.lineno)
    # __del__ safety net is an assumption used by R07.2 for handles parked on self
    d = lp.m.funcs.get(q("__del__"))
    has_del = d is not None and any(dotted(c.func) == "self.abort" for c in ast.walk(d.node) if isinstance(c, ast.Call))
    rep.ob("R07.1f", F, q("__del__"), "finaliser aborts an unreleased handle", has_del, "", d.node.lineno if d else 0)
    return lp


def r07_4(prog: Program, rep):
    """A held lock is an error for the contender, never a reason to skip the write: no handler outside file.py catches
    FileLocked without re-raising.  (A stale <x>.lock left by a crash would otherwise make every later writer 'succeed'
    without writing - objects, refs or the index silently not stored.)"""
    probe = ast.parse("def f():\n    try:\n        g()\n    except FileLocked:\n        return\n")

    def swallowers(tree):
        # names bound to a tuple of exception classes (`all_exceptions = (IOError, ..., FileLocked)`, locally or at module level)
        tuples = {}
        for x in ast.walk(tree):
            if isinstance(x, ast.Assign) and len(x.targets) == 1 and isinstance(x.targets[0], ast.Name) and isinstance(x.value, ast.Tuple):
                tuples.setdefault(x.targets[0].id, []).extend(dotted(e) or "" for e in x.value.elts)
        out = []
        for h in [x for x in ast.walk(tree) if isinstance(x, ast.ExceptHandler) and x.type is not None]:
            names = []
            for e in (h.type.elts if isinstance(h.type, ast.Tuple) else [h.type]):
                names += tuples.get(e.id, [e.id]) if isinstance(e, ast.Name) else [dotted(e) or ""]
            if not any(nm.split(".")[-1] == "FileLocked" for nm in names) or any(isinstance(y, ast.Raise) for y in ast.walk(h)):
                continue
            # a handler that RECORDS the failure (assigns a status that is reported) converts the error, it does not swallow it
            if any(isinstance(y, (ast.Assign, ast.AnnAssign, ast.AugAssign)) for y in ast.walk(h)):
                continue
            # ... and so does one that reports the exception it caught (`except E as e: yield (b"unpack", str(e))`)
            if h.name and any(isinstance(y, ast.Name) and y.id == h.name and isinstance(y.ctx, ast.Load) for y in ast.walk(h)):
                continue
            out.append(h)
        return out
    if len(swallowers(probe)) != 1:
        raise AnalysisError("R07.4 detector self-check failed")
    found = []
    for m in prog.modules.values():
        if m.rel == FILE_PY or m.rel.startswith("dulwich/cli") or m.rel.startswith("dulwich/contrib"):
            continue
        for h in swallowers(m.tree):
            f = m.enclosing_func(h)
            found.append((m.rel, f.qual if f else "<module>", h))
    rep.ob("R07.4", found[0][0] if found else FILE_PY, found[0][1] if found else "<package>", "FileLocked is never swallowed outside the lock module", not found,
           "the handler turns 'somebody holds the lock' into success: with a stale lock file (left by a crash) the write is skipped silently and "
           "whatever refers to the object / ref / index afterwards points at something that was never stored", found[0][2].lineno if found else 0)
    rep.count("modules scanned for FileLocked handlers", len(prog.modules))


# =============================================================================== R07.2

def _handle_name(e):
    if isinstance(e, ast.Name):
        return e.id
    if isinstance(e, ast.Attribute) and isinstance(e.value, ast.Name) and e.value.id == "self":
        return "self." + e.attr
    return None


class HandleRule:
    """RELEASE-ON-EXIT for one resource handle in one function.

    States: HELD, HELD_EXC (an exception is propagating since the handle was taken),
    COMMITTED, RELEASED, ESCAPED (ownership left the function).
    """

    def __init__(self, prog, g: CFG, handle: str, wrappers: dict[str, int], is_acquire_with=None,
                 commit_attrs=("close",), abort_attrs=("abort",)):
        self.prog = prog
        self.g = g
        self.h = handle
        self.wrappers = wrappers
        self.is_acquire_with = is_acquire_with or (lambda item: False)
        self.commit_attrs = commit_attrs
        self.abort_attrs = abort_attrs
        self.aliases = set()
        for n in g.nodes.values():
            for e in node_exprs(n):
                if isinstance(e, ast.Assign) and isinstance(e.value, ast.Call):
                    cn = callee_name(e.value)
                    if cn in wrappers:
                        a = arg_of(e.value, wrappers[cn], None)
                        if a is not None and _handle_name(a) == handle:
                            t = _handle_name(e.targets[0])
                            if t:
                                self.aliases.add(t)
        for n in g.nodes.values():
            if n.kind == "with_enter":
                item = n.ast.items[n.info]
                ce = item.context_expr
                if isinstance(ce, ast.Call) and callee_name(ce) in wrappers and item.optional_vars is not None:
                    a = arg_of(ce, wrappers[callee_name(ce)], None)
                    if a is not None and _handle_name(a) == handle and _handle_name(item.optional_vars):
                        self.aliases.add(_handle_name(item.optional_vars))
        # plain aliases `x = handle` (and `handle = x` for the name the acquisition was first bound to)
        self.same = {handle}
        for n in g.nodes.values():
            for e in node_exprs(n):
                if isinstance(e, ast.Assign) and len(e.targets) == 1 and isinstance(e.targets[0], ast.Name) \
                        and _handle_name(e.value) in self.same:
                    self.same.add(e.targets[0].id)
        for n in g.nodes.values():
            for e in node_exprs(n):
                if not isinstance(e, ast.Assign):
                    continue
                # `w = Wrapper(h)` and the conditional form `w = None if cond else Wrapper(h)`
                cands = [e.value] if isinstance(e.value, ast.Call) else \
                    [b_ for b_ in (e.value.body, e.value.orelse) if isinstance(b_, ast.Call)] if isinstance(e.value, ast.IfExp) else []
                for cv in cands:
                    if callee_name(cv) in wrappers:
                        a = arg_of(cv, wrappers[callee_name(cv)], None)
                        if a is not None and _handle_name(a) in self.same:
                            t = _handle_name(e.targets[0])
                            if t:
                                self.aliases.add(t)
        self.parked = handle.startswith("self.")
        self.problems: list[tuple[str, int, object]] = []
        from sa.common import wrapper_exc_behaviour
        self.wrapper_beh = wrapper_exc_behaviour(prog)

    def events(self, node) -> list[str]:
        n = node.ast
        ev = []
        if node.kind in ("with_exit_ok", "with_exit_exc"):
            item = n.items[node.info]
            v = _handle_name(item.optional_vars) if item.optional_vars is not None else None
            if (v == self.h and self.is_acquire_with(item)) or _handle_name(item.context_expr) in ({self.h} | self.aliases):
                ev.append("EXIT_OK" if node.kind == "with_exit_ok" else "EXIT_EXC")
            # `with Wrapper(h) as w:` - the wrapper's __exit__ decides: closing the wrapped lock file is a COMMIT
            ce = item.context_expr
            if isinstance(ce, ast.Call) and callee_name(ce) in self.wrappers:
                a = arg_of(ce, self.wrappers[callee_name(ce)], None)
                if a is not None and _handle_name(a) in self.same:
                    beh = self.wrapper_beh.get(callee_name(ce), {})
                    if node.kind == "with_exit_ok":
                        ev.append("COMMIT")
                    elif beh.get("exit_closes_on_exc"):
                        ev.append("COMMIT_EXC")
            return ev
        for c in node_calls(node):
            if isinstance(c.func, ast.Attribute):
                recv = _handle_name(c.func.value)
                if recv in self.same or recv in self.aliases:
                    if c.func.attr in self.commit_attrs:
                        ev.append("COMMIT")
                    elif c.func.attr in self.abort_attrs and recv in self.same:
                        ev.append("ABORT")
        for e in node_exprs(node):
            # ownership leaves: returned, yielded, stored on an attribute / container
            if isinstance(e, ast.Return) and e.value is not None and any(
                    _handle_name(x) == self.h for x in ast.walk(e.value) if isinstance(x, (ast.Name, ast.Attribute))):
                # `return f.read()` is a use, not an escape: only a bare handle (possibly in a tuple)
                vals = e.value.elts if isinstance(e.value, ast.Tuple) else [e.value]
                if any(_handle_name(v) == self.h for v in vals):
                    ev.append("ESCAPE")
            if isinstance(e, ast.Assign) and _handle_name(e.value) in self.same:
                t = e.targets[0]
                if isinstance(t, (ast.Attribute, ast.Subscript)):
                    ev.append("ESCAPE")
        return ev

    def closed_test(self, node):
        if node.kind != "test":
            return None
        t = node.ast
        if isinstance(t, ast.Attribute) and t.attr == "closed" and _handle_name(t.value) in self.same:
            return True
        return None

    def bound_test(self, node):
        """Tests of the handle's own existence (`if h:`, `h is not None`, `h is None`): the handle is bound
        in every state the automaton tracks.  Returns the truth value of the test, or None."""
        if node.kind != "test":
            return None
        t = node.ast
        if _handle_name(t) == self.h:
            return True
        if isinstance(t, ast.Compare) and len(t.ops) == 1 and _handle_name(t.left) == self.h \
                and isinstance(t.comparators[0], ast.Constant) and t.comparators[0].value is None:
            if isinstance(t.ops[0], ast.IsNot):
                return True
            if isinstance(t.ops[0], ast.Is):
                return False
        return None

    def run(self, start_nodes, entry_exc: bool | None = None, exc_param: str | None = None):
        g = self.g
        problems = self.problems

        def exc_test(node):
            if entry_exc is None or node.kind != "test" or exc_param is None:
                return None
            t = node.ast
            if isinstance(t, ast.Compare) and isinstance(t.left, ast.Name) and t.left.id == exc_param \
                    and len(t.ops) == 1 and isinstance(t.comparators[0], ast.Constant) and t.comparators[0].value is None:
                return isinstance(t.ops[0], ast.IsNot) if isinstance(t.ops[0], (ast.Is, ast.IsNot)) else None
            if isinstance(t, ast.Name) and t.id == exc_param:
                return True
            return None

        def node_fn(node, st):
            if node.kind == "handled" and st == "HELD_EXC":
                st = "HELD"
            for e in self.events(node):
                if e in ("COMMIT", "EXIT_OK"):
                    if st == "HELD":
                        if entry_exc:
                            problems.append(("commit-on-failure-path", node.id, st))
                        st = "COMMITTED"
                    elif st == "HELD_EXC":
                        problems.append(("commit-on-failure-path", node.id, st))
                        st = "COMMITTED"
                elif e == "COMMIT_EXC":
                    if st in ("HELD", "HELD_EXC"):
                        problems.append(("commit-on-failure-path", node.id, st))
                        st = "COMMITTED"
                elif e in ("ABORT", "EXIT_EXC"):
                    if st in ("HELD", "HELD_EXC"):
                        st = "RELEASED"
                elif e == "ESCAPE":
                    if st in ("HELD", "HELD_EXC"):
                        st = "ESCAPED"
            return st

        def edge_fn(node, st, label, succ):
            pol = self.closed_test(node)
            if pol is not None and label in ("true", "false"):
                is_closed = st in ("COMMITTED", "RELEASED")
                if (label == "true") != is_closed:
                    return None
            pol = exc_test(node)
            if pol is not None and label in ("true", "false"):
                val = entry_exc if pol else (not entry_exc)
                if (label == "true") != val:
                    return None
            truth = self.bound_test(node)
            if truth is not None and label in ("true", "false"):
                if (label == "true") != truth:
                    return None
            if node.kind == "with_enter" and label in EXC_LABELS:
                # `with h:` on a handle that is already open: _GitFile.__enter__ only returns self, entering cannot fail
                item = node.ast.items[node.info]
                if _handle_name(item.context_expr) in self.same:
                    return None
            if label in ("exc", "raise") and st == "HELD":
                return "HELD_EXC"
            if node.kind == "with_exit_exc" and label == "next" and st == "HELD_EXC":
                return "HELD"      # a swallowing context manager (contextlib.suppress) ended the exception
            return st
        prod = Product(g, start_nodes, node_fn, edge_fn)
        for st in prod.states_at(g.exit_normal):
            if st in ("HELD", "HELD_EXC"):
                problems.append(("leak-on-normal-exit", g.exit_normal, st))
        for st in prod.states_at(g.exit_raise):
            if st in ("HELD", "HELD_EXC"):
                problems.append(("leak-on-exception", g.exit_raise, st))
        return prod


def gitfile_write_sites(prog: Program, rep=None):
    """Every write-mode GitFile(...) call outside dulwich/file.py: (func, call, shape, handle)."""
    out = []
    unresolved = []
    for m in prog.modules.values():
        if m.rel == FILE_PY:
            continue
        for c in ast.walk(m.tree):
            if not is_gitfile_call(prog, m, c):
                continue
            mode = gitfile_mode(c)
            if mode is None:
                unresolved.append((m.rel, c.lineno, norm(c)))
                continue
            if "w" not in mode:
                continue
            f = m.enclosing_func(c)
            par = m.parents.get(c)
            if isinstance(par, ast.withitem):
                h = _handle_name(par.optional_vars) if par.optional_vars is not None else "<anon>"
                out.append((f, c, "with", h or "<anon>"))
            elif isinstance(par, ast.Assign) and len(par.targets) == 1 and _handle_name(par.targets[0]):
                out.append((f, c, "assign", _handle_name(par.targets[0])))
            elif isinstance(par, ast.Return):
                out.append((f, c, "return", "<returned>"))
            elif isinstance(par, ast.Lambda):
                out.append((f, c, "lambda", "<lambda>"))
            else:
                out.append((f, c, "other", "<expr>"))
    return out, unresolved


def r07_2(prog: Program, rep):
    wrappers = closing_wrappers(prog)
    rep.count("closing wrapper classes (summary)", len(wrappers))
    rep.note("wrapper classes whose close() closes constructor argument: " + ", ".join(sorted(wrappers)))
    from sa.common import wrapper_exc_behaviour
    for wname, beh in sorted(wrapper_exc_behaviour(prog).items()):
        wcls = prog.classes[wname][0]
        cl = wcls.module.funcs.get(f"{wname}.close")
        rep.ob("R07.2c", wcls.module.rel, f"{wname}.close", f"close() closes the wrapped file (self.{beh['attr']}) only on its normal path", not beh["close_on_exc"],
               "the wrapped file is closed in a finally / handler: when the wrapped file is a lock file, closing COMMITS - a failure while the "
               "trailer is written replaces the protected file by a truncated one", cl.node.lineno if cl else wcls.node.lineno)
    sites, unresolved = gitfile_write_sites(prog)
    for rel, ln, txt in unresolved:
        rep.note(f"GitFile call with non-constant mode not classified: {rel}:{ln} {txt}")
    rep.count("write-mode GitFile sites", len(sites))
    parked_classes = []
    for f, call, shape, handle in sites:
        m = f.module if f else None
        rel = m.rel
        qual = f.qual if f else "<module>"
        key = f"{handle} = {norm(call, 80)}"
        if shape in ("other", "lambda") or f is None:
            rep.ob("R07.2", rel, qual, key, False,
                   "write-mode GitFile used in a shape the rule cannot follow (not bound to a name or a with-item)",
                   call.lineno)
            continue
        if shape == "return":
            rep.note(f"{rel}:{qual} returns a write-mode GitFile (factory); callers not followed")
            rep.ob("R07.2", rel, qual, key, False, "factory returning a held lock: callers are not analysed", call.lineno)
            continue
        g = cfg_of(prog, f)
        isacq = lambda item, _c=call: item.context_expr is _c
        hr = HandleRule(prog, g, handle, wrappers, isacq)
        if shape == "with":
            acq = [i for i, n in g.nodes.items() if n.kind == "with_enter" and n.ast.items[n.info].context_expr is call]
        else:
            acq = [i for i, n in g.nodes.items() if n.kind == "stmt" and isinstance(n.ast, ast.Assign) and n.ast.value is call]
        if not acq:
            raise AnalysisError(f"acquire node not found in CFG: {rel}:{qual}:{call.lineno}")
        start = []
        for a in acq:
            for b, l in g.succ[a]:
                if l not in EXC_LABELS:
                    start.append((b, "HELD"))
        prod = hr.run(start)
        probs = hr.problems
        escaped = any(st == "ESCAPED" for (n, st) in prod.at)
        # handle parked on self: `f = GitFile(); self._file = f`  -> obligations move to __exit__
        if escaped or hr.parked:
            parked_attr = None
            for n in g.nodes.values():
                for e in node_exprs(n):
                    if isinstance(e, ast.Assign) and _handle_name(e.value) == handle and _handle_name(e.targets[0]) \
                            and _handle_name(e.targets[0]).startswith("self."):
                        parked_attr = _handle_name(e.targets[0])
            if hr.parked:
                parked_attr = handle
            if parked_attr and f.cls:
                parked_classes.append((f, parked_attr, call))
                probs = [p for p in probs if p[0] == "commit-on-failure-path"]
                rep.note(f"{rel}:{qual}: handle parked on {parked_attr}; a failure between acquisition and the end of "
                         f"{f.name} relies on the finaliser (__del__) to release the lock (assumption)")
        # R07.2w no commit of an unwritten lock file: leaving a `with GitFile(.., "wb")` block by return/break/continue
        # COMMITS (only an exception or abort() discards).  A jump out of the block that can be reached before anything
        # was written through the handle replaces the protected file by an empty one.  (Falling off the end of the block
        # after a loop of zero iterations or a skipped optional write is a legitimate empty file and is not constrained.)
        if shape == "with" and not (escaped or hr.parked):
            wnode = m.parents.get(m.parents.get(call))
            names = hr.same | hr.aliases
            writes = set()
            for i, n in g.nodes.items():
                for c in node_calls(n):
                    if isinstance(c.func, ast.Attribute) and _handle_name(c.func.value) in names and \
                            (c.func.attr.startswith("write") or c.func.attr in ("truncate",)):
                        writes.add(i)
                    elif callee_name(c) not in wrappers and any(_handle_name(a) in names for a in list(c.args) + [k.value for k in c.keywords]):
                        writes.add(i)
                    elif isinstance(c.func, ast.Attribute) and c.func.attr in hr.abort_attrs and _handle_name(c.func.value) in names:
                        writes.add(i)       # an explicit abort() before the jump discards: nothing is committed
            jumps = []
            if isinstance(wnode, ast.With):
                def leaving(stmts, loops):
                    for s_ in stmts:
                        if isinstance(s_, (ast.FunctionDef, ast.AsyncFunctionDef, ast.ClassDef)):
                            continue
                        if isinstance(s_, ast.Return) or (isinstance(s_, (ast.Break, ast.Continue)) and loops == 0):
                            jumps.append(s_)
                        inner = loops + (1 if isinstance(s_, (ast.For, ast.While)) else 0)
                        for fld in ("body", "orelse", "finalbody"):
                            if isinstance(getattr(s_, fld, None), list):
                                # the else-arm of a loop is outside the loop for break/continue purposes
                                leaving(getattr(s_, fld), inner if fld == "body" else loops)
                        for h in getattr(s_, "handlers", []) or []:
                            leaving(h.body, loops)
                leaving(wnode.body, 0)
            jn = [i for i, n in g.nodes.items() if n.kind == "stmt" and n.ast in jumps]
            bad = must_pass(g, jn, writes, start=[b_ for b_, _ in start]) if jn else []
            rep.ob("R07.2w", rel, qual, f"no jump out of `with {norm(call, 50)}` before something was written through {handle}", not bad,
                   "a return/break/continue leaves the with-block before anything was written: __exit__ COMMITS, so the protected "
                   "file is replaced by an empty one (use abort() to give up)",
                   g.nodes[bad[0]].line if bad else call.lineno)
        # R07.2p the protected path is written only through the lock handle: no plain write-mode open() of the very path the
        # function holds the lock for (that would modify the file in place, visible to readers half written)
        if call.args:
            ptxt = norm(call.args[0])
            inplace = [c for c in ast.walk(f.node) if isinstance(c, ast.Call) and dotted(c.func) in ("open", "io.open", "os.open") and c.args
                       and norm(c.args[0]) == ptxt and c is not call and
                       (len(c.args) < 2 or not isinstance(c.args[1], ast.Constant) or any(ch in str(c.args[1].value) for ch in "wax+"))]
            rep.ob("R07.2p", rel, qual, f"`{ptxt}` is written only through the lock handle", not inplace,
                   f"`{norm(inplace[0], 60)}` opens the protected path itself for writing while the lock is held: the file is modified in place "
                   f"(readers see it empty or partial, a failure leaves it truncated)" if inplace else "", inplace[0].lineno if inplace else call.lineno)
        kinds = sorted({k for k, _, _ in probs})
        if not kinds:
            rep.ob("R07.2", rel, qual, key, True, f"{shape}; released on all paths", call.lineno)
        for k in kinds:
            nid, st = next((n, s) for kk, n, s in probs if kk == k)
            w = lines(g, prod.witness(nid, st)) if (nid, st) in prod.at else []
            rep.ob("R07.2", rel, qual, f"{k}: {key}", False,
                   {"commit-on-failure-path": "the lock is committed (renamed over the target) on a path where an "
                                              "exception is propagating: a failed write replaces the old content",
                    "leak-on-exception": "an exception path leaves the function with the lock still held",
                    "leak-on-normal-exit": "a normal path leaves the function with the lock still held"}[k],
                   g.nodes[nid].line or call.lineno, w)
    # parked handles: analyse the paired __exit__ (or close/abort-named methods) of the same class
    for f, attr, call in parked_classes:
        m = f.module
        ex = m.funcs.get(f"{f.cls}.__exit__")
        if ex is None:
            # stored on self outside a context manager protocol: look for any method that releases it
            rel_methods = [x for q_, x in m.funcs.items() if x.cls == f.cls and any(
                isinstance(c, ast.Call) and isinstance(c.func, ast.Attribute) and c.func.attr in ("close", "abort")
                and _handle_name(c.func.value) == attr for c in ast.walk(x.node))]
            rep.ob("R07.2", m.rel, f.qual, f"parked {attr} released by some method", bool(rel_methods),
                   "handle stored on self is never closed or aborted by the class", call.lineno)
            continue
        g = cfg_of(prog, ex)
        pn = [a.arg for a in ex.node.args.args]
        exc_param = pn[1] if len(pn) > 1 else None
        for entry_exc in (True, False):
            hr = HandleRule(prog, g, attr, wrappers)
            prod = hr.run([(g.entry, "HELD")], entry_exc=entry_exc, exc_param=exc_param)
            kinds = sorted({k for k, _, _ in hr.problems})
            key = f"{attr} in __exit__ ({'exception' if entry_exc else 'normal'} entry)"
            if not kinds:
                rep.ob("R07.2", m.rel, ex.qual, key, True, "", ex.node.lineno)
            for k in kinds:
                nid, st = next((n, s) for kk, n, s in hr.problems if kk == k)
                rep.ob("R07.2", m.rel, ex.qual, f"{k}: {key}", False, k, g.nodes[nid].line or ex.node.lineno,
                       lines(g, prod.witness(nid, st)) if (nid, st) in prod.at else [])


def r07_6(prog: Program, rep):
    """THE PROTECTED FILE AND WHAT IT NAMES.  tables.list of the reftable backend is only meaningful together with the *.ref tables it
    names.  In every function of reftable.py that both unlinks tables and replaces tables.list through the lock protocol, no unlink is
    reachable before the replacement has been committed: a refused lock or a failed write must leave the old list AND its tables."""
    from sa.common import is_gitfile_call, gitfile_mode
    rel = "dulwich/reftable.py"
    m = prog.module(rel)
    n = 0
    for q, f in sorted(m.funcs.items()):
        if "#" in q:
            continue
        calls = [c for c in ast.walk(f.node) if isinstance(c, ast.Call)]
        if not any(dotted(c.func) in ("os.remove", "os.unlink") for c in calls):
            continue
        plain = [c for c in calls if callee_name(c) == "open" and c.args and "tables_list" in norm(c.args[0]).replace(".", "_")
                 and len(c.args) > 1 and isinstance(c.args[1], ast.Constant) and "w" in str(c.args[1].value)]
        if not any(is_gitfile_call(prog, m, c) and "w" in (gitfile_mode(c) or "") for c in calls) and not plain:
            continue
        if plain:
            n += 1
            rep.ob("R07.6", rel, f.qual, "tables are unlinked only after the new tables.list has been committed", False,
                   "tables.list is rewritten in place (plain open) in a function that also unlinks tables: there is no commit point at all", plain[0].lineno)
            continue
        g = cfg_of(prog, f)
        rm = [i for i, nd in g.nodes.items() for c in node_calls(nd) if dotted(c.func) in ("os.remove", "os.unlink")]
        acq = [i for i, nd in g.nodes.items() if nd.kind == "with_enter"
               and is_gitfile_call(prog, m, nd.ast.items[nd.info].context_expr) and "w" in (gitfile_mode(nd.ast.items[nd.info].context_expr) or "")]
        commits = [i for i, nd in g.nodes.items() if nd.kind == "with_exit_ok" and any(nd.ast is g.nodes[a].ast for a in acq)]
        if not acq:
            continue
        n += 1
        bad = must_pass(g, rm, commits)
        rep.ob("R07.6", rel, f.qual, "tables are unlinked only after the new tables.list has been committed", bool(commits) and not bad,
               "the tables the current list names are deleted before the lock for the new list is even requested: FileLocked or a failed write "
               "leaves the old tables.list naming files that are gone - every ref unreadable", g.nodes[(bad or rm)[0]].line)
    if n < 2:
        raise AnalysisError(f"reftable.py: expected >= 2 functions that unlink tables and replace tables.list, found {n}")


def r07_5(prog: Program, rep):
    """locked_index (public read-modify-write of the index under its lock): (a) __enter__ releases the lock when reading the index
    fails (its __exit__ does not run then); (b) in __exit__ the committing close is inside the region whose handler aborts, and the
    handler re-raises - a failed update is neither left locked nor reported as success."""
    m = prog.module("dulwich/index.py")
    en, ex = m.funcs.get("locked_index.__enter__"), m.funcs.get("locked_index.__exit__")
    if en is None or ex is None:
        raise AnalysisError("index.locked_index.__enter__/__exit__ not found")
    g = cfg_of(prog, en)
    acq = [i for i, n in g.nodes.items() for c in node_calls(n) if callee_name(c) == "GitFile"]
    ab = [i for i, n in g.nodes.items() for c in node_calls(n) if isinstance(c.func, ast.Attribute) and c.func.attr == "abort"]
    if not acq:
        raise AnalysisError("locked_index.__enter__: GitFile acquisition not found")
    starts = [b for a in acq for b, l in g.succ[a] if l not in EXC_LABELS]
    bad = must_pass(g, [g.exit_raise], ab, start=starts)
    rep.ob("R07.5", m.rel, en.qual, "a failure after the lock was taken aborts it before the exception leaves __enter__", bool(ab) and not bad,
           "reading a damaged index raises out of __enter__ with index.lock held; __exit__ is never called for it, every later writer gets FileLocked", g.nodes[acq[0]].line)
    hs = [h for h in ast.walk(ex.node) if isinstance(h, ast.ExceptHandler) and any(isinstance(c, ast.Call) and isinstance(c.func, ast.Attribute) and c.func.attr == "abort" for c in ast.walk(h))]
    swallow = [h for h in hs if not any(isinstance(r, ast.Raise) for r in ast.walk(h))]
    closes_outside = [c for c in ast.walk(ex.node) if isinstance(c, ast.Call) and isinstance(c.func, ast.Attribute) and c.func.attr == "close"
                      and not any(isinstance(p_, ast.Try) and any(any(y is c for y in ast.walk(b_)) for b_ in p_.body) for p_ in ast.walk(ex.node))]
    rep.ob("R07.5", m.rel, ex.qual, "the committing close() is inside the aborting try, and the handler re-raises", bool(hs) and not swallow and not closes_outside,
           ("the handler swallows the error: a failed index update is reported as success" if swallow else
            "close() (which commits) sits outside the try: when writing the trailer fails nobody aborts and index.lock stays held"), ex.node.lineno)


def run(prog: Program, rep, tier="quick"):
    rep.rule("R07.1a", "acquisition is one os.open(O_CREAT|O_EXCL) on <path>.lock; FileExistsError maps to FileLocked")
    rep.rule("R07.1b", "in close(): flush, fsync (when enabled) and close of the handle dominate the rename")
    rep.rule("R07.1c", "typestate: no unlink of the lock path is reachable after a successful rename "
                       "(never disturbs a lock taken by someone else)")
    rep.rule("R07.1d", "every exceptional path out of close()/abort() has removed the lock or renamed it")
    rep.rule("R07.6", "reftable: tables are unlinked only after the tables.list that no longer names them has been committed")
    rep.rule("R07.5", "locked_index releases its lock on a failed enter, commits inside the aborting try and re-raises")
    rep.rule("R07.4", "WHO-MAY-CATCH: FileLocked is never swallowed outside file.py (a held or stale lock fails the writer)")
    rep.rule("R07.2p", "the path a function holds the lock for is never opened for writing directly in that function (in-place write under the lock)")
    rep.rule("R07.2c", "closing wrappers (SHA1Writer, HashWriter, ...) close the wrapped lock file only on the normal path of close(); using one as a "
                       "context manager around a lock file is a commit on the failure path when its __exit__ closes unconditionally")
    rep.rule("R07.2w", "no early exit (return/break/continue) out of a `with GitFile(.., 'wb')` block before anything was written: it would commit an empty file")
    rep.rule("R07.1g", "ownership flag agrees with the lock state on every exit of close()/abort() (no second unlink of a path given up)")
    rep.rule("R07.1e", "abort never touches the protected path")
    rep.rule("R07.1f", "__exit__ aborts on exception, commits otherwise; __del__ aborts")
    rep.rule("R07.2", "RELEASE-ON-EXIT for every write-mode GitFile user: normal exits pass commit|abort, "
                      "exceptional exits pass abort and never commit")
    rep.not_decided += ["mutual exclusion itself (O_EXCL in the kernel)", "interleavings of actors",
                        "file systems without atomic rename"]
    rep.assumptions += ["CFG exception model of sa/cfg.py (calls, subscripts, operators, non-trivial properties may raise)",
                        "__del__ is not counted as a release except for handles parked on self during __enter__",
                        "os.remove of the lock path succeeds when attempted"]
    r07_1(prog, rep)
    r07_2(prog, rep)
    r07_4(prog, rep)
    r07_5(prog, rep)
    r07_6(prog, rep)
    from sa.common import alias_guard
    alias_guard(prog, rep, "R07.2", {"GitFile", "_GitFile"})
    rep.floor("R07.1b", 4)
    rep.floor("R07.2", 20)
    from rules import c07_who
    c07_who.run(prog, rep)
