"""Self-test variants: edits of /repo's CURRENT source held in memory (no scratch tree on disk).

Each variant is (id, property, kind, file, old, new, expect) where `old` must occur exactly once in the current
source of `file` (otherwise the variant is skipped and counted), `kind` is "breaking" (the check must report a new
violation whose rule starts with `expect`) or "neutral" (a behaviour preserving rewrite: no new violation, no
analysis error).  The variants still compile and none of them is caught by the existing test-suite's assertions
on the happy path (they need a fault, an interleaving or an unusual input to manifest).
"""

V = []


def b(vid, prop, rel, old, new, expect):
    V.append(dict(id=vid, prop=prop, kind="breaking", file=rel, old=old, new=new, expect=expect))


def n(vid, prop, rel, old, new):
    V.append(dict(id=vid, prop=prop, kind="neutral", file=rel, old=old, new=new, expect=None))


OBJ = "dulwich/objects.py"
PACK = "dulwich/pack.py"
OS_ = "dulwich/object_store.py"
REFS = "dulwich/refs.py"
SERVER = "dulwich/server.py"
IDX = "dulwich/index.py"
CFG = "dulwich/config.py"
FILE = "dulwich/file.py"

# ------------------------------------------------------------------ C01
b("C01-b1", "C01", OBJ,
  "        mode, hexsha = value\n        self._entries[name] = (mode, hexsha)\n        self._needs_serialization = True\n",
  "        mode, hexsha = value\n        self._entries[name] = (mode, hexsha)\n", "R01.1")
b("C01-b2", "C01", OBJ, "        if self._sha is None or self._needs_serialization:\n", "        if self._sha is None:\n", "R01.2")
b("C01-b3", "C01", OBJ,
  "                raise ObjectFormatException(f\"missing value for field {field!r}\")\n            extra.append((field, value))\n    return (\n        tree,\n        parents,\n        author_info,\n        commit_info,\n        encoding,\n        mergetag,\n        gpgsig,\n        message,\n        extra,\n    )\n\n\ndef _parse_commit_broken",
  "                raise ObjectFormatException(f\"missing value for field {field!r}\")\n    return (\n        tree,\n        parents,\n        author_info,\n        commit_info,\n        encoding,\n        mergetag,\n        gpgsig,\n        message,\n        extra,\n    )\n\n\ndef _parse_commit_broken", "R01.3")
b("C01-b4", "C01", OBJ, "    if stat.S_ISDIR(mode):\n        name += b\"/\"\n    return name\n", "    if stat.S_ISLNK(mode):\n        name += b\"/\"\n    return name\n", "R01.4")
b("C01-b5", "C01", OBJ, "        self._object_class, self._object_sha = value\n        self._needs_serialization = True\n",
  "        self._object_class, self._object_sha = value\n", "R01.1")
n("C01-n1", "C01", OBJ, "        self._entries[name] = mode, hexsha\n        self._needs_serialization = True\n",
  "        self._needs_serialization = True\n        self._entries[name] = mode, hexsha\n")
n("C01-n2", "C01", OBJ, "        mode, hexsha = value\n        self._entries[name] = (mode, hexsha)\n",
  "        entry_mode, entry_sha = value\n        self._entries[name] = (entry_mode, entry_sha)\n")

# ------------------------------------------------------------------ C02
b("C02-b1", "C02", PACK, "        if offset < 2**31:\n            f_writer.write(struct.pack(b\">L\", offset))\n",
  "        if offset < 2**32:\n            f_writer.write(struct.pack(b\">L\", offset))\n", "R02.2")
b("C02-b2", "C02", PACK, "                self._pack_offset_largetable_offset + (offset_val & (2**31 - 1)) * 8\n",
  "                self._pack_offset_largetable_offset + (offset_val & (2**31 - 1)) * 4\n", "R02.2")
b("C02-b3", "C02", PACK, "        self._fan_out_table = self._read_fan_out_table(8)\n        self.hash_size = self.object_format.oid_length\n        self._name_table_offset = 8 + 0x100 * 4\n        self._crc32_table_offset = self._name_table_offset + self.hash_size * len(self)\n        self._pack_offset_table_offset = self._crc32_table_offset + 4 * len(self)\n",
  "        self._fan_out_table = self._read_fan_out_table(8)\n        self.hash_size = self.object_format.oid_length\n        self._name_table_offset = 8 + 0x100 * 4\n        self._crc32_table_offset = self._name_table_offset + self.hash_size * len(self)\n        self._pack_offset_table_offset = self._crc32_table_offset + 8 * len(self)\n", "R02.1")
b("C02-b4", "C02", PACK, "                self._data = None\n                raise\n", "                raise\n", "R02.3")
b("C02-b5", "C02", PACK, "            base_offset = offset - unpacked.delta_base\n            self._pending_ofs[base_offset].append(offset)\n",
  "            base_offset = offset + unpacked.delta_base\n            self._pending_ofs[base_offset].append(offset)\n", "R02.5")
b("C02-b6", "C02", PACK, "            actual_num_records += 1\n            self.entries[unpacked.sha()] = (offset, crc32)\n            offset += object_size\n",
  "            actual_num_records += 1\n            offset += object_size\n            self.entries[unpacked.sha()] = (offset, crc32)\n", "R02.5")
b("C02-b7", "C02", PACK, "    for i, byte in enumerate(raw[1:]):\n        size += (byte & 0x7F) << ((i * 7) + 4)\n",
  "    for i, byte in enumerate(raw[1:]):\n        size += (byte & 0x7F) << ((i * 7) + 3)\n", "R02.4")
b("C02-b8", "C02", PACK, "        while delta_base:\n            delta_base -= 1\n            ret.insert(0, 0x80 | (delta_base & 0x7F))\n",
  "        while delta_base:\n            ret.insert(0, 0x80 | (delta_base & 0x7F))\n", "R02.4")
b("C02-b9", "C02", PACK, "                except KeyError:\n                    type_num = REF_DELTA\n                    assert isinstance(unpacked.delta_base, bytes)\n",
  "                except KeyError:\n                    type_num = OFS_DELTA\n                    assert isinstance(unpacked.delta_base, bytes)\n", "R02.5")
n("C02-n2", "C02", PACK, "    type_num = (raw[0] >> 4) & 0x07\n    size = raw[0] & 0x0F\n", "    type_num = (raw[0] >> 4) & 7\n    size = raw[0] & 15\n")
b("C02-b10", "C02", PACK, "        unused = decomp_obj.unused_data\n        if unused:\n            left = len(unused)\n            if crc32 is not None:\n",
  "        unused = decomp_obj.unused_data\n        if decomp_obj.eof:\n            left = len(unused)\n            if crc32 is not None:\n", "R02.6")
n("C02-n3", "C02", PACK, "        unused = decomp_obj.unused_data\n        if unused:\n            left = len(unused)\n            if crc32 is not None:\n",
  "        unused = decomp_obj.unused_data\n        if len(unused) > 0:\n            left = len(unused)\n            if crc32 is not None:\n")
n("C02-n1", "C02", PACK, "        checksum_size = self.hash_size\n        return bytes(self._contents[-checksum_size:])\n",
  "        checksum_size = self.hash_size\n        stored = bytes(self._contents[-checksum_size:])\n        return stored\n")

# ------------------------------------------------------------------ C03
b("C03-b1", "C03", PACK, "        if index >= delta_length:\n            raise ApplyDeltaError(\"delta truncated in copy op\")\n        index += 1\n",
  "        index += 1\n", "R03.1")
b("C03-b2", "C03", PACK, "    if index != delta_length:\n        raise ApplyDeltaError(f\"delta not empty: {delta[index:]!r}\")\n\n", "", "R03.2")
b("C03-b3", "C03", "crates/pack/src/lib.rs", "Vec::with_capacity(dest_size.min(src_buf_len.saturating_add(delta_len)))", "Vec::with_capacity(dest_size)", "R03.3")
b("C03-b4", "C03", "crates/pack/src/lib.rs", "            if i >= usize::BITS as usize || (bits << i) >> i != bits {\n                return Err(\"delta size header too large\");\n            }\n", "", "R03.4")
b("C03-b5", "C03", PACK, "                or out_len > dest_size - cp_size\n", "", "R03.7")
n("C03-n1", "C03", PACK, "    if index != delta_length:\n        raise ApplyDeltaError(f\"delta not empty: {delta[index:]!r}\")\n\n    if dest_size != chunks_length(out):\n        raise ApplyDeltaError(\"dest size incorrect\")\n",
  "    if dest_size != chunks_length(out):\n        raise ApplyDeltaError(\"dest size incorrect\")\n\n    if index != delta_length:\n        raise ApplyDeltaError(f\"delta not empty: {delta[index:]!r}\")\n")

# ------------------------------------------------------------------ C04
b("C04-b1", "C04", OS_, "                compression_level=self.pack_compression_level,\n                object_format=self.object_format,\n            )\n        except BaseException:\n            abort()\n            raise\n        else:\n            return commit()\n",
  "                compression_level=self.pack_compression_level,\n                object_format=self.object_format,\n            )\n        except BaseException:\n            raise\n        else:\n            return commit()\n", "R04.2")
b("C04-b2", "C04", OS_, "                    objects = list(PackInflater.for_pack_data(p, self.get_raw))\n                    for obj in objects:\n                        self.add_object(obj)\n",
  "                    for obj in PackInflater.for_pack_data(p, self.get_raw):\n                        self.add_object(obj)\n", "R04.4")
b("C04-b3", "C04", OS_, "            with suppress(FileNotFoundError):\n                os.remove(target_index_path)\n            if self.pack_write_bitmaps and refs:\n", "            if self.pack_write_bitmaps and refs:\n", "R04.3")
b("C04-b4", "C04", PACK, "            decomp = decomp_obj.decompress(add, remaining)\n            if decomp_obj.unconsumed_tail:\n                raise zlib.error(\"decompressed data exceeds expected size\")\n",
  "            decomp = decomp_obj.decompress(add)\n", "R04.5")
b("C04-b5", "C04", PACK, "                    if base_offset in seen_offsets:\n                        # object is based on itself, directly or indirectly\n                        raise UnresolvedDeltas([basename])\n                    seen_offsets.add(base_offset)\n",
  "                    if base_offset == prev_offset:\n                        raise UnresolvedDeltas([basename])\n", "R04.7")
b("C04-b6", "C04", IDX, "            # Extensions have already been read by read_index_dict_with_version\n            sha1_reader.check_sha(allow_empty=True)\n", "", "R04.8")
n("C04-n1", "C04", OS_, "        except BaseException:\n            abort()\n            raise\n        else:\n            commit()\n\n    def add_thin_pack(\n        self,\n        read_all: Callable[[int], bytes],\n        read_some: Callable[[int], bytes] | None,\n        progress: Callable[[str], None] | None = None,\n    ) -> None:",
  "        except BaseException:\n            abort()\n            raise\n        commit()\n\n    def add_thin_pack(\n        self,\n        read_all: Callable[[int], bytes],\n        read_some: Callable[[int], bytes] | None,\n        progress: Callable[[str], None] | None = None,\n    ) -> None:")

# ------------------------------------------------------------------ C05
b("C05-b1", "C05", SERVER, "            if sha_result not in values:\n                raise GitProtocolError(f\"Client wants invalid object {sha_result!r}\")\n", "", "R05.1")
b("C05-b2", "C05", OS_, "                return self._complete_pack(\n                    f, path, entries, ext_refs, progress=progress\n                )\n",
  "                return self._complete_pack(\n                    f, path, entries, set(), progress=progress\n                )\n", "R05.2")
n("C05-n1", "C05", SERVER, "        values = set(heads.values())\n", "        values = set(heads.values())\n        logger.debug(\"advertising %d values\", len(values))\n")

b("C05-b4", "C05", SERVER, "        if not self.has_capability(CAPABILITY_INCLUDE_TAG):\n            return {}\n        if refs is None:\n",
  "        if refs is None:\n", "R05.5")
b("C05-b5", "C05", OS_, "        if sha in self._tagged:\n            self.add_todo([(self._tagged[sha], None, None, True)])\n",
  "        for tag_sha in self._tagged.values():\n            self.add_todo([(tag_sha, None, None, True)])\n", "R05.5")
# ------------------------------------------------------------------ C06
b("C06-b1", "C06", SERVER, "                            elif not self.repo.refs.set_if_equals(ref, oldsha, sha):\n                                ref_status = b\"failed to update ref\"\n                        except all_exceptions:\n                            ref_status = b\"failed to write\"\n                except (KeyError, RefFormatError):\n                    ref_status = b\"bad ref\"\n                yield (ref, ref_status)\n\n    def _report_status",
  "                            else:\n                                self.repo.refs.set_if_equals(ref, oldsha, sha)\n                        except all_exceptions:\n                            ref_status = b\"failed to write\"\n                except (KeyError, RefFormatError):\n                    ref_status = b\"bad ref\"\n                yield (ref, ref_status)\n\n    def _report_status", "R06.1")
b("C06-b2", "C06", "dulwich/client.py", "                    if not target.refs.remove_if_equals(refname, old_sha1):\n                        _progress(f\"unable to remove {refname!r}\".encode())\n                        ref_status[refname] = \"unable to remove\"\n",
  "                    if not target.refs.remove_if_equals(refname, old_sha1):\n                        _progress(f\"unable to remove {refname!r}\".encode())\n", "R06.2")
b("C06-b3", "C06", SERVER, "                    if current != oldsha:\n                        ref_status = b\"failed to update ref\"\n                        has_failure = True\n                    elif sha != zero_sha and sha not in self.repo.object_store:",
  "                    if sha != zero_sha and sha not in self.repo.object_store:", "R06.4")
n("C06-n1", "C06", "dulwich/client.py", "                    if not target.refs.remove_if_equals(refname, old_sha1):\n",
  "                    removed = target.refs.remove_if_equals(refname, old_sha1)\n                    if not removed:\n")

# ------------------------------------------------------------------ C07
b("C07-b1", "C07", REFS, "                message=message,\n            )\n        except BaseException:\n            f.abort()\n            raise\n        else:\n            f.close()\n\n    def set_if_equals(",
  "                message=message,\n            )\n        except BaseException:\n            raise\n        else:\n            f.close()\n\n    def set_if_equals(", "R07.2")
b("C07-b2", "C07", CFG, "        with GitFile(path_to_use, \"wb\") as f:\n            self.write_to_file(f)\n",
  "        f = GitFile(path_to_use, \"wb\")\n        self.write_to_file(f)\n        f.close()\n", "R07.2")
b("C07-b3", "C07", FILE, "        # removed.\n        self._closed = True\n", "        # removed.\n        os.remove(self._lockfilename)\n        self._closed = True\n", "R07.1c")
b("C07-b4", "C07", FILE, "        except BaseException:\n            # The lock file is still ours: discard it.\n            self.abort()\n            raise\n", "        except OSError:\n            raise\n", "R07.1d")
b("C07-b5", "C07", IDX, "        except:\n            f.abort()\n            raise\n", "        except:\n            f.close()\n            raise\n", "R07.2")
b("C07-b6", "C07", "dulwich/repo.py", "        with open(fname, \"w\") as f:\n            f.write(\"\")\n",
  "        with open(fname, \"w\") as f:\n            f.write(\"\")\n        with open(os.path.join(self.controldir(), \"packed-refs\"), \"ab\") as f:\n            f.write(b\"\")\n", "R07.3")
b("C07-b7", "C07", FILE, "            self._file.flush()\n            if self._fsync:\n                os.fsync(self._file.fileno())\n            self._file.close()\n",
  "            if self._fsync:\n                os.fsync(self._file.fileno())\n            self._file.close()\n", "R07.1b")
n("C07-n1", "C07", REFS, "        f = GitFile(filename, \"wb\")\n        try:\n            f.write(SYMREF + other + b\"\\n\")\n            sha = self.follow(name)[-1]\n            self._log(\n                name,\n                sha,\n                sha,\n                committer=committer,\n                timestamp=timestamp,\n                timezone=timezone,\n                message=message,\n            )\n        except BaseException:\n            f.abort()\n            raise\n        else:\n            f.close()\n",
  "        with GitFile(filename, \"wb\") as f:\n            f.write(SYMREF + other + b\"\\n\")\n            sha = self.follow(name)[-1]\n            self._log(\n                name,\n                sha,\n                sha,\n                committer=committer,\n                timestamp=timestamp,\n                timezone=timezone,\n                message=message,\n            )\n")
n("C07-n2", "C07", IDX, "        f = GitFile(self._filename, \"wb\", shared_perm=self._shared_perm)\n        try:\n            # Filter out extensions with no meaningful data\n",
  "        index_file = GitFile(self._filename, \"wb\", shared_perm=self._shared_perm)\n        f = index_file\n        try:\n            # Filter out extensions with no meaningful data\n")

# ------------------------------------------------------------------ C08
b("C08-b1", "C08", REFS, "        ensure_dir_exists(os.path.dirname(filename))\n        with GitFile(filename, \"wb\") as f:\n            if old_ref is not None:\n                try:\n                    # read again while holding the lock to handle race conditions\n                    orig_ref = self.read_loose_ref(realname)\n                    if orig_ref is None:",
  "        ensure_dir_exists(os.path.dirname(filename))\n        orig_ref = self.read_loose_ref(realname)\n        with GitFile(filename, \"wb\") as f:\n            if old_ref is not None:\n                try:\n                    # read again while holding the lock to handle race conditions\n                    if orig_ref is None:", "R08.1")
b("C08-b2", "C08", "dulwich/worktree.py", "            if old_head is not None:\n                ok = self._repo.refs.set_if_equals(\n                    ref,\n                    old_head,\n",
  "            if old_head is not None:\n                old_head = self._repo.refs[ref]\n                ok = self._repo.refs.set_if_equals(\n                    ref,\n                    old_head,\n", "R08.3")
b("C08-b3", "C08", "dulwich/am.py", "    if not r.refs.set_if_equals(HEADREF, old_head, orig_head):\n        raise AmError(\"HEAD changed while aborting am\")\n",
  "    r.refs.set_if_equals(HEADREF, old_head, orig_head)\n", "R08.4")
b("C08-b4", "C08", REFS, "            if found:\n                os.remove(filename)\n\n            self._log(\n                name,\n                old_ref,\n                None,",
  "            self._log(\n                name,\n                old_ref,\n                None,", None)       # placeholder: removing the unlink is not a C08 matter (skipped below)
V.pop()
b("C08-b5", "C08", REFS, '        self._check_no_packed_conflict(realname, filename)\n        self._remove_empty_dirs_at(filename)\n        ensure_dir_exists(os.path.dirname(filename))\n        with GitFile(filename, "wb") as f:\n            if old_ref is not None:\n                try:\n                    # read again while holding the lock to handle race conditions\n                    orig_ref = self.read_loose_ref(realname)\n                    if orig_ref is None:\n                        orig_ref = self.get_packed_refs().get(realname, ZERO_SHA)\n                    if orig_ref != old_ref:\n                        f.abort()\n                        return False\n                except OSError:\n                    f.abort()\n                    raise\n\n            # Check if ref already has the desired value while holding the lock\n            # This avoids fsync when ref is unchanged but still detects lock conflicts\n            current_ref = self.read_loose_ref(realname)\n            if current_ref is None:\n                # Re-read packed refs: the snapshot taken before the lock may\n                # be stale by now.\n                current_ref = self.get_packed_refs().get(realname, None)\n',
  '        self._check_no_packed_conflict(realname, filename)\n        packed_refs = self.get_packed_refs()\n        self._remove_empty_dirs_at(filename)\n        ensure_dir_exists(os.path.dirname(filename))\n        with GitFile(filename, "wb") as f:\n            if old_ref is not None:\n                try:\n                    # read again while holding the lock to handle race conditions\n                    orig_ref = self.read_loose_ref(realname)\n                    if orig_ref is None:\n                        orig_ref = self.get_packed_refs().get(realname, ZERO_SHA)\n                    if orig_ref != old_ref:\n                        f.abort()\n                        return False\n                except OSError:\n                    f.abort()\n                    raise\n\n            # Check if ref already has the desired value while holding the lock\n            # This avoids fsync when ref is unchanged but still detects lock conflicts\n            current_ref = self.read_loose_ref(realname)\n            if current_ref is None:\n                # Re-read packed refs: the snapshot taken before the lock may\n                # be stale by now.\n                current_ref = packed_refs.get(realname, None)\n', "R08.1")
n("C08-n1", "C08", "dulwich/repo.py", "                old_head = self.refs[ref]\n                c.parents = [old_head, *merge_heads]\n                self.object_store.add_object(c)\n                ok = self.refs.set_if_equals(\n                    ref,\n                    old_head,\n",
  "                branch_tip = self.refs[ref]\n                c.parents = [branch_tip, *merge_heads]\n                self.object_store.add_object(c)\n                ok = self.refs.set_if_equals(\n                    ref,\n                    branch_tip,\n")

# ------------------------------------------------------------------ C09
b("C09-b1", "C09", OS_, "        self.add_objects(objects, progress=progress)\n        for obj, path in objects:\n            self.delete_loose_object(obj.id)\n        return len(objects)\n",
  "        for obj, path in objects:\n            self.delete_loose_object(obj.id)\n        self.add_objects(objects, progress=progress)\n        return len(objects)\n", "R09.4")
b("C09-b2", "C09", REFS, "        path = os.path.join(self.path, b\"packed-refs\")\n\n        try:\n            with GitFile(path, \"wb\") as f:\n                # reread cached refs from disk, while holding the lock\n",
  "        path = os.path.join(self.path, b\"packed-refs\")\n\n        for ref in new_refs:\n            with suppress(OSError):\n                os.remove(self.refpath(ref))\n        try:\n            with GitFile(path, \"wb\") as f:\n                # reread cached refs from disk, while holding the lock\n", "R09.5")
b("C09-b3", "C09", OS_, "        f.flush()\n        if self.fsync_object_files:\n            try:\n                fileno = f.fileno()\n", "        if self.fsync_object_files:\n            try:\n                fileno = f.fileno()\n", "R09.2")
b("C09-b4", "C09", REFS, "            self._remove_packed_ref(name)\n\n            if found:\n                os.remove(filename)\n", "            if found:\n                os.remove(filename)\n\n            self._remove_packed_ref(name)\n", "R09.5")
b("C09-b5", "C09", OS_, "                mtime = os.path.getmtime(pack_path)\n                if time.time() - mtime > grace_period:\n                    os.remove(pack_path)\n",
  "                os.remove(pack_path)\n", "R09.6")
n("C09-n1", "C09", OS_, "        entries.extend(extra_entries)\n\n        # Move the pack in.\n        entries.sort()\n", "        # Move the pack in.\n        entries.extend(extra_entries)\n        entries.sort()\n")

# ------------------------------------------------------------------ C10
b("C10-b1", "C10", "dulwich/gc.py", "                            continue\n                    except KeyError:\n                        # Object not found, skip it\n                        continue\n\n                unreachable_to_prune.add(sha)\n",
  "                    except KeyError:\n                        # Object not found, skip it\n                        continue\n\n                unreachable_to_prune.add(sha)\n", "R10.2")
b("C10-b2", "C10", "dulwich/gc.py", "            if obj.object[1] not in reachable:\n                pending.append(obj.object[1])\n                reachable.add(obj.object[1])\n", "            pass\n", "R10.3")
b("C10-b3", "C10", OS_, "        for pack in self._update_pack_cache():\n            try:\n                return pack.get_raw(sha)\n            except (KeyError, PackFileDisappeared):\n                pass\n", "", "R10.5")
b("C10-b4", "C10", OS_, "                try:\n                    shas = list(pack)\n                except PackFileDisappeared as exc:\n                    self._evict_pack(exc.obj)\n                    continue\n", "                shas = list(pack)\n", "R10.4")
n("C10-n1", "C10", "dulwich/gc.py", "    reachable = find_reachable_objects(\n        object_store, refs_container, include_reflogs, progress\n    )\n\n    unreachable: set[ObjectID] = set()\n",
  "    reachable = find_reachable_objects(\n        object_store, refs_container, include_reflogs, progress\n    )\n    if progress:\n        progress(\"reachable objects found\")\n\n    unreachable: set[ObjectID] = set()\n")

# ------------------------------------------------------------------ C11
b("C11-b1", "C11", IDX, "    flags = min(len(entry.name), FLAG_NAMEMASK) | (entry.flags & ~FLAG_NAMEMASK)\n", "    flags = len(entry.name) | (entry.flags & ~FLAG_NAMEMASK)\n", "R11.2")
b("C11-b2", "C11", IDX, "            entry.size & 0xFFFFFFFF,\n", "            entry.size,\n", "R11.2")
b("C11-b3", "C11", IDX, "    ) = struct.unpack(\">LLLLLL20sH\", f.read(20 + 4 * 6 + 2))\n", "    ) = struct.unpack(\">LLLLLL20sH\", f.read(20 + 4 * 6 + 4))\n", "R11.1")
b("C11-b4", "C11", IDX, "        real_size = (name_offset - beginoffset + len(name) + 8) & ~7\n", "        real_size = (name_offset - beginoffset + len(name) + 7) & ~7\n", "R11.1")
n("C11-n1", "C11", IDX, "    beginoffset = f.tell()\n    write_cache_time(f, entry.ctime)\n    write_cache_time(f, entry.mtime)\n",
  "    beginoffset = f.tell()\n    ctime, mtime = entry.ctime, entry.mtime\n    write_cache_time(f, ctime)\n    write_cache_time(f, mtime)\n")

# ------------------------------------------------------------------ C13
b("C13-b1", "C13", "dulwich/graph.py", "                # and timestamps can be negative.\n                cstates[pcmt] = pflags | cflags\n",
  "                # and timestamps can be negative.\n                if pdt < min_stamp:\n                    continue\n                cstates[pcmt] = pflags | cflags\n", "R13.1")
b("C13-b2", "C13", "dulwich/walk.py", "            reset_extra_commits = True\n            is_excluded = sha in self._excluded\n",
  "            reset_extra_commits = True\n            if self._last is not None and commit.commit_time > self._last.commit_time + 86400:\n                continue\n            is_excluded = sha in self._excluded\n", "R13.2")
n("C13-n1", "C13", "dulwich/graph.py", "        heappush(self.pq, (-dt, cmt))\n", "        heappush(self.pq, (-int(dt), cmt))\n")

b("C13-b5", "C13", "dulwich/walk.py", "                    if self._last and n.commit_time >= self._last.commit_time:\n",
  "                    if self._last and n.commit_time > self._last.commit_time:\n", "R13.4")
b("C13-b6", "C13", "dulwich/walk.py", "        if self.until is not None and commit.commit_time > self.until:\n",
  "        if self.until is not None and commit.commit_time >= self.until:\n", "R13.4")
n("C13-n3", "C13", "dulwich/walk.py", "                    if self._last and n.commit_time >= self._last.commit_time:\n",
  "                    if self._last is not None and n.commit_time >= self._last.commit_time:\n")
# ------------------------------------------------------------------ C14
b("C14-b1", "C14", OS_, "            if parents is None:\n                # Fall back to loading the object\n                cmt = store[e]\n                assert isinstance(cmt, Commit)\n                parents = get_parents(cmt)\n\n            queue.extend(parents)\n",
  "            if parents is None:\n                parents = []\n\n            queue.extend(parents)\n", "R14.1")
b("C14-b2", "C14", OS_, "                try:\n                    if sha in self._get_pack_by_name(pack_name):\n                        return True\n                except (KeyError, PackFileDisappeared):\n                    pass\n", "                return True\n", "R14.2")
b("C14-b3", "C14", PACK, "            except FileNotFoundError:\n                # No bitmap exists for this pack\n                return None\n", "", "R14.2")
b("C14-b4", "C14", OS_, "    commit_graph = (\n        store.get_commit_graph() if get_parents is _commit_parents else None\n    )\n\n    while queue:\n        e = queue.pop(0)\n",
  "    commit_graph = store.get_commit_graph()\n\n    while queue:\n        e = queue.pop(0)\n", "R14.1")
b("C14-b5", "C14", REFS, "        if (\n            self._packed_refs is not None\n            and self._packed_refs_key != self._current_packed_refs_key()\n        ):\n",
  "        if self._packed_refs is not None and self._packed_refs_key is None:\n", "R14.4")
n("C14-n1", "C14", OS_, "        midx = self.get_midx()\n        if midx is not None:\n            result = midx.object_offset(sha)\n            if result is not None:\n                pack_name, _offset = result\n                try:\n                    pack = self._get_pack_by_name(pack_name)\n                    return pack.get_raw(sha)\n",
  "        midx = self.get_midx()\n        if midx is not None:\n            result = midx.object_offset(sha)\n            if result is not None:\n                pack_name = result[0]\n                try:\n                    pack = self._get_pack_by_name(pack_name)\n                    return pack.get_raw(sha)\n")

# ------------------------------------------------------------------ C15
b("C15-b1", "C15", "crates/diff-tree/src/lib.rs", "const S_IFDIR: u32 = 0o040000;", "const S_IFDIR: u32 = 0o100000;", "R15.4")
b("C15-b2", "C15", OBJ, "        return sorted_tree_items(self._entries, name_order)\n", "        return sorted_tree_items(self._entries, name_order=name_order, reverse=False)\n", "R15.2")
b("C15-b3", "C15", "crates/objects/src/lib.rs", "                .map_err(|e| PyTypeError::new_err((format!(\"invalid name type: {}\", e),)))?;", "                .unwrap();", "R15.3")
n("C15-n1", "C15", OBJ, "        return sorted_tree_items(self._entries, name_order)\n", "        return sorted_tree_items(self._entries, name_order=name_order)\n")

# ------------------------------------------------------------------ C16
b("C16-b1", "C16", "dulwich/reftable.py", "        if old_ref is not None:\n            # A missing ref compares as the zero id, like in the other\n            # backends; old_ref=None means \"set unconditionally\".\n            try:\n                current = self.read_loose_ref(name)\n            except KeyError:\n                current = ZERO_SHA\n            if current != bytes(old_ref):\n                return False\n",
  "        try:\n            current = self.read_loose_ref(name)\n        except KeyError:\n            current = None\n        if current != (bytes(old_ref) if old_ref else None):\n            return False\n", "R16.1")
b("C16-b2", "C16", REFS, "    if b\"..\" in refname:  # type: ignore[comparison-overlap]\n        return False\n", "", "R16.5")
b("C16-b3", "C16", REFS, "        if component.endswith(b\".lock\"):\n            return False\n", "        if component.endswith(b\".lock\"):\n            continue\n", "R16.5")
b("C16-b4", "C16", REFS, "        if old_ref is not None and self._refs.get(name, ZERO_SHA) != old_ref:\n            return False\n        try:\n            old = self._refs.pop(name)\n",
  "        if old_ref is not None and self._refs.get(name) != old_ref:\n            return False\n        try:\n            old = self._refs.pop(name)\n", "R16.3")
b("C16-b5", "C16", REFS, "        f.write(git_line(packed_refs[refname], refname))\n", "        f.write(packed_refs[refname] + b\"\\t\" + refname + b\"\\n\")\n", "R16.6")
n("C16-n1", "C16", REFS, "        if old_ref is not None and self._refs.get(name, ZERO_SHA) != old_ref:\n            return False\n        try:\n            old = self._refs.pop(name)\n",
  "        if old_ref is not None:\n            current = self._refs.get(name, ZERO_SHA)\n            if current != old_ref:\n                return False\n        try:\n            old = self._refs.pop(name)\n")

# ------------------------------------------------------------------ C17
b("C17-b1", "C17", IDX, "            # Refuse to write through a symlinked leading directory that\n            # would let open(..., \"wb\") escape the work tree.\n            verify_leading_dirs(path, [], repo_path)\n", "", "R17.1")
b("C17-b2", "C17", "dulwich/stash.py", "            verify_leading_dirs(tree_entry2.path, safe_prefix, repo_path)\n", "", "R17.1")
b("C17-b3", "C17", "dulwich/sparse_patterns.py", "        if not validate_path(path_bytes, validate_path_element):\n            raise InvalidPathError(path_bytes)\n", "", "R17.1")
b("C17-b4", "C17", IDX, "            try:\n                verify_leading_dirs(path, [], repo_path)\n            except InvalidPathError:\n                continue\n\n            full_path = _tree_to_fs_path(repo_path, path, tree_encoding)\n            try:\n                delete_stat",
  "            full_path = _tree_to_fs_path(repo_path, path, tree_encoding)\n            try:\n                delete_stat", "R17.1")
n("C17-n1", "C17", IDX, "            verify_leading_dirs(path, [], repo_path)\n            full_path = _tree_to_fs_path(repo_path, path, tree_encoding)\n            try:\n                modify_stat: os.stat_result | None = os.lstat(full_path)\n",
  "            verify_leading_dirs(path, [], repo_path)\n            logger.debug(\"checking out %r\", path)\n            full_path = _tree_to_fs_path(repo_path, path, tree_encoding)\n            try:\n                modify_stat: os.stat_result | None = os.lstat(full_path)\n")

# ------------------------------------------------------------------ C19
b("C19-b1", "C19", "dulwich/protocol.py", "    if len(data) > MAX_PKT_LINE_DATA_LENGTH:\n        raise ValueError(\n            f\"pkt-line payload too long: {len(data)} > {MAX_PKT_LINE_DATA_LENGTH} bytes\"\n        )\n", "", "R19.1")
b("C19-b2", "C19", "dulwich/protocol.py", "            elif size < 4:\n                raise GitProtocolError(f\"Invalid pkt-line length: {size:04x}\")\n            elif size <= len(buf):", "            elif size <= len(buf):", "R19.2")
b("C19-b3", "C19", "dulwich/protocol.py", "        while pkt is not None:\n            yield pkt\n", "        while pkt:\n            yield pkt\n", "R19.5")
b("C19-b4", "C19", "dulwich/protocol.py", "            self.write_pkt_line(bytes(bytearray([channel])) + blob[:65515])\n            blob = blob[65515:]\n",
  "            self.write_pkt_line(bytes(bytearray([channel])) + blob[:65516])\n            blob = blob[65516:]\n", "R19.2")
b("C19-b5", "C19", "dulwich/client.py", "        if not pkt:\n            raise GitProtocolError(\"side-band packet without a channel byte\")\n", "", "R19.4")
n("C19-n1", "C19", "dulwich/protocol.py", "    if data is None:\n        return b\"0000\"\n    if len(data) > MAX_PKT_LINE_DATA_LENGTH:\n",
  "    if data is None:\n        flush = b\"0000\"\n        return flush\n    if len(data) > MAX_PKT_LINE_DATA_LENGTH:\n")

# ------------------------------------------------------------------ C20
b("C20-b1", "C20", CFG, "        or b\"#\" in value\n        or b\";\" in value\n", "        or b\"#\" in value\n", "R20.2")
b("C20-b2", "C20", CFG, "    value = value.replace(b\"\\n\", b\"\\\\n\")\n", "    value = value.replace(b\"\\r\", b\"\\\\r\")\n    value = value.replace(b\"\\n\", b\"\\\\n\")\n", "R20.1")
b("C20-b3", "C20", CFG, "        if escaped:\n            # e.g. an escaped quote inside a quoted subsection name\n            escaped = False\n            continue\n        if character == backslash:\n            escaped = True\n        # Comment characters outside balanced quotes denote comment start\n        elif character == quote:",
  "        # Comment characters outside balanced quotes denote comment start\n        if character == quote:", "R20.3")
b("C20-b4", "C20", CFG, "_STRIPPED_EDGE_CHARS = (b\" \", b\"\\t\", b\"\\n\", b\"\\r\", b\"\\x0b\", b\"\\x0c\")", "_STRIPPED_EDGE_CHARS = (b\"\\t\", b\"\\n\", b\"\\r\", b\"\\x0b\", b\"\\x0c\")", "R20.2")
# since the parser strips only SP TAB CR LF and TAB, LF are escaped and CR forces quoting by its own clause, the shorter tuple is equivalent
n("C20-n9", "C20", CFG, "_STRIPPED_EDGE_CHARS = (b\" \", b\"\\t\", b\"\\n\", b\"\\r\", b\"\\x0b\", b\"\\x0c\")", "_STRIPPED_EDGE_CHARS = (b\" \", b\"\\t\")")
b("C20-b5", "C20", CFG, "    ord(b\"t\"): ord(b\"\\t\"),\n", "    ord(b\"t\"): ord(b\" \"),\n", "R20.1")
n("C20-n1", "C20", CFG, "    value = value.replace(b\"\\t\", b\"\\\\t\")\n    value = value.replace(b'\"', b'\\\\\"')\n", "    value = value.replace(b'\"', b'\\\\\"')\n    value = value.replace(b\"\\t\", b\"\\\\t\")\n")

# ------------------------------------------------------------------ variants for the rules added after the seeded changes
b("C01-b6", "C01", OBJ, "        if object_format is not None:\n            new_sha = object_format.new_hash()\n",
  "        if object_format is not None and object_format != DEFAULT_OBJECT_FORMAT:\n            new_sha = object_format.new_hash()\n", "R01.2")
b("C01-b7", "C01", OBJ, "            v.append(line[1:])\n", "            v.append(line.lstrip(b\" \"))\n", "R01.5")
n("C01-n3", "C01", OBJ, "            v.append(line[1:])\n", "            v.append(line[len(b\" \"):])\n")
b("C03-b6", "C03", PACK, "                copy_start += to_copy\n", "                copy_start = i1 + to_copy\n", "R03.5")
b("C09-b6", "C09", OS_, "        for pack in self.packs:\n            if pack.name() == pack_name:\n", "        for pack in self._iter_cached_packs():\n            if pack.name() == pack_name:\n", "R09.2")
b("C10-b5", "C10", OS_, "            if disappeared:\n                self._update_pack_cache()\n                rescanned = True\n                continue\n",
  "            if disappeared:\n                self._update_pack_cache()\n                rescanned = True\n", "R10.4")
b("C11-b5", "C11", IDX, "        new_flags = self.flags & ~FLAG_STAGEMASK\n", "        new_flags = self.flags & ~FLAG_NAMEMASK\n", "R11.2")
b("C11-b6", "C11", IDX, "    while value > 0:\n        value -= 1\n        result.append(0x80 | (value & 0x7F))\n", "    while value > 0:\n        result.append(0x80 | (value & 0x7F))\n", "R11.5")
b("C13-b3", "C13", "dulwich/graph.py", "        lcas = _remove_redundant(lookup_parents, lcas, shallows)\n    return lcas\n", "        pass\n    return lcas\n", "R13.3")
b("C14-b6", "C14", "dulwich/commit_graph.py", "GRAPH_EXTRA_EDGES_NEEDED | (len(extra_edge_data) // 4)", "GRAPH_EXTRA_EDGES_NEEDED | len(extra_edge_data)", "R14.3")
b("C14-b7", "C14", "dulwich/commit_graph.py", "                    if n == len(extra_parents) - 1:\n", "                    if n == len(entry.parents) - 1:\n", "R14.3")
b("C13-b4", "C13", "dulwich/commit_graph.py", "                    if n == len(extra_parents) - 1:\n", "                    if n == len(entry.parents) - 1:\n", "R13.3")
b("C16-b6", "C16", REFS, "        filename = self.refpath(realname)\n\n        self._check_no_packed_conflict(realname, filename)\n", "        filename = self.refpath(realname)\n\n        self._check_no_packed_conflict(name, filename)\n", "R16.7")
b("C17-b5", "C17", IDX, "    common = 0\n    while (\n        common < len(safe_prefix)\n        and common < len(components)\n        and safe_prefix[common] == components[common]\n    ):\n        common += 1\n",
  "    common = sum(1 for seen, part in zip(safe_prefix, components) if seen == part)\n", "R17.6")
n("C17-n2", "C17", IDX, "    common = 0\n    while (\n        common < len(safe_prefix)\n        and common < len(components)\n        and safe_prefix[common] == components[common]\n    ):\n        common += 1\n",
  "    common = 0\n    for seen, part in zip(safe_prefix, components):\n        if seen != part:\n            break\n        common += 1\n")
b("C17-b6", "C17", IDX, "    if current_stat is not None and stat.S_ISDIR(current_stat.st_mode):\n        # Already a directory, just ensure .git file exists\n",
  "    if current_stat is not None and os.path.isdir(full_path):\n        # Already a directory, just ensure .git file exists\n", "R17.5")
b("C19-b6", "C19", "dulwich/protocol.py", "            pkt_contents = read(size - 4) if size > 4 else b\"\"\n", "            pkt_contents = read(size - 4)\n", "R19.2")
n("C19-n2", "C19", "dulwich/protocol.py", "        while blob:\n            self.write_pkt_line(bytes(bytearray([channel])) + blob[:65515])\n            blob = blob[65515:]\n",
  "        for start in range(0, len(blob), 65515):\n            self.write_pkt_line(bytes(bytearray([channel])) + blob[start : start + 65515])\n")
n("C19-n3", "C19", "dulwich/protocol.py",
  "        while len(buf) >= 4:\n            size = _parse_pkt_line_length(buf[:4])\n            if size == 0:\n                self.handle_pkt(None)\n                buf = buf[4:]\n            elif size < 4:\n                raise GitProtocolError(f\"Invalid pkt-line length: {size:04x}\")\n            elif size <= len(buf):\n                self.handle_pkt(buf[4:size])\n                buf = buf[size:]\n            else:\n                break\n        self._readahead = BytesIO()\n        self._readahead.write(buf)\n",
  "        pos = 0\n        end = len(buf)\n        while end - pos >= 4:\n            size = _parse_pkt_line_length(buf[pos : pos + 4])\n            if size == 0:\n                self.handle_pkt(None)\n                pos += 4\n            elif size < 4:\n                raise GitProtocolError(f\"Invalid pkt-line length: {size:04x}\")\n            elif size <= end - pos:\n                self.handle_pkt(buf[pos + 4 : pos + size])\n                pos += size\n            else:\n                break\n        self._readahead = BytesIO()\n        self._readahead.write(buf[pos:])\n")
b("C19-b7", "C19", "dulwich/protocol.py",
  "        while len(buf) >= 4:\n            size = _parse_pkt_line_length(buf[:4])\n            if size == 0:\n                self.handle_pkt(None)\n                buf = buf[4:]\n            elif size < 4:\n                raise GitProtocolError(f\"Invalid pkt-line length: {size:04x}\")\n            elif size <= len(buf):\n                self.handle_pkt(buf[4:size])\n                buf = buf[size:]\n            else:\n                break\n        self._readahead = BytesIO()\n        self._readahead.write(buf)\n",
  "        pos = 0\n        end = len(buf)\n        while end - pos >= 4:\n            size = _parse_pkt_line_length(buf[pos : pos + 4])\n            if size == 0:\n                self.handle_pkt(None)\n                pos += 4\n            elif size < 4:\n                raise GitProtocolError(f\"Invalid pkt-line length: {size:04x}\")\n            elif size <= end:\n                self.handle_pkt(buf[pos + 4 : pos + size])\n                pos += size\n            else:\n                break\n        self._readahead = BytesIO()\n        self._readahead.write(buf[pos:])\n", "R19.2")
b("C20-b6", "C20", CFG, "        or b\"\\r\" in value\n", "", "R20.5")
b("C20-b7", "C20", CFG, "            if lower_key(actual) == lower_k:\n                del self._real[i]\n", "            if lower_key(actual) == key:\n                del self._real[i]\n", "R20.6")

# ------------------------------------------------------------------ round 3 additions
PATCH = "dulwich/patch.py"
b("C17-b7", "C17", PATCH, "                _replace_symlink(fs_path)\n                with open(fs_path, \"wb\") as f:\n                    f.write(result_content)\n",
  "                with open(fs_path, \"wb\") as f:\n                    f.write(result_content)\n", "R17.10")
b("C17-b8", "C17", "dulwich/sparse_patterns.py", "            if not os.path.lexists(full_path):\n", "            if not os.path.exists(full_path):\n", "R17.10")
b("C17-b9", "C17", PATCH, "    if os.path.islink(fs_path):\n        os.unlink(fs_path)\n", "    if os.path.islink(fs_path) and not os.path.exists(fs_path):\n        pass\n", "R17.10")
n("C17-n4", "C17", PATCH, "        _replace_symlink(dst_fs_path)\n        with open(dst_fs_path, \"wb\") as f:\n",
  "        if os.path.islink(dst_fs_path):\n            os.unlink(dst_fs_path)\n        with open(dst_fs_path, \"wb\") as f:\n")
n("C17-n5", "C17", IDX, "    while i < len(name):\n        c = name[i : i + 1]\n        if c == b\":\":\n            return True\n        if c != b\".\" and c != b\" \":\n            return False\n        i += 1\n    return True\n",
  "    rest = name[i:].lstrip(b\". \")\n    return not rest or rest.startswith(b\":\")\n")
n("C19-n5", "C19", "dulwich/protocol.py", "            self._write(data)\n        self._len = 0\n        self._wbuf = BytesIO()\n",
  "            self._write(data)\n        self._buflen = 0\n        self._wbuf = BytesIO()\n")
n("C19-n6", "C19", "dulwich/protocol.py", "    split_text = text.rstrip().split(b\" \")\n", "    split_text = text.rstrip(b\" \\r\\n\\t\").split(b\" \")\n")
b("C19-b7", "C19", "dulwich/protocol.py", "        data = self._wbuf.getvalue()\n        if data:\n            self._write(data)\n        self._len = 0\n",
  "        data = self._wbuf.getvalue()\n        if self._buflen:\n            self._write(data)\n        self._buflen = 0\n", "R19.10")
b("C20-b9", "C20", CFG, "    value_array = bytearray(value.strip(b\" \\t\\r\\n\"))\n",
  "    if b'\"' not in value and b\"#\" not in value and b\";\" not in value:\n        return value.strip().replace(b\"\\\\\\\\\", b\"\\\\\").replace(b\"\\\\n\", b\"\\n\").replace(b\"\\\\t\", b\"\\t\")\n    value_array = bytearray(value.strip(b\" \\t\\r\\n\"))\n", "R20.9")

# ------------------------------------------------------------------ rules added after the defect-hunting round (R09.11, R09.12)
REPO_PY = "dulwich/repo.py"
STASH = "dulwich/stash.py"
b("C09-b7", "C09", REPO_PY, "        graph_walker.update_shallow = lambda new_shallow, unshallow: (\n            pending_shallow.append((new_shallow, unshallow))\n        )\n", "", "R09.11")
b("C09-b8", "C09", REPO_PY, "        target.object_store.add_pack_data(count, pack_data, progress)\n        for new_shallow, unshallow in pending_shallow:\n            apply_shallow(new_shallow, unshallow)\n",
  "        for new_shallow, unshallow in pending_shallow:\n            apply_shallow(new_shallow, unshallow)\n        target.object_store.add_pack_data(count, pack_data, progress)\n", "R09.11")
b("C09-b9", "C09", "dulwich/client.py", "            # Report final progress\n            progress_wrapper.finalize()\n\n            # Fix object format if needed\n            if (\n                result.object_format\n                and result.object_format != target.object_format.name\n            ):",
  "            # Report final progress\n            progress_wrapper.finalize()\n            target.update_shallow(result.new_shallow, result.new_unshallow)\n\n            # Fix object format if needed\n            if (\n                result.object_format\n                and result.object_format != target.object_format.name\n            ):", "R09.11")
b("C09-b10", "C09", STASH, "        try:\n            old_stash: ObjectID | None = self._repo.refs[self._ref]\n        except KeyError:\n            old_stash = None\n",
  "        try:\n            old_stash: ObjectID | None = self._repo.refs[self._ref]\n        except KeyError:\n            old_stash = None\n        self._repo.refs[self._ref] = self._repo.head()\n        old_stash = self._repo.head()\n", "R09.12")
n("C09-n2", "C09", REPO_PY, "        for new_shallow, unshallow in pending_shallow:\n            apply_shallow(new_shallow, unshallow)\n        return self.get_refs()\n",
  "        refs = self.get_refs()\n        for new_shallow, unshallow in pending_shallow:\n            apply_shallow(new_shallow, unshallow)\n        return refs\n")
n("C09-n3", "C09", STASH, "        if old_stash is not None:\n            ok = self._repo.refs.set_if_equals(\n                self._ref,\n                old_stash,\n                cid,\n                message=b\"commit: \" + message,\n                committer=committer,\n            )\n        else:\n            ok = self._repo.refs.add_if_new(\n                self._ref,\n                cid,\n                message=b\"commit: \" + message,\n                committer=committer,\n            )\n",
  "        reflog_message = b\"commit: \" + message\n        if old_stash is None:\n            ok = self._repo.refs.add_if_new(\n                self._ref,\n                cid,\n                message=reflog_message,\n                committer=committer,\n            )\n        else:\n            ok = self._repo.refs.set_if_equals(\n                self._ref,\n                old_stash,\n                cid,\n                message=reflog_message,\n                committer=committer,\n            )\n")
b("C16-b10", "C16", REFS, "        self._check_refname(realname)\n        filename = self.refpath(realname)\n        self._check_no_packed_conflict(realname, filename)\n", "        self._check_refname(realname)\n        filename = self.refpath(realname)\n", "R16.15")
b("C16-b11", "C16", REFS, "        prefix = refname + b\"/\"\n        for packed_name in packed_refs:\n            if packed_name.startswith(prefix):\n                raise IsADirectoryError(filename)\n", "", "R16.15")
b("C16-b12", "C16", REFS, "        filename = self.refpath(name)\n        self._check_no_packed_conflict(name, filename)\n", "        filename = self.refpath(name)\n", "R16.15")
n("C16-n9", "C16", REFS, "        prefix = refname + b\"/\"\n        for packed_name in packed_refs:\n            if packed_name.startswith(prefix):\n                raise IsADirectoryError(filename)\n",
  "        prefix = refname + b\"/\"\n        if any(packed_name.startswith(prefix) for packed_name in packed_refs):\n            raise IsADirectoryError(filename)\n")
GC_PY = "dulwich/gc.py"
b("C10-b9", "C10", GC_PY, "    for sha in _other_worktree_roots(refs_container):\n        if sha and sha not in reachable:\n            pending.append(sha)\n            reachable.add(sha)\n", "", "R10.13")
b("C10-b10", "C10", GC_PY, "    git_dirs = [common_dir]\n", "    git_dirs = []\n", "R10.13")
b("C10-b11", "C10", GC_PY, "    for sha in _other_worktree_roots(refs_container):\n        if sha and sha not in reachable:\n            pending.append(sha)\n            reachable.add(sha)\n",
  "    for sha in _other_worktree_roots(refs_container):\n        if sha and sha not in reachable:\n            reachable.discard(sha)\n", "R10.13")
CLIENT = "dulwich/client.py"
b("C05-b9", "C05", CLIENT, "                for update in proto.read_pkt_seq():\n                    raise GitProtocolError(\n                        f\"unexpected shallow update {update!r} without deepening\"\n                    )\n                pkt = proto.read_pkt_line()\n                continue\n", "                pass\n", "R05.8")
b("C05-b10", "C05", CLIENT, "            if parts[0] == b\"shallow-info\":\n", "            if parts[0] == b\"shallow-update\":\n", "R05.8")
n("C05-n9", "C05", CLIENT, "                for update in proto.read_pkt_seq():\n                    raise GitProtocolError(\n                        f\"unexpected shallow update {update!r} without deepening\"\n                    )\n",
  "                updates = list(proto.read_pkt_seq())\n                if updates:\n                    raise GitProtocolError(\n                        f\"unexpected shallow update {updates[0]!r} without deepening\"\n                    )\n")
b("C05-b11", "C05", REPO_PY, "            or unshallow\n            or getattr(graph_walker, \"client_shallow\", set())\n        ):", "            or unshallow\n        ):", "R05.9")
n("C05-n10", "C05", REPO_PY, "        if (\n            getattr(graph_walker, \"shallow\", set())\n            or unshallow\n            or getattr(graph_walker, \"client_shallow\", set())\n        ):\n            # TODO: filter the haves commits from iter_shas. the specific",
  "        declared_by_client = getattr(graph_walker, \"client_shallow\", set())\n        if (\n            declared_by_client\n            or getattr(graph_walker, \"shallow\", set())\n            or unshallow\n        ):\n            # TODO: filter the haves commits from iter_shas. the specific")
BUNDLE = "dulwich/bundle.py"
b("C04-b12", "C04", BUNDLE, "        self.pack_data.check()\n", "", "R04.4")
b("C04-b13", "C04", BUNDLE, "        objects = list(PackInflater.for_pack_data(self.pack_data))\n        for git_obj in objects:\n", "        for git_obj in PackInflater.for_pack_data(self.pack_data):\n", "R04.4")
n("C04-n9", "C04", BUNDLE, "        objects = list(PackInflater.for_pack_data(self.pack_data))\n        for git_obj in objects:\n", "        resolved = tuple(PackInflater.for_pack_data(self.pack_data))\n        for git_obj in resolved:\n")
b("C10-b12", "C10", GC_PY, "    if prune and not dry_run and grace_period is not None:\n        for sha in list(unreachable_to_prune):\n            try:\n                if time.time() - object_store.get_object_mtime(sha) < grace_period:\n                    unreachable_to_prune.discard(sha)\n            except KeyError:\n                unreachable_to_prune.discard(sha)\n", "", "R10.14")
b("C10-b13", "C10", GC_PY, "    if prune and not dry_run and grace_period is not None:\n        for sha in list(unreachable_to_prune):\n            try:\n                if time.time() - object_store.get_object_mtime(sha) < grace_period:",
  "    if prune and not dry_run and grace_period is None:\n        for sha in list(unreachable_to_prune):\n            try:\n                if time.time() - object_store.get_object_mtime(sha) < 0:", "R10.14")
n("C10-n9", "C10", GC_PY, "    if prune and not dry_run and grace_period is not None:\n        for sha in list(unreachable_to_prune):\n            try:\n                if time.time() - object_store.get_object_mtime(sha) < grace_period:\n                    unreachable_to_prune.discard(sha)\n            except KeyError:\n                unreachable_to_prune.discard(sha)\n\n    # Delete loose unreachable objects\n    if prune and not dry_run:\n        for sha in unreachable_to_prune:\n            if object_store.contains_loose(sha):\n",
  "    # Delete loose unreachable objects\n    if prune and not dry_run:\n        for sha in list(unreachable_to_prune):\n            if grace_period is not None:\n                try:\n                    if time.time() - object_store.get_object_mtime(sha) < grace_period:\n                        unreachable_to_prune.discard(sha)\n                        continue\n                except KeyError:\n                    unreachable_to_prune.discard(sha)\n                    continue\n            if object_store.contains_loose(sha):\n")
b("C11-b9", "C11", IDX, "            for name, entry in entries.items():\n                self._byname[name] = entry\n                if self._normalized is not None:\n                    assert self._path_normalizer is not None\n                    self._normalized.setdefault(self._path_normalizer(name), name)\n",
  "            for name, entry in entries.items():\n                self[name] = entry\n", "R11.9")
n("C11-n9", "C11", IDX, "            for name, entry in entries.items():\n                self._byname[name] = entry\n                if self._normalized is not None:\n                    assert self._path_normalizer is not None\n                    self._normalized.setdefault(self._path_normalizer(name), name)\n",
  "            self._byname.update(entries)\n            if self._normalized is not None:\n                assert self._path_normalizer is not None\n                for name in entries:\n                    self._normalized.setdefault(self._path_normalizer(name), name)\n")
REFTABLE = "dulwich/reftable.py"
b("C07-b12", "C07", REFTABLE, "        # Write new tables.list with just the consolidated file\n        with GitFile(tables_list_path, \"wb\") as f:\n            f.write((new_table_name + \"\\n\").encode())\n\n        # Remove old .ref files (Git's compaction behavior), after the list\n        # that named them has been replaced\n        for name in os.listdir(self.reftable_dir):\n            if name.endswith(\".ref\") and name != new_table_name:\n                os.remove(os.path.join(self.reftable_dir, name))\n",
  "        for name in os.listdir(self.reftable_dir):\n            if name.endswith(\".ref\") and name != new_table_name:\n                os.remove(os.path.join(self.reftable_dir, name))\n\n        with GitFile(tables_list_path, \"wb\") as f:\n            f.write((new_table_name + \"\\n\").encode())\n", "R07.6")
n("C07-n9", "C07", REFTABLE, "        for name in os.listdir(self.reftable_dir):\n            if name.endswith(\".ref\") and name != new_table_name:\n                os.remove(os.path.join(self.reftable_dir, name))\n",
  "        stale = [name for name in os.listdir(self.reftable_dir) if name.endswith(\".ref\") and name != new_table_name]\n        for name in stale:\n            os.remove(os.path.join(self.reftable_dir, name))\n")
b("C16-b13", "C16", REFTABLE, "    result = [value & 0x7F]\n    value >>= 7\n    while value > 0:\n        value -= 1\n        result.append(0x80 | (value & 0x7F))\n        value >>= 7\n    return bytes(reversed(result))\n\n\ndef _decode_reftable_suffix_and_type",
  "    if value < 128:\n        return bytes([value])\n    return bytes([0x80, value - 0x80])\n\n\ndef _decode_reftable_suffix_and_type", "R16.16")
b("C16-b14", "C16", REFTABLE, "        byte = byte_data[0]\n        value = ((value + 1) << 7) + (byte & 0x7F)\n    return value\n", "        byte = byte_data[0]\n        value = (value << 7) + (byte & 0x7F)\n    return value\n", "R16.16")
n("C16-n10", "C16", REFTABLE, "        byte = byte_data[0]\n        value = ((value + 1) << 7) + (byte & 0x7F)\n    return value\n", "        byte = byte_data[0]\n        value += 1\n        value <<= 7\n        value += byte & 0x7F\n    return value\n")
