#!/venv/bin/python
"""Generic behaviour-preserving rewrites of the WHOLE package, held in memory, run through every check.

A check that reports a violation (or cannot analyse) after one of these rewrites depends on the spelling of the
code, not on its behaviour.  Transformations (each applied to every dulwich/*.py file at once):

  unparse   ast.unparse round trip: layout, quotes, parentheses, number bases, comments and line numbers change
  flip      `if c: A else: B`  ->  `if not c: B else: A`        (two-armed ifs that are not elif chains)
  mirror    `a < b` -> `b > a`, `a == b` -> `b == a`, ...       (single comparisons of side-effect free operands)
  augexp    `x += 1` -> `x = x + 1`                              (Name target, int constant operand)
  rename    every function-local variable that no nested scope captures gets the suffix `_r`
  pad       a `pass`-like no-op statement (`_ = None`) is inserted at the top of every function body

usage: selftest/neutral_sweep.py [--only T[,T]] [--prop Cxx[,Cxx]] [-j N] [--json out]
Exit 0: silent everywhere.  Exit 3: some check reacted (listed).
"""
from __future__ import annotations

import argparse
import ast
import importlib
import json
import os
import symtable
import sys
from concurrent.futures import ProcessPoolExecutor

HERE = os.path.dirname(os.path.abspath(__file__))
VERIF = os.path.dirname(HERE)
sys.path.insert(0, VERIF)

PROPS = ["C01", "C02", "C03", "C04", "C05", "C06", "C07", "C08", "C09", "C10", "C11", "C13", "C14", "C15", "C16", "C17", "C19", "C20"]


def _pure(e: ast.AST) -> bool:
    return all(isinstance(x, (ast.Name, ast.Attribute, ast.Constant, ast.Subscript, ast.Load, ast.UnaryOp, ast.USub, ast.BinOp,
                              ast.Add, ast.Sub, ast.Mult, ast.BitAnd, ast.BitOr, ast.LShift, ast.RShift, ast.Slice, ast.Tuple))
               for x in ast.walk(e))


class Flip(ast.NodeTransformer):
    def visit_If(self, node):
        self.generic_visit(node)
        if node.orelse and not (len(node.orelse) == 1 and isinstance(node.orelse[0], ast.If)):
            t = node.test
            nt = t.operand if isinstance(t, ast.UnaryOp) and isinstance(t.op, ast.Not) else ast.UnaryOp(op=ast.Not(), operand=t)
            return ast.copy_location(ast.If(test=nt, body=node.orelse, orelse=node.body), node)
        return node


MIRROR = {ast.Lt: ast.Gt, ast.Gt: ast.Lt, ast.LtE: ast.GtE, ast.GtE: ast.LtE, ast.Eq: ast.Eq, ast.NotEq: ast.NotEq}


class Mirror(ast.NodeTransformer):
    def visit_Compare(self, node):
        self.generic_visit(node)
        if len(node.ops) == 1 and type(node.ops[0]) in MIRROR and _pure(node.left) and _pure(node.comparators[0]):
            return ast.copy_location(ast.Compare(left=node.comparators[0], ops=[MIRROR[type(node.ops[0])]()], comparators=[node.left]), node)
        return node


class AugExp(ast.NodeTransformer):
    def visit_AugAssign(self, node):
        if isinstance(node.target, ast.Name) and isinstance(node.value, ast.Constant) and isinstance(node.value.value, int) \
                and not isinstance(node.value.value, bool):
            return ast.copy_location(ast.Assign(targets=[ast.Name(id=node.target.id, ctx=ast.Store())],
                                                value=ast.BinOp(left=ast.Name(id=node.target.id, ctx=ast.Load()), op=node.op, right=node.value),
                                                lineno=node.lineno), node)
        return node


class Pad(ast.NodeTransformer):
    def _pad(self, node):
        self.generic_visit(node)
        i = 1 if node.body and isinstance(node.body[0], ast.Expr) and isinstance(node.body[0].value, ast.Constant) and isinstance(node.body[0].value.value, str) else 0
        node.body.insert(i, ast.Assign(targets=[ast.Name(id="_", ctx=ast.Store())], value=ast.Constant(value=None), lineno=node.lineno))
        return node
    visit_FunctionDef = _pad
    visit_AsyncFunctionDef = _pad


def _rename(src: str, rel: str) -> str:
    """Rename function locals that are plain locals of exactly one function scope and not captured by nested scopes."""
    tree = ast.parse(src)
    try:
        top = symtable.symtable(src, rel, "exec")
    except SyntaxError:
        return src
    # map (name, lineno) of function -> set of renamable locals
    plan = {}

    def walk(tab):
        for ch in tab.get_children():
            if ch.get_type() == "function":
                captured = set()

                def frees(t):
                    for c in t.get_children():
                        for s in c.get_symbols():
                            if s.is_free() or (s.is_global() and not s.is_declared_global()):
                                captured.add(s.get_name())
                            if s.is_referenced() or s.is_assigned():
                                # class bodies and comprehensions that merely mention the name
                                captured.add(s.get_name()) if not s.is_local() else None
                        frees(c)
                frees(ch)
                params = set(ch.get_parameters())
                names = set()
                for s in ch.get_symbols():
                    n = s.get_name()
                    if s.is_local() and not s.is_parameter() and not s.is_imported() and not s.is_namespace() and n not in captured \
                            and n not in params and not n.startswith("__") and n != "_" and not s.is_nonlocal() and not s.is_declared_global():
                        names.add(n)
                plan[(ch.get_name(), ch.get_lineno())] = names
            walk(ch)
    walk(top)

    class R(ast.NodeTransformer):
        def __init__(self):
            self.stack = []

        def _fn(self, node):
            names = plan.get((node.name, node.lineno), set())
            # do not rename when the function uses locals()/vars()/exec/eval, or except-handler/with/import bind the name
            src_names = {n.id for n in ast.walk(node) if isinstance(n, ast.Name)}
            if src_names & {"locals", "vars", "exec", "eval"}:
                names = set()
            bound_other = set()
            for x in ast.walk(node):
                if isinstance(x, ast.ExceptHandler) and x.name:
                    bound_other.add(x.name)
                if isinstance(x, (ast.Global, ast.Nonlocal)):
                    bound_other.update(x.names)
                if isinstance(x, ast.MatchAs) and x.name:
                    bound_other.add(x.name)
                if isinstance(x, (ast.MatchStar,)) and x.name:
                    bound_other.add(x.name)
                if isinstance(x, ast.MatchMapping) and x.rest:
                    bound_other.add(x.rest)
            names = names - bound_other
            # names mentioned inside comprehensions / lambdas / nested defs are left alone (those nodes are not rewritten)
            for x in ast.walk(node):
                if x is not node and isinstance(x, (ast.ListComp, ast.SetComp, ast.DictComp, ast.GeneratorExp, ast.Lambda, ast.FunctionDef,
                                                    ast.AsyncFunctionDef, ast.ClassDef)):
                    names = names - {y.id for y in ast.walk(x) if isinstance(y, ast.Name)}
            self.stack.append(names)
            # only this function's own statements: nested defs are visited with their own plan
            node.body = [self.visit(s) for s in node.body]
            self.stack.pop()
            return node
        visit_FunctionDef = _fn
        visit_AsyncFunctionDef = _fn

        def visit_Lambda(self, node):
            return node

        def visit_ClassDef(self, node):
            self.stack.append(set())
            self.generic_visit(node)
            self.stack.pop()
            return node

        def visit_ListComp(self, node):
            return self._comp(node)

        def _comp(self, node):
            # comprehension targets are their own scope; names they read from the function were excluded as captured
            return node
        visit_SetComp = visit_DictComp = visit_GeneratorExp = _comp

        def visit_Name(self, node):
            if self.stack and node.id in self.stack[-1]:
                return ast.copy_location(ast.Name(id=node.id + "_r", ctx=node.ctx), node)
            return node
    new = R().visit(tree)
    ast.fix_missing_locations(new)
    out = ast.unparse(new)
    compile(out, rel, "exec")
    return out


def transform(kind: str, src: str, rel: str) -> str:
    if kind == "rename":
        return _rename(src, rel)
    tree = ast.parse(src)
    t = {"unparse": None, "flip": Flip(), "mirror": Mirror(), "augexp": AugExp(), "pad": Pad()}[kind]
    if t is not None:
        tree = t.visit(tree)
        ast.fix_missing_locations(tree)
    out = ast.unparse(tree)
    compile(out, rel, "exec")
    return out


def overrides_for(kind: str) -> dict:
    from sa.load import REPO
    out = {}
    for dp, dn, fn in os.walk(os.path.join(REPO, "dulwich")):
        for f in fn:
            if f.endswith(".py"):
                p = os.path.join(dp, f)
                rel = os.path.relpath(p, REPO)
                src = open(p, encoding="utf-8").read()
                try:
                    out[rel] = transform(kind, src, rel)
                except Exception as e:  # a transformation that cannot be applied to a file leaves it alone
                    print(f"  (transformation {kind} skipped for {rel}: {type(e).__name__}: {e})")
    return out


def _one(args):
    kind, prop = args
    from selftest.run import _violations
    base, err0 = _violations(prop, None)
    if err0:
        return kind, prop, "error", "baseline: " + err0
    ov = overrides_for(kind)
    got, err = _violations(prop, ov)
    if err:
        return kind, prop, "analysis-error", err
    new = sorted(got - base)
    if new:
        return kind, prop, "false-alarm", [list(x) for x in new]
    return kind, prop, "ok", ""


def main():
    ap = argparse.ArgumentParser()
    ap.add_argument("--only")
    ap.add_argument("--prop")
    ap.add_argument("-j", type=int, default=min(16, os.cpu_count() or 4))
    ap.add_argument("--json")
    a = ap.parse_args()
    kinds = a.only.split(",") if a.only else ["unparse", "flip", "mirror", "augexp", "pad", "rename"]
    props = a.prop.split(",") if a.prop else PROPS
    jobs = [(k, p) for k in kinds for p in props]
    res = []
    with ProcessPoolExecutor(a.j) as ex:
        for kind, prop, st, info in ex.map(_one, jobs):
            res.append(dict(kind=kind, prop=prop, status=st, info=info))
            if st != "ok":
                print(f"[{st}] {kind:8s} {prop}: " + (json.dumps(info)[:1200] if not isinstance(info, str) else info[:600]))
    bad = [r for r in res if r["status"] != "ok"]
    print(f"NEUTRAL-SWEEP {len(res) - len(bad)}/{len(res)} silent")
    if a.json:
        json.dump(res, open(a.json, "w"), indent=1)
    sys.exit(3 if bad else 0)


if __name__ == "__main__":
    main()
