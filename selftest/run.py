#!/venv/bin/python
"""Self-test of the checkers, both ways, on /repo's CURRENT tree:

  * breaking variants must each produce a NEW violation of the expected rule,
  * neutral variants must produce no new violation and no analysis error,
  * (with --orig) the pinned original commit of /repo must reproduce the documented defects.

Variants are in-memory source overrides (selftest/variants.py).  A variant whose edit site is no longer found is
skipped and counted; the run fails if fewer than FLOOR of the variants of a property could run.

Exit 0: all as expected.  Exit 3: a checker did not behave as expected (reported by `./check --tier thorough`
as ANALYSIS-ERROR, never as a property violation).
"""
from __future__ import annotations

import argparse
import importlib
import io
import json
import os
import subprocess
import sys
import tempfile
import contextlib
from concurrent.futures import ProcessPoolExecutor

HERE = os.path.dirname(os.path.abspath(__file__))
VERIF = os.path.dirname(HERE)
sys.path.insert(0, VERIF)

FLOOR = 0.6
ORIG_COMMIT = "671b511"

# (property, rule prefix, function substring) expected to be violated on the pinned original tree
ORIG_EXPECT = [
    ("C01", "R01.1", "Blob.chunked"),
    ("C02", "R02.3", "Pack.data"),
    ("C03", "R03.3", "apply_delta"), ("C03", "R03.4", "get_delta_header_size"), ("C03", "R03.4", "sorted_tree_items"),
    ("C03", "R03.7", "apply_delta"),
    ("C04", "R04.4", "MemoryObjectStore.add_pack"), ("C04", "R04.5", "_fetch_loose_object"), ("C04", "R04.7", "Pack.resolve_object"),
    ("C06", "R06.1", "_apply_pack"), ("C06", "R06.3", "_apply_pack"), ("C06", "R06.4", "_apply_pack"), ("C06", "R06.4", "send_pack"),
    ("C07", "R07.1c", "_GitFile.close"), ("C07", "R07.1d", "_GitFile.close"), ("C07", "R07.1d", "_GitFile.abort"),
    ("C07", "R07.2", "Index.write"), ("C07", "R07.3", "BisectState.mark_bad"), ("C07", "R07.3", "_update_tables_list"),
    ("C08", "R08.1", "DiskRefsContainer.set_if_equals"), ("C08", "R08.2", "add_packed_refs"), ("C08", "R08.3", "WorkTree.commit"),
    ("C08", "R08.3", "commit"), ("C08", "R08.4", "am_abort"), ("C08", "R08.4", "reset"), ("C08", "R08.4", "update_ref"),
    ("C09", "R09.5", "add_packed_refs"), ("C09", "R09.5", "remove_if_equals"), ("C09", "R09.5", "locked_ref.delete"),
    ("C10", "R10.4", "iter_prefix"), ("C10", "R10.5", "get_raw"), ("C10", "R10.5", "__contains__"),
    ("C11", "R11.2", "write_cache_entry"),
    ("C13", "R13.1", "_find_lcas"),
    ("C14", "R14.1", "_collect_ancestors"), ("C14", "R14.2", "contains_packed"), ("C14", "R14.2", "find_commit_bitmaps"),
    ("C14", "R14.3", "write_to_file"),
    ("C15", "R15.3", "apply_delta"), ("C15", "R15.3", "sorted_tree_items"),
    ("C16", "R16.1", "ReftableRefsContainer.set_if_equals"), ("C16", "R16.3", "ReftableRefsContainer.remove_if_equals"),
    ("C17", "R17.1", "update_working_tree"), ("C17", "R17.1", "apply_included_paths"),
    ("C19", "R19.1", "pkt_line"), ("C19", "R19.4", "_read_side_band64k_data"), ("C19", "R19.5", "read_pkt_seq"),
    ("C20", "R20.1", "_escape_value"), ("C20", "R20.2", "_format_string"), ("C20", "R20.3", "_strip_comments"),
    ("C11", "R11.5", "_encode_varint"), ("C11", "R11.5", "_decompress_path_from_stream"), ("C19", "R19.2", "read_pkt_line"),
    ("C04", "R04.10", "add_thin_pack"), ("C04", "R04.10", "commit"),
    ("C15", "R15.8", "Blob.splitlines"), ("C01", "R01.8", "Blob.splitlines"),
    ("C11", "R11.7", "SHA1Reader.check_sha"), ("C04", "R04.13", "SHA1Reader.check_sha"),
    ("C05", "R05.7", "_handle_upload_pack_head"),
    ("C10", "R10.11", "get_object_mtime"), ("C10", "R10.12", "PackBasedObjectStore.__iter__"), ("C10", "R10.12", "_iter_loose_objects"),
    ("C14", "R14.9", "get_tree_objects"), ("C14", "R14.9", "get_reachable_commits"), ("C14", "R14.10", "build_reachability_bitmap"),
    ("C14", "R14.11", "get_peeled"), ("C14", "R14.11", "add_packed_refs"), ("C14", "R14.11", "get_packed_refs"),
    ("C14", "R14.12", "generate_commit_graph"), ("C16", "R16.12", "pack_refs"), ("C14", "R14.13", "pack_refs"), ("C13", "R13.10", "independent"),
    ("C13", "R13.11", "update_shallow"), ("C08", "R08.9", "locked_ref.__exit__"), ("C04", "R04.3", "_complete_pack"),
    ("C16", "R16.13", "set_symbolic_ref"), ("C16", "R16.13", "set_if_equals"), ("C16", "R16.13", "add_if_new"),
    ("C19", "R19.11", "_parse_pkt_line_length"), ("C19", "R19.11", "extract_capabilities"), ("C19", "R19.11", "_handle_receive_pack_tail"),
    ("C20", "R20.10", "has_section"), ("C20", "R20.10", "_parse_string"), ("C13", "R13.12", "find_octopus_base"), ("C13", "R13.12", "Walker.__init__"),
    ("C13", "R13.12", "Walker._next"), ("C14", "R14.14", "_get_pack_info"), ("C16", "R16.14", "add_if_new"), ("C11", "R11.8", "write_cache_time"),
    ("C11", "R11.8", "read_index_dict_with_version"), ("C04", "R04.14", "_decompress"), ("C10", "R10.12", "PackBasedObjectStore.__iter__"),
    ("C06", "R06.9", "_apply_pack"), ("C06", "R06.9", "LocalGitClient.send_pack"), ("C07", "R07.5", "locked_index.__enter__"), ("C07", "R07.5", "locked_index.__exit__"),
    ("C01", "R01.9", "author_timezone"), ("C17", "R17.11", "_remove_empty_parents"), ("C17", "R17.11", "_checked_worktree_path"), ("C17", "R17.11", "submodule_update"),
    ("C02", "R02.9", "_walk_ref_chains"), ("C02", "R02.9", "pack_objects_to_data"), ("C03", "R03.6", "_resolve_object"), ("C15", "R15.4", "parse_tree"),
    ("C17", "R17.10", "apply_patches"), ("C17", "R17.10", "_apply_rename_or_copy"), ("C17", "R17.10", "apply_included_paths"),
    ("C14", "R14.6", "_combine_commit_bitmaps"), ("C14", "R14.6", "GraphTraversalReachability.get_reachable_objects"),
    ("C13", "R13.3", "_find_lcas"), ("C20", "R20.5", "_escape_value"), ("C06", "R06.5", "DiskRefsContainer.set_if_equals"),
    ("C09", "R09.11", "BaseRepo.fetch"), ("C09", "R09.12", "Stash.push"),
    ("C07", "R07.6", "_compact_tables_list"), ("C07", "R07.6", "_flush_pending_updates"), ("C16", "R16.16", "_encode_reftable_suffix_and_type"), ("C16", "R16.16", "_decode_reftable_suffix_and_type"), ("C11", "R11.9", "Index.read"), ("C10", "R10.13", "find_reachable_objects"), ("C10", "R10.14", "garbage_collect"), ("C04", "R04.4", "Bundle.store_objects"), ("C05", "R05.8", "_handle_upload_pack_tail"), ("C05", "R05.9", "find_missing_objects"),
    ("C16", "R16.15", "DiskRefsContainer.add_if_new"), ("C16", "R16.15", "DiskRefsContainer.set_if_equals"), ("C16", "R16.15", "DiskRefsContainer.set_symbolic_ref"),
]


def _violations(prop: str, overrides: dict | None, root: str | None = None, include_known: bool = False):
    """Run the rule module of `prop`; returns (set of (rule, func, key), error or None)."""
    from sa.load import Program, AnalysisError
    from sa.report import Report
    mod = importlib.import_module(f"rules.{prop.lower()}")
    rep = Report(prop, "thorough", 0, quiet=True)
    try:
        prog = Program(root=root, overrides=overrides or {})
        mod.run(prog, rep, "quick")
    except AnalysisError as e:
        return None, f"AnalysisError: {e}"
    except Exception as e:  # a crash of the checker on a variant is a self-test failure too
        return None, f"{type(e).__name__}: {e}"
    viol, known = rep.classify()
    if include_known:
        viol = list(viol) + [o for o, _ in known]
    return {(o.rule, o.func, o.key) for o in viol}, None


def _run_variant(v):
    from sa.load import REPO
    path = os.path.join(REPO, v["file"])
    try:
        src = open(path, encoding="utf-8").read()
    except OSError:
        return v["id"], "skipped", "file missing"
    if src.count(v["old"]) != 1:
        return v["id"], "skipped", f"edit site occurs {src.count(v['old'])} times"
    new_src = src.replace(v["old"], v["new"])
    if v["file"].endswith(".py"):
        try:
            compile(new_src, v["file"], "exec")
        except SyntaxError as e:
            return v["id"], "broken-variant", f"does not compile: {e}"
    base, err0 = _violations(v["prop"], None)
    if err0:
        return v["id"], "error", "baseline: " + err0
    got, err = _violations(v["prop"], {v["file"]: new_src})
    if v["kind"] == "breaking":
        if err:
            return v["id"], "fail", f"checker could not analyse the variant ({err}) instead of reporting {v['expect']}"
        new = got - base
        hit = [x for x in new if x[0].startswith(v["expect"])]
        if hit:
            return v["id"], "ok", f"reported {hit[0][0]} at {hit[0][1]}"
        return v["id"], "fail", f"expected a new {v['expect']} violation, new violations: {sorted(new)[:3]}"
    else:
        if err:
            return v["id"], "fail", f"neutral variant made the checker fail: {err}"
        new = got - base
        if new:
            return v["id"], "fail", f"false alarm on a behaviour-preserving rewrite: {sorted(new)[:3]}"
        return v["id"], "ok", "silent"


def apply_unified_diff(files: dict, diff_text: str):
    """Apply a unified diff (git format, text files) to {relative path: source}; returns {path: new source} for the files
    it touches or None when a hunk does not match the current text exactly."""
    out = {}
    cur = None
    lines = diff_text.splitlines(keepends=True)
    i = 0
    hunks = {}
    while i < len(lines):
        ln = lines[i]
        if ln.startswith("+++ "):
            path = ln[4:].strip()
            cur = path[2:] if path.startswith("b/") else path
            hunks[cur] = []
        elif ln.startswith("@@") and cur is not None:
            import re
            m_ = re.match(r"@@ -(\d+)(?:,(\d+))? \+(\d+)(?:,(\d+))? @@", ln)
            old_start = int(m_.group(1))
            body = []
            i += 1
            while i < len(lines) and not lines[i].startswith(("@@", "diff --git", "--- ", "+++ ")):
                if lines[i].startswith("\\"):
                    i += 1
                    continue
                body.append(lines[i])
                i += 1
            hunks[cur].append((old_start, body))
            continue
        i += 1
    for path, hs in hunks.items():
        src = files(path)
        if src is None:
            return None
        sl = src.splitlines(keepends=True)
        res, pos = [], 0
        for old_start, body in hs:
            want_old = [b[1:] for b in body if b[:1] in (" ", "-")]
            new = [b[1:] for b in body if b[:1] in (" ", "+")]
            # locate the old block at its line number, or search nearby (the tree may have drifted by a few lines)
            cand = [old_start - 1] + [old_start - 1 + d for k in range(1, 200) for d in (k, -k)]
            at = next((c for c in cand if c >= pos and sl[c:c + len(want_old)] == want_old), None)
            if at is None:
                return None
            res.extend(sl[pos:at])
            res.extend(new)
            pos = at + len(want_old)
        res.extend(sl[pos:])
        out[path] = "".join(res)
    return out


def _seed_variants(prop=None):
    """Seeded changes (seeded/<id>/patch.diff) as breaking variants, applied in memory."""
    out = []
    sd = os.path.join(VERIF, "seeded")
    for sid in sorted(os.listdir(sd)) if os.path.isdir(sd) else []:
        mp = os.path.join(sd, sid, "meta.json")
        pp = os.path.join(sd, sid, "patch.diff")
        if not (os.path.isfile(mp) and os.path.isfile(pp)):
            continue
        meta = json.load(open(mp))
        if prop is not None and meta.get("property") != prop:
            continue
        out.append(dict(id=sid, prop=meta["property"], kind="seeded", patch=pp))
    return out


def _neutral_patch_variants(prop=None):
    """Behaviour-preserving refactorings written by sub-agents (seeded-neutral/<id>/patch.diff): EVERY property's check must
    stay silent on every one of them (a refactoring anchored in one property's code often touches another's)."""
    out = []
    sd = os.path.join(VERIF, "seeded-neutral")
    from selftest.neutral_sweep import PROPS
    for sid in sorted(os.listdir(sd)) if os.path.isdir(sd) else []:
        pp = os.path.join(sd, sid, "patch.diff")
        if not os.path.isfile(pp):
            continue
        for p_ in ([prop] if prop else PROPS):
            out.append(dict(id=f"{sid}/{p_}", prop=p_, kind="neutral-patch", patch=pp))
    return out


def _run_neutral_patch(v):
    from sa.load import REPO

    def files(rel):
        try:
            return open(os.path.join(REPO, rel), encoding="utf-8").read()
        except OSError:
            return None
    ov = apply_unified_diff(files, open(v["patch"], encoding="utf-8").read())
    if ov is None:
        return v["id"], "skipped", "patch does not apply to the current tree"
    base, err0 = _violations(v["prop"], None)
    if err0:
        return v["id"], "error", "baseline: " + err0
    got, err = _violations(v["prop"], ov)
    if err:
        return v["id"], "fail", f"behaviour-preserving refactoring made the checker fail: {err}"
    new = sorted(got - base)
    if new:
        return v["id"], "fail", f"false alarm on a behaviour-preserving refactoring: {new[:2]}"
    return v["id"], "ok", "silent"


def _run_seed(v):
    from sa.load import REPO

    def files(rel):
        try:
            return open(os.path.join(REPO, rel), encoding="utf-8").read()
        except OSError:
            return None
    ov = apply_unified_diff(files, open(v["patch"], encoding="utf-8").read())
    if ov is None:
        return v["id"], "skipped", "patch does not apply to the current tree"
    for rel, src in ov.items():
        if rel.endswith(".py"):
            try:
                compile(src, rel, "exec")
            except SyntaxError as e:
                return v["id"], "broken-variant", f"does not compile: {e}"
    base, err0 = _violations(v["prop"], None)
    if err0:
        return v["id"], "error", "baseline: " + err0
    got, err = _violations(v["prop"], ov)
    if err:
        return v["id"], "fail", f"checker could not analyse the seeded change ({err})"
    new = sorted(got - base)
    if new:
        return v["id"], "ok", f"reported {new[0][0]} at {new[0][1]}"
    return v["id"], "fail", f"seeded change of {v['prop']} is not reported by the {v['prop']} check"


def _orig_tree():
    """A checkout of the pinned original commit in a temp dir (removed by the caller)."""
    from sa.load import REPO
    d = tempfile.mkdtemp(prefix="verif-orig-")
    r = subprocess.run(["git", "-C", REPO, "archive", ORIG_COMMIT, "dulwich", "crates"], capture_output=True)
    if r.returncode != 0:
        return None, r.stderr.decode()[:200]
    subprocess.run(["tar", "-x", "-C", d], input=r.stdout, check=True)
    return d, None


def _run_orig(args):
    prop, root = args
    got, err = _violations(prop, None, root=root, include_known=True)
    return prop, got, err


def main():
    ap = argparse.ArgumentParser()
    ap.add_argument("--prop")
    ap.add_argument("--jobs", type=int, default=min(16, os.cpu_count() or 4))
    ap.add_argument("--orig", action="store_true", help="also check that the pinned original tree reproduces the documented defects")
    ap.add_argument("--json")
    ap.add_argument("--neutral", action="store_true", help="also run the six whole-package behaviour-preserving rewrites (neutral_sweep)")
    a = ap.parse_args()
    from selftest.variants import V
    vs = [v for v in V if a.prop is None or v["prop"] == a.prop]
    results = []
    with ProcessPoolExecutor(max_workers=a.jobs) as ex:
        for r in ex.map(_run_variant, vs):
            results.append(r)
    seeds = _seed_variants(a.prop)
    with ProcessPoolExecutor(max_workers=a.jobs) as ex:
        for r in ex.map(_run_seed, seeds):
            results.append(r)
    vs = vs + seeds
    npv = _neutral_patch_variants(a.prop)
    with ProcessPoolExecutor(max_workers=a.jobs) as ex:
        for r in ex.map(_run_neutral_patch, npv):
            results.append(r)
    vs = vs + npv
    bad = 0
    per_prop = {}
    for v, (vid, status, msg) in zip(vs, results):
        d = per_prop.setdefault(v["prop"], {"ran": 0, "skipped": 0, "ok": 0, "fail": 0, "total": 0})
        d["total"] += 1
        if status == "skipped":
            d["skipped"] += 1
        else:
            d["ran"] += 1
            if status == "ok":
                d["ok"] += 1
            else:
                d["fail"] += 1
                bad += 1
        print(f"  [{status:7}] {vid:8} {v['kind']:8} {msg}")
    for p, d in sorted(per_prop.items()):
        if d["total"] and d["ran"] < FLOOR * d["total"]:
            print(f"  [fail   ] {p}: only {d['ran']} of {d['total']} variants could be applied to the current tree (floor {FLOOR:.0%})")
            bad += 1
    orig_summary = None
    if a.orig:
        root, err = _orig_tree()
        if root is None:
            print(f"  [skipped] original tree not available: {err}")
        else:
            try:
                props = sorted({e[0] for e in ORIG_EXPECT if a.prop is None or e[0] == a.prop})
                with ProcessPoolExecutor(max_workers=a.jobs) as ex:
                    outs = list(ex.map(_run_orig, [(p, root) for p in props]))
                found = 0
                for prop, got, err in outs:
                    if err:
                        print(f"  [fail   ] orig {prop}: {err}")
                        bad += 1
                        continue
                    for e in [e for e in ORIG_EXPECT if e[0] == prop]:
                        hit = any(rule.startswith(e[1]) and e[2] in func for rule, func, key in got)
                        found += hit
                        if not hit:
                            bad += 1
                        print(f"  [{'ok' if hit else 'fail':7}] orig {prop} {e[1]} {e[2]}: {'reported on the pinned original tree' if hit else 'NOT reported on the pinned original tree'}")
                orig_summary = found
            finally:
                subprocess.run(["rm", "-rf", root])
    neutral_summary = None
    if a.neutral:
        from selftest import neutral_sweep
        kinds = ["unparse", "flip", "mirror", "augexp", "pad", "rename"]
        props = [a.prop] if a.prop else neutral_sweep.PROPS
        jobs = [(k, p) for k in kinds for p in props]
        silent = 0
        with ProcessPoolExecutor(max_workers=a.jobs) as ex:
            for kind, prop, st, info in ex.map(neutral_sweep._one, jobs):
                if st == "ok":
                    silent += 1
                else:
                    bad += 1
                    print(f"  [fail   ] neutral {kind} {prop}: {st} {json.dumps(info)[:300] if not isinstance(info, str) else info[:300]}")
        print(f"  [{'ok' if silent == len(jobs) else 'fail':7}] neutral rewrites: {silent}/{len(jobs)} silent")
        neutral_summary = {"runs": len(jobs), "silent": silent}
    summary = {"variants": len(vs), "per_property": per_prop, "failures": bad, "orig_defects_reproduced": orig_summary,
               "neutral_rewrites": neutral_summary}
    print("SELFTEST", json.dumps(summary))
    if a.json:
        with open(a.json, "w") as f:
            json.dump({"summary": summary, "results": [dict(id=r[0], status=r[1], msg=r[2]) for r in results]}, f, indent=1)
    sys.exit(3 if bad else 0)


if __name__ == "__main__":
    main()
