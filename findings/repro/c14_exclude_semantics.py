"""C14: get_reachable_commits(heads, exclude) means two different things with and without bitmaps.

Both providers document "commits reachable from heads but not from exclude".  The bitmap provider computes exactly
that (OR of the heads' bitmaps minus OR of the excluded commits' bitmaps).  The graph-traversal provider used the
excluded commits only as a STOP set: an ancestor of an excluded commit that is also reachable around it (through the
other parent of a merge) stayed in the answer.  History: R <- A, R <- B, M = merge(A, B); heads=[M], exclude=[A].
Expected {M, B}; R is reachable from A.  Exit 1 when the graph-traversal answer contains R."""
import sys
from dulwich.object_store import MemoryObjectStore, GraphTraversalReachability
from dulwich.objects import Tree, Commit

s = MemoryObjectStore()
t = Tree(); s.add_object(t)
def commit(msg, parents, when):
    c = Commit(); c.tree = t.id; c.parents = parents; c.author = c.committer = b"a <a@b>"
    c.author_time = c.commit_time = when; c.author_timezone = c.commit_timezone = 0; c.message = msg
    s.add_object(c); return c.id
R = commit(b"R", [], 1); A = commit(b"A", [R], 2); B = commit(b"B", [R], 3); M = commit(b"M", [A, B], 4)
got = GraphTraversalReachability(s).get_reachable_commits([M], exclude=[A])
names = {R: "R", A: "A", B: "B", M: "M"}
print("graph traversal:", sorted(names[x] for x in got), " documented / bitmap answer: ['B', 'M']")
sys.exit(1 if got != {M, B} else 0)
