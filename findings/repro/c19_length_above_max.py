#!/usr/bin/env python
"""C19 / h1: length prefixes fff1..ffff are decoded as frames that the library
cannot re-frame; Protocol.eof() and negotiate_protocol_version() answer them
with a ValueError, which is neither a frame nor a protocol error.

Run:  cd /repo && PYTHONPATH=/repo /venv/bin/python /repo-out/h1/demo.py
Exit 1 = violation observed, exit 0 = every prefix gave a frame or a protocol error.
"""

import sys
from io import BytesIO

import dulwich

pass  # run against the installed dulwich (/repo)

from dulwich.client import negotiate_protocol_version
from dulwich.errors import GitProtocolError, HangupException
from dulwich.protocol import Protocol

PROTOCOL_ERRORS = (GitProtocolError, HangupException)
TAIL = b"0009tail\n0000"


def stream_for(prefix_value: int) -> tuple[bytes, bytes]:
    prefix = b"%04x" % prefix_value
    payload = b"x" * (prefix_value - 4)
    return prefix + payload + TAIL, payload


def via_eof(stream: bytes) -> list:
    """What a server does in stateless-rpc mode: peek with eof(), then read."""
    proto = Protocol(BytesIO(stream).read, lambda data: None)
    assert proto.eof() is False
    return [proto.read_pkt_line(), proto.read_pkt_line(), proto.read_pkt_line()]


def via_negotiate(stream: bytes) -> list:
    """What every client does with the first packet a server sends."""
    proto = Protocol(BytesIO(stream).read, lambda data: None)
    assert negotiate_protocol_version(proto) == 0
    return [proto.read_pkt_line(), proto.read_pkt_line(), proto.read_pkt_line()]


def main() -> int:
    failures = []
    # 0xfff0 is the largest frame the encoder produces (65516 payload bytes);
    # it is included as the control that must, and does, work.
    for value in range(0xFFF0, 0x10000):
        stream, payload = stream_for(value)
        # Plain decoding, for reference.
        try:
            plain = Protocol(BytesIO(stream).read, None).read_pkt_line()
            plain_desc = f"frame of {len(plain)} bytes"
        except PROTOCOL_ERRORS as exc:
            plain_desc = f"protocol error ({exc})"
        for name, fn in (("eof()", via_eof), ("negotiate_protocol_version()", via_negotiate)):
            try:
                got = fn(stream)
            except PROTOCOL_ERRORS:
                continue  # refused as a protocol error: allowed by the property
            except Exception as exc:  # anything else is the violation
                failures.append(
                    f"prefix {value:04x}: read_pkt_line -> {plain_desc}; "
                    f"{name} -> {type(exc).__name__}: {exc}"
                )
                continue
            if got != [payload, b"tail\n", None]:
                failures.append(
                    f"prefix {value:04x}: {name} then read gave "
                    f"{[None if g is None else len(g) for g in got]}"
                )
    if failures:
        print("VIOLATION: a 4-hex-digit length prefix produced neither a frame nor a protocol error")
        for line in failures:
            print("  " + line)
        print(f"{len(failures)} failing (prefix, entry point) combinations")
        return 1
    print("ok: every prefix in fff0..ffff gave a frame or a protocol error")
    return 0


if __name__ == "__main__":
    sys.exit(main())
