#!/usr/bin/env python
"""C17 / h2: a checkout that empties the work tree removes the work tree root
and its (empty) ancestor directories when the work tree path is spelled with a
trailing slash (GIT_WORK_TREE=/srv/deploy/www/site/ , Repo(worktree=".../site/"),
core.worktree = ../site/).

Run:  cd /repo && PYTHONPATH=/repo /venv/bin/python /repo-out/h2/demo.py

Layout (the classic "deploy" layout, control directory separate from the work tree):

    <base>/repos/site.git          GIT_DIR   (bare-style control directory)
    <base>/deploy/www/site/        GIT_WORK_TREE (note the trailing slash)

Trees:  T1 = { d/f }      T2 = { }  (everything removed)  and  T3 = { zz }

    reset --hard T1   -> site/d/f
    reset --hard T2   -> d/f is deleted; _remove_empty_parents() then climbs
                         site/d -> site -> www -> deploy ... and rmdir()s every
                         directory that has become empty.

Expected (property C17; C git keeps the work tree root and never looks above it):
<base>/deploy/www and <base>/deploy -- which are OUTSIDE the work tree -- and the
work tree root itself still exist afterwards.
Observed: all three are gone.

Exit status: 1 if a directory outside the work tree (or the root itself) was
deleted, 0 otherwise.
"""

import os
import shutil
import sys
import tempfile

import dulwich

pass  # run against the installed dulwich (/repo)

from dulwich import porcelain
from dulwich.objects import Blob, Commit, Tree
from dulwich.repo import Repo


def commit(store, tree_id, parents=()):
    c = Commit()
    c.tree = tree_id
    c.parents = list(parents)
    c.author = c.committer = b"A U Thor <author@example.invalid>"
    c.author_time = c.commit_time = 0
    c.author_timezone = c.commit_timezone = 0
    c.message = b"msg\n"
    store.add_object(c)
    return c.id


def scenario(base, target, label):
    """Return a list of complaints for one run."""
    gitdir = os.path.join(base, "repos", "site.git")
    os.makedirs(gitdir)
    Repo.init_bare(gitdir).close()
    www = os.path.join(base, "deploy", "www")
    wt = os.path.join(www, "site")
    os.makedirs(wt)
    os.chmod(wt, 0o2750)  # a deploy directory with its own permissions

    # The same thing `GIT_DIR=... GIT_WORK_TREE=.../site/ dulwich reset --hard`
    # does (porcelain._repo_from_env): explicit control dir + work tree.
    r = Repo(controldir=gitdir, worktree=wt + "/")
    try:
        assert not r.bare
        blob = Blob.from_string(b"hello\n")
        r.object_store.add_object(blob)
        sub = Tree()
        sub.add(b"f", 0o100644, blob.id)
        r.object_store.add_object(sub)
        t1 = Tree()
        t1.add(b"d", 0o040000, sub.id)
        r.object_store.add_object(t1)
        t2 = Tree()
        if target == "other-file":
            t2.add(b"zz", 0o100644, blob.id)
        r.object_store.add_object(t2)
        c1 = commit(r.object_store, t1.id)
        c2 = commit(r.object_store, t2.id, (c1,))
        r.refs[b"refs/heads/master"] = c1
        r.refs.set_symbolic_ref(b"HEAD", b"refs/heads/master")

        porcelain.reset(r, "hard", c1)
        assert os.path.isfile(os.path.join(wt, "d", "f"))
        ino_before = os.stat(wt).st_ino
        mode_before = oct(os.stat(wt).st_mode & 0o7777)

        # Watch what gets rmdir()ed, so that the report does not depend on
        # inode reuse when the root is re-created by a later add.
        removed = []
        real_rmdir = os.rmdir

        def spy_rmdir(p, *a, **kw):
            real_rmdir(p, *a, **kw)
            removed.append(os.fsdecode(p))

        os.rmdir = spy_rmdir
        try:
            porcelain.reset(r, "hard", c2)
        finally:
            os.rmdir = real_rmdir
    finally:
        r.close()

    problems = []
    inside = os.path.join(wt, "")
    for p in removed:
        if not os.path.normpath(p).startswith(inside):
            problems.append("%s: rmdir(%r) succeeded -- not inside the work tree %r" % (label, p, inside))
    for d in (os.path.join(base, "deploy"), www):
        if not os.path.isdir(d):
            problems.append("%s: directory outside the work tree is gone: %s" % (label, d))
    if not os.path.isdir(wt):
        problems.append("%s: the work tree root itself is gone: %s" % (label, wt))
    elif oct(os.stat(wt).st_mode & 0o7777) != mode_before:
        problems.append(
            "%s: work tree root was deleted and re-created: mode %s -> %s"
            % (label, mode_before, oct(os.stat(wt).st_mode & 0o7777))
        )
    return problems


def main():
    problems = []
    for target, label in (("empty", "T1 -> empty tree"), ("other-file", "T1 -> {zz}")):
        base = tempfile.mkdtemp(prefix="c17-h2-")
        try:
            problems += scenario(base, target, label)
        finally:
            shutil.rmtree(base, ignore_errors=True)
    if problems:
        print("VIOLATION: checkout deleted directories outside the work tree")
        for p in problems:
            print("  " + p)
        return 1
    print("ok: only directories inside the work tree were removed")
    return 0


if __name__ == "__main__":
    sys.exit(main())
