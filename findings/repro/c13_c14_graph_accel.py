import os, tempfile, shutil, sys, io
sys.path.insert(0,'/repo')
from dulwich.repo import Repo, MemoryRepo
from dulwich.objects import Blob, Tree, Commit
from dulwich import porcelain

def mkcommit(r, parents, t, msg=b"m", tree=None):
    if tree is None:
        tr = Tree(); r.object_store.add_object(tr); tree = tr.id
    c = Commit(); c.tree = tree; c.parents = parents
    c.author = c.committer = b"a <a@b>"; c.author_time = c.commit_time = t
    c.author_timezone = c.commit_timezone = 0; c.message = msg
    r.object_store.add_object(c); return c.id

# C13: can_fast_forward with clock skew
d = tempfile.mkdtemp(dir=os.environ.get('TMPDIR','/tmp'))
r = Repo.init(d)
from dulwich.graph import can_fast_forward, find_merge_base
c1 = mkcommit(r, [], 100, b"c1")
m = mkcommit(r, [c1], 50, b"m")
c2 = mkcommit(r, [m], 200, b"c2")
print("C13 can_fast_forward(c1,c2) truth True ->", can_fast_forward(r, c1, c2))
# negative timestamp ancestor
n0 = mkcommit(r, [], -5, b"n0")
a = mkcommit(r, [n0], 10, b"a"); b = mkcommit(r, [n0], 11, b"b")
print("C13 merge_base(a,b) truth [n0] ->", find_merge_base(r, [a,b]) == [n0], find_merge_base(r,[a,b]))

# C14: commit graph octopus
p1 = mkcommit(r, [], 1, b"p1"); p2 = mkcommit(r, [], 2, b"p2"); p3 = mkcommit(r, [], 3, b"p3")
o = mkcommit(r, [p1,p2,p3], 4, b"octo")
pp = r.parents_provider()
print("C14 parents without graph:", len(pp.get_parents(o)))
r.object_store.write_commit_graph([o])
r2 = Repo(d)
pp2 = r2.parents_provider()
print("C14 parents with graph:", len(pp2.get_parents(o)))
r2.close()

# C14: stale midx contains_packed
d2 = tempfile.mkdtemp(dir=os.environ.get('TMPDIR','/tmp'))
r = Repo.init(d2)
bl = Blob.from_string(b"unreachable blob"); 
keep = mkcommit(r, [], 5, b"keep")
r.refs[b"refs/heads/master"] = keep
r.object_store.add_object(bl)
r.object_store.pack_loose_objects()
r.object_store.write_midx()
r.close()
r = Repo(d2)
print("C14 before gc: in store", bl.id in r.object_store)
from dulwich.gc import garbage_collect
garbage_collect(r, grace_period=None)
r.close()
r = Repo(d2)
print("C14 after gc with midx: in store ->", bl.id in r.object_store)
try:
    r.object_store[bl.id]; print("  getitem ok")
except KeyError: print("  getitem KeyError (inconsistent)")
os.remove(os.path.join(d2, ".git/objects/pack/multi-pack-index"))
r.close(); r = Repo(d2)
print("C14 after gc without midx: in store ->", bl.id in r.object_store)
r.close()
