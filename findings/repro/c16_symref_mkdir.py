"""C16: DiskRefsContainer.set_symbolic_ref fails for a name whose directory does not exist yet.

The unconditional writers set_if_equals / add_if_new create the parent directories of the ref file first
(ensure_dir_exists); set_symbolic_ref did not: refs/remotes/origin/HEAD in a repository that has no refs/remotes/origin/
directory yet raised FileNotFoundError, the in-memory backend accepts it ("unconditional writes always take effect").
Exit 1 when the symbolic ref cannot be created."""
import os, sys, tempfile, shutil
from dulwich.repo import Repo
d = tempfile.mkdtemp()
r = Repo.init_bare(d)
rc = 0
try:
    r.refs.set_symbolic_ref(b"refs/remotes/origin/HEAD", b"refs/remotes/origin/master")
    print("created:", r.refs.read_ref(b"refs/remotes/origin/HEAD"))
except Exception as e:  # noqa: BLE001
    print("raised:", type(e).__name__, e); rc = 1
r.close(); shutil.rmtree(d); sys.exit(rc)
