#!/usr/bin/env python
"""C15 / h1: parse_tree -- the pure-Python mode parser (int(text, 8)) is more
lenient than the Rust one (u32::from_str_radix).

A tree payload whose mode field is "-100644", "1_00644", "\\t100644",
"100644\\n", "0o100644" or "40000000000" (2**32) is PARSED by the pure-Python
parse_tree and REJECTED by the Rust parse_tree.  The same loose tree object in
a repository can therefore be listed / walked with the fallback and raises
ObjectFormatException once the extension is enabled.

The script runs the same probe twice in child processes: once with the Rust
extensions blocked (pure Python) and once with them enabled, and compares the
outcomes key by key.  Exit 0: all outcomes equal.  Exit 1: a divergence.
Exit 2: the environment cannot run the comparison (extension not built).
"""

import hashlib
import json
import os
import shutil
import subprocess
import sys
import tempfile
import zlib

ROOT = os.environ.get("DULWICH_ROOT", "/repo")

CHILD = r"""
import json, sys
which, root, repo_path, tree_ids = sys.argv[1], sys.argv[2], sys.argv[3], json.loads(sys.argv[4])
if which == "pure":
    for m in ("dulwich._objects", "dulwich._pack", "dulwich._diff_tree"):
        sys.modules[m] = None          # import of the extension fails -> fallback
import dulwich
assert dulwich.__file__.startswith(root), dulwich.__file__
import dulwich.objects as O
is_builtin = type(O.parse_tree).__name__ == "builtin_function_or_method"
if (which == "rust") != is_builtin:
    print(json.dumps({"__env__": "wanted %s but parse_tree is %r" % (which, O.parse_tree)}))
    sys.exit(0)

def outcome(fn):
    try:
        return ["ok", fn()]
    except Exception as e:            # "failure" in the sense of the property
        return ["fail"]
    except BaseException as e:        # pyo3 PanicException and the like
        return ["fail"]

SHA = bytes(range(1, 21))
MODES = {
    # controls: both implementations must (and do) agree on these
    "ctl 100644": b"100644", "ctl 0100644": b"0100644", "ctl empty": b"",
    "ctl 8 is no octal digit": b"100648", "ctl 37777777777 (2**32-1)": b"37777777777",
    # the leniency of int(text, 8)
    "minus sign": b"-100644", "minus zero": b"-0", "underscore": b"1_00644",
    "leading tab": b"\t100644", "trailing newline": b"100644\n",
    "0o prefix": b"0o100644", "2**32": b"40000000000",
}
res = {}
for label, mode in MODES.items():
    payload = mode + b" name\0" + SHA
    for strict in (False, True):
        def call(payload=payload, strict=strict):
            return [[n.hex(), m, s.decode()] for n, m, s in O.parse_tree(payload, 20, strict=strict)]
        res["parse_tree(%s, strict=%s)" % (label, strict)] = outcome(call)

# repository level: the same loose tree objects read through Repo
from dulwich.repo import Repo
r = Repo(repo_path)
try:
    for label, tid in tree_ids.items():
        res["repo[%s].items()" % label] = outcome(
            lambda: [[e.path.decode(), e.mode, e.sha.decode()] for e in r[tid.encode()].items()])
        res["iter_tree_contents(%s)" % label] = outcome(
            lambda: [[e.path.decode(), e.mode, e.sha.decode()]
                     for e in r.object_store.iter_tree_contents(tid.encode())])
finally:
    r.close()
print(json.dumps(res))
"""


def write_loose(repo, kind, raw):
    data = kind + b" %d\0" % len(raw) + raw
    sha = hashlib.sha1(data).hexdigest()
    d = os.path.join(repo, "objects", sha[:2])
    os.makedirs(d, exist_ok=True)
    with open(os.path.join(d, sha[2:]), "wb") as f:
        f.write(zlib.compress(data))
    return sha


def make_repo(path):
    # a minimal bare repository, written by hand so that the set-up does not
    # depend on either implementation
    for d in ("objects", "refs/heads", "refs/tags"):
        os.makedirs(os.path.join(path, d))
    with open(os.path.join(path, "HEAD"), "w") as f:
        f.write("ref: refs/heads/master\n")
    with open(os.path.join(path, "config"), "w") as f:
        f.write("[core]\n\trepositoryformatversion = 0\n\tfilemode = true\n\tbare = true\n")
    blob = write_loose(path, b"blob", b"content\n")
    trees = {}
    for label, mode in (("ctl", b"100644"), ("underscore", b"1_00644"),
                        ("tab", b"\t100644"), ("0o", b"0o100644")):
        trees[label] = write_loose(path, b"tree", mode + b" file\0" + bytes.fromhex(blob))
    return trees


def run(which, repo, trees):
    env = dict(os.environ, PYTHONPATH=ROOT)
    p = subprocess.run([sys.executable, "-c", CHILD, which, ROOT, repo, json.dumps(trees)],
                       cwd=ROOT, env=env, capture_output=True, text=True)
    if p.returncode != 0:
        print("child (%s) crashed: rc=%s\n%s" % (which, p.returncode, p.stderr[-2000:]))
        sys.exit(2)
    return json.loads(p.stdout.strip().splitlines()[-1])


def main():
    tmp = tempfile.mkdtemp(prefix="c15-h1-")
    try:
        repo = os.path.join(tmp, "repo.git")
        trees = make_repo(repo)
        pure = run("pure", repo, trees)
        rust = run("rust", repo, trees)
    finally:
        shutil.rmtree(tmp, ignore_errors=True)
    for r in (pure, rust):
        if "__env__" in r:
            print("cannot compare:", r["__env__"])
            return 2
    bad = [k for k in pure if pure[k] != rust.get(k)]
    for k in pure:
        flag = "DIFFERENT" if k in bad else "same"
        print("%-9s %-45s pure=%s  rust=%s" % (flag, k, pure[k], rust.get(k)))
    if bad:
        print("\nVIOLATION of C15: %d of %d probes give a different observable result with the "
              "Rust extension than with the pure-Python fallback (the fallback accepts mode "
              "spellings that the extension rejects)." % (len(bad), len(pure)))
        return 1
    print("\nall %d probes agree" % len(pure))
    return 0


if __name__ == "__main__":
    sys.exit(main())
