#!/usr/bin/env python
"""C19 / h3: a pkt-line stream that is cut inside a frame is silently accepted when it travels
inside side-band channel 1 (the report-status of a push).

The client demultiplexes channel 1 into a PktLineParser (client.py, _handle_receive_pack_tail) and never
looks at what the parser still holds when the side-band stream ends.  A report that stops in the middle of
a pkt-line therefore yields neither that frame nor a protocol error: send_pack() returns normally and the
refs whose status line was cut off (here a rejection, "ng refs/heads/b locked") are simply missing from
the result, i.e. the push looks successful.

Run:  cd /repo && PYTHONPATH=/repo /venv/bin/python /repo-out/h3/demo.py
Exit 1 = violation observed, exit 0 = every truncated report was answered with a protocol error.
"""

import sys
from io import BytesIO

import dulwich

pass  # run against the installed dulwich (/repo)

from dulwich.client import SendPackError, TraditionalGitClient
from dulwich.errors import GitProtocolError, HangupException
from dulwich.protocol import ZERO_SHA, Protocol, pkt_line

SHA = b"1" * 40
ADVERTISEMENT = (
    pkt_line(SHA + b" refs/heads/a\x00report-status delete-refs side-band-64k\n")
    + pkt_line(SHA + b" refs/heads/b\n")
    + pkt_line(None)
)
# The complete status report of the server (inner pkt-line stream, sent on channel 1).
FRAMES = [b"unpack ok\n", b"ok refs/heads/a\n", b"ng refs/heads/b locked\n", None]
REPORT = b"".join(pkt_line(f) for f in FRAMES)
BOUNDARIES = set()
_pos = 0
for _f in FRAMES:
    BOUNDARIES.add(_pos)
    _pos += len(pkt_line(_f))
BOUNDARIES.add(_pos)


class CannedClient(TraditionalGitClient):
    """A client whose 'connection' replays a fixed server byte stream."""

    def __init__(self, server_bytes: bytes) -> None:
        super().__init__()
        self._server_bytes = server_bytes
        self.sent = BytesIO()

    def _connect(self, cmd, path, protocol_version=None):
        self.protocol_version = 0
        proto = Protocol(BytesIO(self._server_bytes).read, self.sent.write)
        return proto, (lambda: False), None


def sideband(chunks: list[bytes]) -> bytes:
    return b"".join(pkt_line(b"\x01" + c) for c in chunks if c) + pkt_line(None)


def push(inner_chunks: list[bytes]):
    client = CannedClient(ADVERTISEMENT + sideband(inner_chunks))
    return client.send_pack(
        b"/repo",
        lambda refs: {b"refs/heads/a": ZERO_SHA, b"refs/heads/b": ZERO_SHA},
        lambda have, want, **kw: (0, iter([])),
    )


def main() -> int:
    # Control: the complete report, split at every position over two side-band packets, decodes to the
    # same result (the chunking half of the property holds here).
    expected = {b"refs/heads/a": None, b"refs/heads/b": "locked"}
    for split in range(len(REPORT) + 1):
        got = push([REPORT[:split], REPORT[split:]]).ref_status
        if got != expected:
            print(f"unexpected: complete report split at {split} gave {got!r}")
            return 1

    # The report cut inside a frame (every cut position that is not a frame boundary).
    silent = []
    for cut in range(1, len(REPORT)):
        if cut in BOUNDARIES:
            continue
        try:
            result = push([REPORT[:cut]])
        except (GitProtocolError, HangupException, SendPackError):
            continue  # a protocol error: what the property asks for
        except Exception as exc:  # noqa: BLE001
            silent.append((cut, f"{type(exc).__name__}: {exc}"))
            continue
        silent.append((cut, f"send_pack returned ref_status={result.ref_status!r}"))

    if silent:
        print(
            "VIOLATION: a status report cut inside a pkt-line gave neither the frame nor a protocol error"
        )
        print(f"  complete report ({len(REPORT)} bytes) -> ref_status={expected!r}")
        shown = {}
        for cut, what in silent:
            shown.setdefault(what, []).append(cut)
        for what, cuts in shown.items():
            print(f"  cut after {cuts[0]}..{cuts[-1]} bytes ({len(cuts)} positions): {what}")
        worst = [c for c, w in silent if "refs/heads/a" in w and "refs/heads/b" not in w]
        if worst:
            print(
                f"  e.g. cut after {worst[0]} bytes, tail {REPORT[:worst[0]][-12:]!r}: the rejection of "
                "refs/heads/b is lost and the push is reported as successful"
            )
        print(f"{len(silent)} of {len(REPORT) - 1 - (len(BOUNDARIES) - 2)} truncation points accepted silently")
        return 1
    print("ok: every truncated report raised a protocol error")
    return 0


if __name__ == "__main__":
    sys.exit(main())
