#!/usr/bin/env python
"""C07 / h2 -- dulwich.index.locked_index keeps index.lock when the update fails.

locked_index is the sibling of Index.write() (whose error path was repaired earlier): it takes
index.lock in __enter__ and writes + commits in __exit__.  Two failure points leave the lock held
when the exception reaches the caller, who has no handle to release it:

 S1  the write of the SHA-1 trailer fails (here: a real EFBIG from RLIMIT_FSIZE, i.e. the same
     thing ENOSPC does): `f.close()` sits in the `else:` branch of __exit__, outside the
     try/except that aborts.
 S2  reading the existing index fails in __enter__ (corrupt / truncated index): the lock was
     taken one line earlier and is never released (__exit__ is not called when __enter__ raises).

Property: "a write that fails or is aborted leaves the old content in place and the lock
released".  The check is made where a caller would make it: in the `except` block that handles
the failure (e.g. to retry or to fall back to Index.write()).

exit 1 = violation observed, exit 0 = behaves as the property says.
"""

import io
import os
import resource
import shutil
import signal
import sys
import tempfile
import warnings

import dulwich

pass  # run against the installed dulwich (/repo)

from dulwich.file import FileLocked, GitFile
from dulwich.index import Index, IndexEntry, locked_index, write_index_dict

warnings.simplefilter("ignore", ResourceWarning)
problems = []


def ent(i):
    return IndexEntry(
        ctime=(0, 0), mtime=(0, 0), dev=0, ino=0, mode=0o100644, uid=0, gid=0,
        size=0, sha=b"%040x" % i, flags=0, extended_flags=0,
    )


def try_lock(path):
    """What any other writer (or a retry by the same caller) experiences."""
    try:
        GitFile(path, "wb").abort()
        return "free"
    except FileLocked:
        return "LOCKED"


def s1(tmp):
    path = os.path.join(tmp, "index")
    idx = Index(path)
    idx[b"old"] = ent(1)
    idx.write()
    with open(path, "rb") as f:
        old = f.read()

    # Size the new index so that everything before the 20-byte trailer fits the lock file's
    # write buffer and the trailer is the write that has to hit the disk first.
    probe = GitFile(os.path.join(tmp, "probe"), "wb")
    bufsize = os.fstat(probe.fileno()).st_blksize
    probe.abort()
    if bufsize <= 0 or bufsize > 1 << 20:
        bufsize = io.DEFAULT_BUFFER_SIZE
    new_entries = {b"old": ent(1)}
    i = 0

    def body_size(entries):
        b = io.BytesIO()
        write_index_dict(b, entries)
        return len(b.getvalue())

    target = bufsize - 4  # body sizes are 12 + multiples of 8
    while body_size(new_entries) + 72 + 72 <= target:
        new_entries[b"g%04d" % i] = ent(i)
        i += 1
    # one entry with a longer name fills the remaining gap exactly (entries are padded to 8 bytes)
    for ln in range(1, 200):
        trial = dict(new_entries)
        trial[b"h" + b"x" * ln] = ent(9999)
        if body_size(trial) == target:
            new_entries = trial
            break
    n = body_size(new_entries)
    assert bufsize - 20 < n <= bufsize, (n, bufsize)

    signal.signal(signal.SIGXFSZ, signal.SIG_IGN)
    soft, hard = resource.getrlimit(resource.RLIMIT_FSIZE)
    state_in_handler = None
    raised = None
    try:
        try:
            with locked_index(path) as li:
                for k, v in new_entries.items():
                    li[k] = v
                # "disk full" from now on: no file may grow beyond 1 byte
                resource.setrlimit(resource.RLIMIT_FSIZE, (1, hard))
        except OSError as e:
            resource.setrlimit(resource.RLIMIT_FSIZE, (soft, hard))
            raised = e
            import traceback

            where = traceback.extract_tb(e.__traceback__)
            print("S1: raised in:", " -> ".join(f"{fr.name}:{fr.lineno}" for fr in where[1:]))
            del where
            # the caller's handler: is the lock free again, can I retry?
            state_in_handler = (os.path.exists(path + ".lock"), try_lock(path))
    finally:
        resource.setrlimit(resource.RLIMIT_FSIZE, (soft, hard))
    with open(path, "rb") as f:
        same = f.read() == old
    print(f"S1: body {n} bytes, buffer {bufsize}; update raised: {raised!r}")
    print("S1: old index content still in place:", same)
    print("S1: in the caller's except block: index.lock exists =", state_in_handler and state_in_handler[0],
          "; another open-for-write ->", state_in_handler and state_in_handler[1])
    if raised is None:
        print("S1: RLIMIT_FSIZE did not produce a fault here; injecting ENOSPC at the trailer write instead")
        return s1_injected(tmp)
    elif not same:
        problems.append("S1: failed update changed the index")
    elif state_in_handler[1] != "free":
        problems.append(
            "S1: the update failed (%s) and was reported to the caller, but index.lock is still held: "
            "a retry / any other writer gets FileLocked" % (raised,)
        )
    # drop leftovers so that S2 starts clean
    raised = None


def s1_injected(tmp):
    """Fallback for S1: make the write of the 20-byte trailer raise ENOSPC."""
    import errno

    import dulwich.file as file_mod

    path = os.path.join(tmp, "index1b")
    idx = Index(path)
    idx[b"old"] = ent(1)
    idx.write()
    with open(path, "rb") as f:
        old = f.read()
    real_write = file_mod._GitFile.write

    def write(self, data):
        if len(data) == 20 and self._filename == path:
            raise OSError(errno.ENOSPC, "No space left on device (injected)")
        return real_write(self, data)

    file_mod._GitFile.write = write
    state_in_handler = None
    raised = None
    try:
        try:
            with locked_index(path) as li:
                li[b"new"] = ent(2)
        except OSError as e:
            raised = e
            state_in_handler = (os.path.exists(path + ".lock"), try_lock(path))
    finally:
        file_mod._GitFile.write = real_write
    with open(path, "rb") as f:
        same = f.read() == old
    print(f"S1b: update raised {raised!r}; old content in place: {same}; lock in handler: {state_in_handler}")
    if raised is None:
        problems.append("S1b: injected fault was swallowed or not reached")
    elif not same:
        problems.append("S1b: failed update changed the index")
    elif state_in_handler[1] != "free":
        problems.append("S1b: trailer write failed, index.lock still held when the caller handles the error")


def s2(tmp):
    path = os.path.join(tmp, "index2")
    idx = Index(path)
    idx[b"old"] = ent(1)
    idx.write()
    with open(path, "rb") as f:
        good = f.read()
    with open(path, "wb") as f:  # a damaged index (cut short), e.g. after a disk problem
        f.write(good[: len(good) - 30])
    with open(path, "rb") as f:
        old = f.read()
    state_in_handler = None
    raised = None
    try:
        with locked_index(path) as li:
            li[b"new"] = ent(2)
    except Exception as e:  # noqa: BLE001
        raised = e
        state_in_handler = (os.path.exists(path + ".lock"), try_lock(path))
    with open(path, "rb") as f:
        same = f.read() == old
    print(f"S2: locked_index on a damaged index raised: {type(raised).__name__ if raised else None}")
    print("S2: in the caller's except block: index.lock exists =", state_in_handler and state_in_handler[0],
          "; another open-for-write ->", state_in_handler and state_in_handler[1])
    if raised is None:
        problems.append("S2: damaged index was not rejected -- scenario inconclusive")
    elif not same:
        problems.append("S2: failed update changed the index file")
    elif state_in_handler[1] != "free":
        problems.append(
            "S2: entering locked_index failed (%s) but index.lock stays behind: the user cannot even "
            "repair the index through the lock protocol until the object is garbage collected"
            % type(raised).__name__
        )


tmp = tempfile.mkdtemp(prefix="c07h2-")
try:
    for fn in (s1, s2):
        try:
            fn(tmp)
        except Exception as e:  # noqa: BLE001
            import traceback

            traceback.print_exc()
            problems.append(f"{fn.__name__}: unexpected {type(e).__name__}: {e}")
        print()
finally:
    import gc

    gc.collect()
    shutil.rmtree(tmp, ignore_errors=True)

if problems:
    print("VIOLATION of C07 (a failed write must leave the lock released):")
    for p in problems:
        print("  -", p)
    sys.exit(1)
print("OK: failed locked_index updates leave the old index in place and index.lock released")
sys.exit(0)
