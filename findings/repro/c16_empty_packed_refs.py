#!/usr/bin/env python
"""C16 / h1: tag -> pack_refs() -> delete the tag leaves an EMPTY packed-refs file,
and DiskRefsContainer.get_packed_refs() raises StopIteration on an empty file.

After the three ordinary operations

    refs[b"refs/tags/t"] = A
    refs.pack_refs()
    del refs[b"refs/tags/t"]

every operation that consults packed-refs (as_dict, keys, looking up a missing ref,
`in`, set_if_equals, add_if_new, pack_refs ...) dies with StopIteration, also in a
freshly opened container / process.  A simple map model (and C git, looking at the
very same directory) says: refs/heads/m is still there, refs/tags/t is gone, and
further writes work.

Exit status 1 = violation observed, 0 = behaves as the property says.
"""

import os
import shutil
import subprocess
import sys
import tempfile

import dulwich

pass  # run against the installed dulwich (/repo)

from dulwich.refs import DictRefsContainer, DiskRefsContainer

ENV = dict(
    os.environ,
    GIT_AUTHOR_NAME="a",
    GIT_AUTHOR_EMAIL="a@b",
    GIT_COMMITTER_NAME="a",
    GIT_COMMITTER_EMAIL="a@b",
    GIT_CONFIG_NOSYSTEM="1",
    GIT_AUTHOR_DATE="1700000000 +0000",
    GIT_COMMITTER_DATE="1700000000 +0000",
)


def git(d, *args):
    return subprocess.run(
        ["git", "-C", d, *args], capture_output=True, env=ENV, check=False
    )


def make_repo():
    d = tempfile.mkdtemp(prefix="c16h1-")
    subprocess.run(["git", "init", "-q", "--bare", d], check=True, env=ENV)
    tree = git(d, "hash-object", "-t", "tree", "-w", "/dev/null").stdout.strip().decode()
    a = git(d, "commit-tree", tree, "-m", "one").stdout.strip()
    b = git(d, "commit-tree", tree, "-p", a.decode(), "-m", "two").stdout.strip()
    assert len(a) == 40 and len(b) == 40
    return d, a, b


def git_view(d):
    out = git(d, "for-each-ref", "--format=%(refname) %(objectname)").stdout
    return dict(line.split(b" ") for line in out.splitlines())


def main():
    problems = []
    d, A, B = make_repo()
    try:
        disk = DiskRefsContainer(d)
        model = DictRefsContainer({})  # the in-memory backend doubles as the map model

        def both(fn):
            fn(model)
            fn(disk)

        both(lambda r: r.__setitem__(b"refs/heads/m", A))
        both(lambda r: r.__setitem__(b"refs/tags/t", A))
        disk.pack_refs()  # default: packs the tags only; must change nothing observable
        both(lambda r: r.__delitem__(b"refs/tags/t"))

        packed = os.path.join(d, "packed-refs")
        print(
            "packed-refs after the sequence: exists=%s size=%s"
            % (os.path.exists(packed), os.path.exists(packed) and os.path.getsize(packed))
        )

        expected = {k: v for k, v in model.as_dict().items()}
        print("map model / in-memory backend:", expected)
        print("C git (same directory)      :", git_view(d))
        if git_view(d) != expected:
            problems.append("C git disagrees with the model (unexpected)")

        # Observations through the container that did the work and through a fresh one
        for label, refs in (("same container", disk), ("re-opened", DiskRefsContainer(d))):

            def observe(what, fn, want):
                try:
                    got = fn()
                except BaseException as e:  # StopIteration is not an Exception subclass issue, but be safe
                    problems.append(
                        f"[{label}] {what}: raised {type(e).__name__}({e}) instead of {want!r}"
                    )
                    return
                if got != want:
                    problems.append(f"[{label}] {what}: got {got!r}, expected {want!r}")

            def as_dict_no_head():
                r = refs.as_dict()
                r.pop(b"HEAD", None)
                return r

            def missing_lookup():
                try:
                    refs[b"refs/tags/t"]
                except KeyError:
                    return "KeyError"
                return "found"

            observe("as_dict()", as_dict_no_head, expected)
            observe("refs[b'refs/tags/t'] (deleted ref)", missing_lookup, "KeyError")
            observe("b'refs/tags/t' in refs", lambda: b"refs/tags/t" in refs, False)
            observe(
                "keys(b'refs/heads')", lambda: refs.keys(b"refs/heads"), {b"m"}
            )

        # An unconditional write must still take effect.
        try:
            ok = disk.set_if_equals(b"refs/heads/m", None, B)
            if ok is not True or disk[b"refs/heads/m"] != B:
                problems.append("unconditional set of refs/heads/m did not take effect")
        except BaseException as e:
            problems.append(
                f"unconditional set_if_equals(refs/heads/m, None, B) raised {type(e).__name__}({e})"
            )
        try:
            ok = disk.add_if_new(b"refs/heads/new", A)
            if ok is not True:
                problems.append(f"add_if_new(refs/heads/new) returned {ok!r}")
        except BaseException as e:
            problems.append(f"add_if_new(refs/heads/new) raised {type(e).__name__}({e})")
    finally:
        shutil.rmtree(d, ignore_errors=True)

    if problems:
        print("\nVIOLATION: tag -> pack_refs -> delete tag breaks the files backend:")
        for p in problems:
            print("  -", p)
        return 1
    print("OK: files backend agrees with the map model and with C git")
    return 0


if __name__ == "__main__":
    sys.exit(main())
