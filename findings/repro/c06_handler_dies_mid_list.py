#!/usr/bin/env python
"""C06 / h2: receive-pack dies in the middle of the command list -- refs that
were already updated are never reported -- when a ref update raises an
exception type the update loop does not know about.

ReceivePackHandler._apply_pack catches (IOError, OSError, ..., zlib.error,
ObjectFormatException) around each ref update and has an outer
`except KeyError: ref_status = b"bad ref"`.  Two exceptions that the refs
container raises in perfectly ordinary situations are in neither list:

  * dulwich.errors.RefFormatError  -- the client names a ref that does not
    pass check_ref_format ("refs/heads/a..x").  (_check_refname used to raise
    KeyError; the `except KeyError -> "bad ref"` arm is what is left of that.)
  * dulwich.file.FileLocked        -- another pusher is inside set_if_equals
    for the same ref at this moment and holds <ref>.lock.

Both derive from Exception directly.  They escape from _apply_pack, handle()
never reaches _report_status, and the connection just ends.  The commands that
came earlier in the list HAVE been applied, so the refs moved on the server
while the client is told nothing (it sees a hang-up / failed push); the
offending ref is not "reported as rejected" either.

Expected (property C06): a status line for every command, "ok" exactly for
the refs that now hold the requested value, "ng" for the one that could not be
updated (C git: "ng refs/heads/a..x funny refname", resp. "ng <ref> failed to
update ref", and the other refs of the push are processed normally).
Exit 1 when refs changed without a report.
"""

import shutil
import sys
import tempfile
from io import BytesIO

import dulwich

assert dulwich.__file__.startswith("/repo/"), dulwich.__file__

from dulwich.client import ReportStatusParser
from dulwich.file import GitFile
from dulwich.object_format import DEFAULT_OBJECT_FORMAT
from dulwich.objects import Blob, Commit, Tree
from dulwich.pack import write_pack_objects
from dulwich.protocol import Protocol, pkt_line
from dulwich.repo import Repo
from dulwich.server import FileSystemBackend, ReceivePackHandler

ZERO = b"0" * 40
CAPS = [b"report-status", b"delete-refs", b"ofs-delta"]


def make_commit(msg, parents=(), store=None):
    blob = Blob.from_string(b"content of " + msg)
    tree = Tree()
    tree.add(b"f", 0o100644, blob.id)
    c = Commit()
    c.tree = tree.id
    c.parents = list(parents)
    c.author = c.committer = b"T <t@example.com>"
    c.author_time = c.commit_time = 1700000000
    c.author_timezone = c.commit_timezone = 0
    c.message = msg
    objs = [blob, tree, c]
    if store is not None:
        for o in objs:
            store.add_object(o)
    return c, objs


def receive_pack(path, commands, caps, pack_objects):
    """One receive-pack conversation; returns (report dict | None, exception)."""
    inp = BytesIO()
    first = True
    for old, new, ref in commands:
        line = old + b" " + new + b" " + ref
        if first:
            line += b"\x00" + b" ".join(caps)
            first = False
        inp.write(pkt_line(line + b"\n"))
    inp.write(pkt_line(None))
    if any(new != ZERO for _, new, _ in commands):
        write_pack_objects(
            inp.write, [(o, None) for o in pack_objects], DEFAULT_OBJECT_FORMAT
        )
    inp.seek(0)
    out = BytesIO()
    proto = Protocol(inp.read, out.write)
    handler = ReceivePackHandler(
        FileSystemBackend(path), ["."], proto, stateless_rpc=True
    )
    exc = None
    try:
        handler.handle()
    except Exception as e:  # noqa: BLE001 - show whatever escapes the handler
        exc = e
    finally:
        handler.repo.close()
    if not out.getvalue():
        return None, exc
    out.seek(0)
    parser = ReportStatusParser()
    for pkt in Protocol(out.read, lambda d: None).read_pkt_seq():
        parser.handle_packet(pkt)
    parser.handle_packet(None)
    return dict(parser.check()), exc


def read_refs(path):
    with Repo(path) as r:
        return dict(r.refs.as_dict())


def judge(name, commands, before, after, report, exc, must_fail):
    problems = []
    if exc is not None:
        problems.append(
            f"handler aborted with {type(exc).__module__}.{type(exc).__name__}: {exc}"
        )
    if report is None:
        problems.append("no status report was sent to the client at all")
    for _, new, ref in commands:
        does_hold = after.get(ref, ZERO) == new
        said_ok = report is not None and ref in report and report[ref] is None
        said_ng = report is not None and report.get(ref) is not None
        if does_hold and not said_ok:
            problems.append(
                f"{ref!r} now holds the requested value on the server but the "
                "push did not report success for it"
            )
        if said_ok and not does_hold:
            problems.append(f"{ref!r} reported ok but does not hold the value")
        if ref == must_fail and not said_ng:
            problems.append(f"{ref!r} could not be updated but was not reported as rejected")
    print(f"[{name}] report: {report}")
    for _, new, ref in commands:
        print(
            f"[{name}]   {ref.decode():20} before={before.get(ref, ZERO)[:8].decode()} "
            f"after={after.get(ref, ZERO)[:8].decode()} requested={new[:8].decode()}"
        )
    for p in problems:
        print(f"[{name}] PROBLEM: {p}")
    return not problems


def scenario_funny_refname():
    tmp = tempfile.mkdtemp(prefix="c06-h2a-")
    try:
        with Repo.init_bare(tmp) as srv:
            a0, _ = make_commit(b"a0", store=srv.object_store)
            srv.refs[b"refs/heads/b"] = a0.id
        before = read_refs(tmp)
        c1, c1_objs = make_commit(b"c1", [a0.id])
        bad = b"refs/heads/a..x"
        commands = [
            (a0.id, c1.id, b"refs/heads/b"),
            (ZERO, c1.id, bad),
            (ZERO, c1.id, b"refs/heads/z"),
        ]
        report, exc = receive_pack(tmp, commands, CAPS, c1_objs)
        after = read_refs(tmp)
        return judge("A: funny refname", commands, before, after, report, exc, bad)
    finally:
        shutil.rmtree(tmp, ignore_errors=True)


def scenario_locked_by_other_pusher():
    tmp = tempfile.mkdtemp(prefix="c06-h2b-")
    try:
        with Repo.init_bare(tmp) as srv:
            a0, _ = make_commit(b"a0", store=srv.object_store)
            d1, _ = make_commit(b"d1 (pusher 1)", [a0.id], store=srv.object_store)
            srv.refs[b"refs/heads/b"] = a0.id
            srv.refs[b"refs/heads/hot"] = a0.id
            hot_path = srv.refs.refpath(b"refs/heads/hot")
        before = read_refs(tmp)
        c1, c1_objs = make_commit(b"c1 (pusher 2)", [a0.id])
        commands = [
            (a0.id, c1.id, b"refs/heads/b"),
            (a0.id, c1.id, b"refs/heads/hot"),
            (ZERO, c1.id, b"refs/heads/z"),
        ]
        # Pusher 1 is inside DiskRefsContainer.set_if_equals(refs/heads/hot):
        # it has taken the lock exactly the way set_if_equals does ...
        lock = GitFile(hot_path, "wb")
        try:
            # ... and at this moment pusher 2's whole push is processed.
            report, exc = receive_pack(tmp, commands, CAPS, c1_objs)
        finally:
            # pusher 1 finishes its update
            lock.write(d1.id + b"\n")
            lock.close()
        after = read_refs(tmp)
        return judge(
            "B: ref locked by a racing pusher",
            commands,
            before,
            after,
            report,
            exc,
            b"refs/heads/hot",
        )
    finally:
        shutil.rmtree(tmp, ignore_errors=True)


def main():
    ok = scenario_funny_refname()
    ok = scenario_locked_by_other_pusher() and ok
    if not ok:
        print("FAIL: property C06 violated (refs changed / failed without a status report)")
        return 1
    print("OK: every command got a status line that matches the server refs")
    return 0


if __name__ == "__main__":
    sys.exit(main())
