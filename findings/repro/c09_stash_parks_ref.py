#!/usr/bin/env python
"""C09 / h2: `stash push` parks refs/stash on the HEAD commit before it creates the stash.

Stash.push() first executes   refs[refs/stash] = HEAD   (only so that WorkTree.commit()
picks HEAD up as first parent) and then commits onto refs/stash.  A crash between the two
ref writes leaves refs/stash holding a value that is neither its old value (the previous
stash, or absent) nor its new value (the new stash commit): it names the HEAD commit, and a
previously stashed state is no longer named by any ref.

The demo stashes once (old value S1), dirties the tree again and runs porcelain.stash_push
in a child that is killed (os._exit) right before the k-th rename/replace/unlink inside
.git, for every k.  After every simulated crash each ref must hold its old or its new value.

exit 1 = violation observed, exit 0 = all crash states hold old-or-new values.
"""
import os
import shutil
import subprocess
import sys
import tempfile
import time

import dulwich

assert os.path.dirname(dulwich.__file__) == os.path.join(os.environ.get("VERIF_REPO", "/repo"), "dulwich"), dulwich.__file__

os.environ["HOME"] = tempfile.mkdtemp(prefix="c09h2home")
time.time = lambda: 3000.0  # deterministic commit ids (inherited by the forked children)

from dulwich import porcelain
from dulwich.repo import Repo


def refs_of(path):
    r = Repo(path)
    try:
        out = {}
        for k in r.refs.allkeys():
            try:
                out[k] = r.refs[k]
            except KeyError:
                out[k] = None
        return out
    finally:
        r.close()


def child(path, k):
    count = [0]
    gitdir = os.path.join(path, ".git")

    def wrap(name):
        orig = getattr(os, name)

        def f(*a, **kw):
            if any(isinstance(x, (str, bytes)) and os.fsdecode(x).startswith(gitdir) for x in a):
                count[0] += 1
                if count[0] == k:
                    os._exit(99)  # crash: no cleanup code runs
            return orig(*a, **kw)

        setattr(os, name, f)

    for n in ("rename", "replace", "remove", "unlink"):
        wrap(n)
    porcelain.stash_push(path)
    os._exit(0)


def run_child(path, k):
    sys.stdout.flush()
    pid = os.fork()
    if pid == 0:
        try:
            child(path, k)
        finally:
            os._exit(3)
    _, st = os.waitpid(pid, 0)
    return os.WEXITSTATUS(st)


def main():
    top = tempfile.mkdtemp(prefix="c09h2")
    rc = 0
    try:
        tmpl = os.path.join(top, "tmpl")
        r = Repo.init(tmpl, mkdir=True)
        cfg = r.get_config()
        cfg.set((b"user",), b"name", b"A")
        cfg.set((b"user",), b"email", b"a@b")
        cfg.write_to_path()
        r.close()
        with open(os.path.join(tmpl, "a"), "wb") as f:
            f.write(b"committed\n")
        porcelain.add(tmpl, [os.path.join(tmpl, "a")])
        porcelain.commit(tmpl, message=b"c1")
        with open(os.path.join(tmpl, "a"), "wb") as f:
            f.write(b"first stashed state\n")
        porcelain.stash_push(tmpl)  # completes: refs/stash = S1
        with open(os.path.join(tmpl, "a"), "wb") as f:
            f.write(b"second dirty state\n")
        old = refs_of(tmpl)
        print("before: HEAD      =", old[b"HEAD"].decode())
        print("before: refs/stash =", old[b"refs/stash"].decode(), "(S1)")

        # reference run, to learn the new values
        full = os.path.join(top, "full")
        shutil.copytree(tmpl, full, symlinks=True)
        assert run_child(full, 10**9) == 0
        new = refs_of(full)
        print("after : refs/stash =", new[b"refs/stash"].decode(), "(S2)")
        assert new[b"refs/stash"] not in (old[b"refs/stash"], old[b"HEAD"])

        k = 0
        while True:
            k += 1
            run = os.path.join(top, "run")
            if os.path.exists(run):
                shutil.rmtree(run)
            shutil.copytree(tmpl, run, symlinks=True)
            code = run_child(run, k)
            cur = refs_of(run)
            bad = []
            for name in set(old) | set(new) | set(cur):
                allowed = {old.get(name, "absent"), new.get(name, "absent")}
                if cur.get(name, "absent") not in allowed:
                    bad.append((name, cur.get(name, "absent"), allowed))
            if bad:
                rc = 1
                print(f"VIOLATION: crash before rename/replace/unlink #{k} of stash_push (child exit {code})")
                for name, v, allowed in bad:
                    print(f"  ref {name.decode()} = {v!r}: neither old nor new value {sorted(map(repr, allowed))}")
                if cur.get(b"refs/stash") == old[b"HEAD"]:
                    print("  refs/stash names the HEAD commit; the first stash S1 is not named by any ref any more")
                if shutil.which("git"):
                    p = subprocess.run(["git", "-C", run, "stash", "show", "-p", "refs/stash"], capture_output=True, text=True)
                    print("  git stash show refs/stash ->", p.returncode, (p.stdout + p.stderr).strip().replace("\n", " | ")[:200])
                break
            if code != 99:
                assert code == 0, code
                print(f"stash_push completed after {k - 1} crash points; every ref held its old or new value")
                break
    finally:
        shutil.rmtree(top, ignore_errors=True)
        shutil.rmtree(os.environ["HOME"], ignore_errors=True)
    return rc


if __name__ == "__main__":
    sys.exit(main())
