#!/usr/bin/env python
"""C20 / h2: a read-modify-write of a config file that has an [include]
copies the included settings into the file.

ConfigFile.from_file() merges the settings of an included file into the same
dictionary as the file's own settings; write_to_file() writes that whole
dictionary.  After  cfg = ConfigFile.from_path(F); cfg.set(...);
cfg.write_to_path()  the file F contains a private copy of everything the
include provided, *and* still the include itself.  Reading F back therefore
does not give the configuration that was written: every included key has
become multi-valued (the value is there twice), and the stale copy written
into F now overrides later changes of the included file.

Exit status: 1 when the violation is observed, 0 otherwise.
"""

import os
import shutil
import subprocess
import sys
import tempfile

import dulwich

assert os.path.dirname(dulwich.__file__) == os.path.join(os.environ.get("VERIF_REPO", "/repo"), "dulwich"), dulwich.__file__
from dulwich.config import ConfigFile
from dulwich.repo import Repo


def snapshot(cf):
    """All (section, key) -> [values] of a ConfigFile, with git's case rules."""
    out = {}
    for section in cf.sections():
        for key, value in cf.items(section):
            name = (section[0].lower(), *section[1:], key.lower())
            out.setdefault(name, []).append(value)
    return out


def git_get_all(env, path, key, includes):
    cmd = ["git", "config", "--file", path]
    cmd.append("--includes" if includes else "--no-includes")
    cmd += ["-z", "--get-all", key]
    r = subprocess.run(cmd, env=env, capture_output=True)
    if r.returncode == 1:
        return []
    assert r.returncode == 0, r.stderr
    return r.stdout.split(b"\0")[:-1]


def main() -> int:
    td = tempfile.mkdtemp(prefix="c20h2-")
    env = dict(os.environ, HOME=td, GIT_CONFIG_NOSYSTEM="1")
    problems = []
    try:
        repo = Repo.init(os.path.join(td, "repo"), mkdir=True)
        main_path = os.path.join(repo.controldir(), "config")
        inc_path = os.path.join(td, "identity.inc")
        repo.close()

        # Both files are written by git.
        subprocess.run(
            ["git", "config", "--file", inc_path, "user.name", "Included Name"],
            check=True, env=env,
        )
        subprocess.run(
            ["git", "config", "--file", main_path, "include.path", inc_path],
            check=True, env=env,
        )

        git_before_inc = git_get_all(env, main_path, "user.name", includes=True)
        git_before_own = git_get_all(env, main_path, "user.name", includes=False)
        assert git_before_inc == [b"Included Name"], git_before_inc
        assert git_before_own == [], git_before_own

        # dulwich: an unrelated read-modify-write, exactly what porcelain does
        # (r.get_config(); cfg.set(...); cfg.write_to_path()).
        repo = Repo(os.path.join(td, "repo"))
        cfg = repo.get_config()
        assert list(cfg.get_multivar((b"user",), b"name")) == [b"Included Name"]
        cfg.set((b"core",), b"unrelated", b"1")
        written = snapshot(cfg)  # the configuration that is being written
        cfg.write_to_path()
        repo.close()

        with open(main_path, "rb") as f:
            raw = f.read()

        # 1. dulwich reads it back
        read_back = snapshot(ConfigFile.from_path(main_path))
        if read_back != written:
            diff = {
                k: (written.get(k), read_back.get(k))
                for k in set(written) | set(read_back)
                if written.get(k) != read_back.get(k)
            }
            problems.append(
                "write -> read back is not the identity; (written, read back) per key: %r"
                % (diff,)
            )

        # 2. git reads the file dulwich wrote
        git_after_inc = git_get_all(env, main_path, "user.name", includes=True)
        git_after_own = git_get_all(env, main_path, "user.name", includes=False)
        if git_after_own != git_before_own:
            problems.append(
                "the file itself (git config --no-includes) now defines user.name = %r; "
                "before the dulwich rewrite it defined %r"
                % (git_after_own, git_before_own)
            )
        if git_after_inc != git_before_inc:
            problems.append(
                "git config --includes --get-all user.name: %r before, %r after the rewrite"
                % (git_before_inc, git_after_inc)
            )

        # 3. consequence: the stale private copy wins over the include
        subprocess.run(
            ["git", "config", "--file", inc_path, "user.name", "New Name"],
            check=True, env=env,
        )
        effective_git = subprocess.run(
            ["git", "config", "--file", main_path, "--includes", "--get", "user.name"],
            env=env, capture_output=True,
        ).stdout.strip()
        effective_dulwich = ConfigFile.from_path(main_path).get((b"user",), b"name")
        if effective_git != b"New Name" or effective_dulwich != b"New Name":
            problems.append(
                "after changing the included file to 'New Name' the effective user.name is "
                "%r for git and %r for dulwich" % (effective_git, effective_dulwich)
            )
    finally:
        shutil.rmtree(td, ignore_errors=True)

    if problems:
        print("VIOLATION: rewriting a config file inlines its includes")
        print("  file after cfg.set((b'core',), b'unrelated', b'1'); cfg.write_to_path():")
        for line in raw.splitlines():
            print("      %r" % line)
        for p in problems:
            print("  - " + p)
        return 1
    print("ok: the rewrite left the included settings in the included file")
    return 0


if __name__ == "__main__":
    sys.exit(main())
