#!/usr/bin/env python
"""C10 / h2: garbage_collect() deletes an object that was freshened and made
reachable after its reachability scan (no re-check of reachability or mtime at
deletion time).

Two actors on one repository:

  A  runs dulwich.gc.garbage_collect(repo) with the DEFAULT grace period
     (two weeks).
  B  is an ordinary committer.  It re-uses a blob that already lies in the
     object store as an old, currently unreferenced loose object (left over
     from an earlier "add" that was never committed): it calls
     object_store.add_object(blob) -- which refreshes the mtime of the existing
     loose file precisely so that a concurrent gc keeps it -- writes a tree and
     a commit and moves refs/heads/master to the new commit.

B runs after A has finished its reachability/age scan and before A deletes
anything.  The interleaving is forced through the documented ``progress``
callback of garbage_collect: A reports "Packing references" exactly between the
scan and the deletion, and the callback runs B at that moment.

Expected (property C10): every object reachable from a ref stays readable;
only unreachable objects OLDER than the grace period may disappear.  At the
moment A deletes the blob it is reachable from refs/heads/master and its mtime
is a few milliseconds old.

Exit status 1 = violation reproduced, 0 = library behaves as the property says.
"""

import os
import shutil
import sys
import tempfile
import time
import warnings

import dulwich

assert os.path.dirname(dulwich.__file__) == os.path.join(os.environ.get("VERIF_REPO", "/repo"), "dulwich"), dulwich.__file__

from dulwich.gc import garbage_collect
from dulwich.objects import Blob, Commit, Tree
from dulwich.repo import Repo

warnings.simplefilter("ignore")

THREE_WEEKS = 21 * 86400


def make_commit(tree_id, parents, msg):
    c = Commit()
    c.tree = tree_id
    c.parents = parents
    c.author = c.committer = b"A U Thor <author@example.com>"
    c.author_time = c.commit_time = 1700000000
    c.author_timezone = c.commit_timezone = 0
    c.message = msg
    return c


def closure(store, root):
    """Own, library independent walk commit -> tree -> blobs."""
    todo, seen = [root], []
    while todo:
        sha = todo.pop()
        if sha in seen:
            continue
        seen.append(sha)
        try:
            obj = store[sha]
        except KeyError:
            continue
        if obj.type_name == b"commit":
            todo.append(obj.tree)
            todo.extend(obj.parents)
        elif obj.type_name == b"tree":
            todo.extend(e.sha for e in obj.items())
    return seen


def scenario(packed_first):
    """packed_first=False: the old blob is a loose object.
    packed_first=True:  the old blob lies in an (old) pack only; B's
    add_object() then writes a brand new loose file, which gc deletes too."""
    d = tempfile.mkdtemp(prefix="c10-h2-")
    try:
        repo_a = Repo.init(d)
        store = repo_a.object_store

        # History so far: one commit on master.
        b0 = Blob.from_string(b"hello\n")
        t0 = Tree()
        t0.add(b"hello.txt", 0o100644, b0.id)
        c0 = make_commit(t0.id, [], b"initial")
        for o in (b0, t0, c0):
            store.add_object(o)
        repo_a.refs[b"refs/heads/master"] = c0.id

        # An old, unreferenced object: e.g. "git add precious.txt" three weeks
        # ago that was never committed.
        precious = Blob.from_string(b"precious content\n")
        if packed_first:
            store.add_objects([(precious, None)])
        else:
            store.add_object(precious)
        old = time.time() - THREE_WEEKS
        objdir = os.path.join(d, ".git", "objects")
        for root, _dirs, files in os.walk(objdir):
            for f in files:
                os.utime(os.path.join(root, f), (old, old))

        state = {"b_ran": False, "c1": None}

        def actor_b():
            rb = Repo(d)  # a second process would open the repository afresh
            try:
                sb = rb.object_store
                # add_object() on an existing loose object refreshes its mtime
                # "so a concurrent git gc" does not remove it (see the comment
                # in DiskObjectStore.add_object).
                sb.add_object(Blob.from_string(b"precious content\n"))
                t1 = Tree()
                t1.add(b"hello.txt", 0o100644, b0.id)
                t1.add(b"precious.txt", 0o100644, precious.id)
                sb.add_object(t1)
                c1 = make_commit(t1.id, [c0.id], b"add precious.txt")
                sb.add_object(c1)
                assert rb.refs.set_if_equals(b"refs/heads/master", c0.id, c1.id)
                state["c1"] = c1.id
            finally:
                rb.close()

        def progress(msg):
            # garbage_collect reports this between its scan and its deletions.
            if msg == "Packing references" and not state["b_ran"]:
                state["b_ran"] = True
                actor_b()

        garbage_collect(repo_a, progress=progress)  # default grace: 2 weeks
        repo_a.close()
        assert state["b_ran"], "interleaving hook did not fire"

        check = Repo(d)
        try:
            head = check.refs[b"refs/heads/master"]
            assert head == state["c1"]
            missing = [s for s in closure(check.object_store, head)
                       if s not in check.object_store]
        finally:
            check.close()
        return missing, precious.id
    finally:
        shutil.rmtree(d, ignore_errors=True)


def main():
    failed = False
    for packed_first in (False, True):
        where = "an old pack" if packed_first else "an old loose file"
        missing, precious = scenario(packed_first)
        if missing:
            failed = True
            print(
                f"VIOLATION (old copy in {where}): after garbage_collect() with the "
                f"default two-week grace period, refs/heads/master reaches "
                f"{[m.decode() for m in missing]} which the object store no longer has "
                f"(blob {precious.decode()} was freshened by add_object() and "
                f"committed before gc deleted anything)."
            )
        else:
            print(f"ok (old copy in {where}): every object reachable from master is readable")
    return 1 if failed else 0


if __name__ == "__main__":
    sys.exit(main())
