"""F14.4: with a commit-graph present, _collect_ancestors (and get_depth) answer from the graph and bypass the
caller-supplied get_parents, i.e. the repository's grafts: the set of objects chosen for a transfer changes
when the optional commit-graph file is written."""
import os, sys, tempfile
sys.path.insert(0, '/repo')
from dulwich.repo import Repo
from dulwich.objects import Tree, Commit

def mkcommit(store, parents, t):
    tr = Tree(); store.add_object(tr)
    c = Commit(); c.tree = tr.id; c.parents = parents
    c.author = c.committer = b"a <a@b>"; c.author_time = c.commit_time = t
    c.author_timezone = c.commit_timezone = 0; c.message = b"m%d" % t
    store.add_object(c); return c

d = tempfile.mkdtemp(dir=os.environ.get('TMPDIR', '/tmp'))
r = Repo.init_bare(d)
a = mkcommit(r.object_store, [], 1); b = mkcommit(r.object_store, [a.id], 2); c = mkcommit(r.object_store, [b.id], 3)
r.refs[b"refs/heads/master"] = c.id
r._add_graftpoints({c.id: []})          # graft: c has no parents
def chosen(repo):
    # the graft-aware parents function every BaseRepo offers (Repo.get_parents honours grafts and shallows)
    finder = repo.object_store.find_missing_objects(
        haves=[], wants=[c.id], get_parents=lambda commit: repo.get_parents(commit.id, commit))
    commits = {sha for sha, _ in finder if isinstance(repo[sha], Commit)}
    return sorted(x[:7] for x in commits)
before = chosen(r)
r.object_store.write_commit_graph([c.id])
r2 = Repo(d); r2._add_graftpoints({c.id: []})
after = chosen(r2)
print("commits chosen without commit-graph:", before)
print("commits chosen with commit-graph   :", after)
print("identical (expect True):", before == after)
