"""C10: iterating the loose objects while `git repack -a -d` runs raises FileNotFoundError.

DiskObjectStore._iter_loose_objects lists objects/ and then each two-character fan-out directory; git's prune-packed
(part of repack -d) removes the loose files AND the emptied fan-out directories.  A directory removed between the two
listings made the iteration fail with FileNotFoundError although every object stayed readable (now from the pack).
The sibling scans (count_loose_objects, iter_prefix) already tolerate the vanished directory.  Needs `git`.
Exit 1 when the iteration raises or omits an object."""
import os, sys, tempfile, shutil, subprocess
from dulwich.repo import Repo
from dulwich.objects import Blob, Tree, Commit
base = tempfile.mkdtemp()
path = os.path.join(base, "r")
r = Repo.init(path, mkdir=True)
blobs = [Blob.from_string(b"blob %d\n" % i) for i in range(40)]
t = Tree()
for i, b in enumerate(blobs):
    r.object_store.add_object(b); t.add(b"f%d" % i, 0o100644, b.id)
r.object_store.add_object(t)
c = Commit(); c.tree = t.id; c.parents = []; c.author = c.committer = b"a <a@b>"; c.author_time = c.commit_time = 1
c.author_timezone = c.commit_timezone = 0; c.message = b"m"; r.object_store.add_object(c)
r.refs[b"refs/heads/master"] = c.id
everything = {b.id for b in blobs} | {t.id, c.id}
reader = Repo(path)
it = iter(reader.object_store)
got = {next(it)}
subprocess.run(["git", "repack", "-a", "-d", "-q"], cwd=path, check=True)      # another process: repack + prune-packed (removes empty fan-out dirs)
rc = 0
try:
    got |= set(it)
    missing = everything - got
    print("iteration finished; omitted:", len(missing))
    rc = 1 if missing else 0
except Exception as e:  # noqa: BLE001
    print("iteration raised:", type(e).__name__, e)
    rc = 1
reader.close(); r.close(); shutil.rmtree(base); sys.exit(rc)
