"""C15/C01: Blob.splitlines() depends on how the blob's bytes are chunked, and the two apply_delta twins chunk differently.

The pure-Python apply_delta returns one chunk per delta command, the Rust twin a single chunk.  A blob rebuilt from a
delta therefore has a different `chunked` list in the two modes, and Blob.splitlines() glued a chunk that ENDS in a
newline to the following chunk: [b"a\n", b"b\n"] -> [b"a\nb\n"].  porcelain/patch output (unified diffs, annotate) of a
deltified blob then differs with the extension enabled.  Exit 1 when a chunking changes the answer."""
import itertools, sys
from dulwich.objects import Blob

bad = 0
alphabet = [b"a", b"\n", b"b\n", b"\r", b"c\r\n", b""]
n = 0
for k in (1, 2, 3, 4):
    for chunks in itertools.product(alphabet, repeat=k):
        n += 1
        whole = Blob.from_string(b"".join(chunks)).splitlines()
        b = Blob(); b.chunked = list(chunks)
        got = b.splitlines()
        if got != whole:
            bad += 1
            if bad <= 5:
                print("chunks", list(chunks), "->", got, "expected", whole)
# the twins
try:
    from dulwich import _pack  # noqa: F401
    import importlib, dulwich.pack as p
    src = open(p.__file__).read()
    ns = {}
    rust = p.apply_delta
    # the pure-Python definition, compiled from the source without the import-time substitution
    import types
    mod = types.ModuleType("packpy"); mod.__dict__.update({k: v for k, v in p.__dict__.items()})
    i = src.index("def apply_delta("); j = src.index("\ndef ", i + 10)
    exec(compile(src[i:j], "packpy", "exec"), mod.__dict__)
    base = b"".join(b"line %d\n" % i for i in range(40))
    target = base[:70] + b"inserted\n" + base[70:]
    delta = b"".join(p.create_delta(base, target))
    cr, cp = rust(base, delta), mod.apply_delta(base, delta)
    br, bp = Blob(), Blob()
    br.chunked, bp.chunked = cr, cp
    same = br.splitlines() == bp.splitlines()
    print(f"apply_delta chunks: rust {len(cr)}, python {len(cp)}; Blob.splitlines() equal: {same}")
    if not same:
        bad += 1
except ImportError:
    print("extension not built: twin comparison skipped")
print(f"{n} chunkings, {bad} disagreements")
sys.exit(1 if bad else 0)
