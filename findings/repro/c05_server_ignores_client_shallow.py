#!/usr/bin/env python
"""C05 / h1 -- dulwich upload-pack forgets the client's `shallow` lines when the
deepen request produces no new boundary: it then trusts `have <shallow commit>` as if
the client had the whole ancestry and leaves out objects the client does not have.

Scenario (dulwich client <-> dulwich TCP server, protocol v0, all default capabilities):

    C1 <- C2 <- C3   refs/heads/main          (client: clone --depth=1  => has C3 only,
     ^                                          .git/shallow = {C3})
     +---- M1        refs/heads/maint         (created later on the server)

    client: fetch refs/heads/maint with depth=10   (10 > length of maint's history)

The fetch succeeds, the client stores refs/remotes/origin/maint = M1, but C1 (M1's parent,
with its tree and blob) was never sent and is not covered by the shallow file.

Exit status: 1 if the receiver is incomplete after the successful fetch, 0 otherwise.
"""
import os
import shutil
import subprocess
import sys
import tempfile
import threading

import dulwich

assert os.path.dirname(dulwich.__file__) == os.path.join(os.environ.get("VERIF_REPO", "/repo"), "dulwich"), dulwich.__file__

from dulwich.client import SubprocessGitClient, TCPGitClient
from dulwich.objects import Blob, Commit, Tag, Tree
from dulwich.repo import Repo
from dulwich.server import DictBackend, TCPGitServer


def make_commit(repo, parents, files, msg, when):
    tree = Tree()
    for name, data in files.items():
        b = Blob.from_string(data)
        repo.object_store.add_object(b)
        tree.add(name, 0o100644, b.id)
    repo.object_store.add_object(tree)
    c = Commit()
    c.tree = tree.id
    c.parents = parents
    c.author = c.committer = b"A U Thor <a@example.com>"
    c.author_time = c.commit_time = when
    c.author_timezone = c.commit_timezone = 0
    c.message = msg
    repo.object_store.add_object(c)
    return c.id


def missing_objects(repo):
    """Objects reachable from the refs (cut at .git/shallow) that are absent."""
    shallow = repo.get_shallow()
    store = repo.object_store
    missing, seen, todo = set(), set(), list(set(repo.get_refs().values()))
    while todo:
        sha = todo.pop()
        if sha in seen:
            continue
        seen.add(sha)
        try:
            o = store[sha]
        except KeyError:
            missing.add(sha)
            continue
        if isinstance(o, Commit):
            todo.append(o.tree)
            if sha not in shallow:
                todo.extend(o.parents)
        elif isinstance(o, Tree):
            todo.extend(s for _n, m, s in o.iteritems() if m != 0o160000)
        elif isinstance(o, Tag):
            todo.append(o.object[1])
    return missing


def scenario(root, kind):
    """kind: 'dulwich-server' (TCP, dulwich upload-pack) or 'cgit-server' (git upload-pack)."""
    src = Repo.init_bare(os.path.join(root, kind + "-src"), mkdir=True)
    c1 = make_commit(src, [], {b"a": b"one\n"}, b"C1\n", 1000)
    c2 = make_commit(src, [c1], {b"a": b"one\n", b"b": b"two\n"}, b"C2\n", 2000)
    c3 = make_commit(src, [c2], {b"a": b"one\n", b"b": b"two\n", b"c": b"3\n"}, b"C3\n", 3000)
    src.refs[b"refs/heads/main"] = c3
    src.refs.set_symbolic_ref(b"HEAD", b"refs/heads/main")

    dst = Repo.init_bare(os.path.join(root, kind + "-dst"), mkdir=True)

    srv = None
    if kind == "dulwich-server":
        srv = TCPGitServer(DictBackend({b"/": src}), b"127.0.0.1", 0)
        threading.Thread(target=srv.serve_forever, daemon=True).start()
        client, path = TCPGitClient("127.0.0.1", port=srv.server_address[1]), "/"
    else:
        client, path = SubprocessGitClient(), src.path
    try:
        # 1. shallow clone of main, depth 1
        res = client.fetch(path, dst, determine_wants=lambda refs, depth=None: [refs[b"refs/heads/main"]], depth=1)
        dst.refs[b"refs/heads/main"] = res.refs[b"refs/heads/main"]
        dst.refs[b"refs/remotes/origin/main"] = res.refs[b"refs/heads/main"]
        assert dst.get_shallow() == {c3}, dst.get_shallow()
        assert not missing_objects(dst), "receiver must be complete (modulo shallow) before"

        # 2. a maintenance branch forked from the old commit C1 appears on the server
        m1 = make_commit(src, [c1], {b"a": b"one\n", b"fix": b"hotfix\n"}, b"M1\n", 4000)
        src.refs[b"refs/heads/maint"] = m1

        # 3. the client fetches only that branch, with a depth larger than its history
        res = client.fetch(path, dst, determine_wants=lambda refs, depth=None: [refs[b"refs/heads/maint"]], depth=10)
        dst.refs[b"refs/remotes/origin/maint"] = res.refs[b"refs/heads/maint"]
    finally:
        if srv is not None:
            srv.shutdown()
            srv.server_close()

    dst2 = Repo(dst.path)
    missing = missing_objects(dst2)
    names = {c1: "C1", c2: "C2", c3: "C3", m1: "M1"}
    print(f"[{kind}] fetch of refs/heads/maint (depth=10) succeeded; shallow file = "
          f"{sorted(names.get(s, s.decode()) for s in dst2.get_shallow())}")
    print(f"[{kind}] objects reachable from the receiver's refs but absent: "
          f"{sorted(names.get(s, s.decode()[:12]) for s in missing) or 'none'}")
    if shutil.which("git"):
        p = subprocess.run(["git", "-C", dst.path, "fsck", "--connectivity-only"],
                           capture_output=True, text=True)
        print(f"[{kind}] git fsck --connectivity-only: rc={p.returncode} "
              + " | ".join((p.stdout + p.stderr).strip().splitlines()[:3]))
    dst2.close()
    dst.close()
    src.close()
    return missing


def main():
    root = tempfile.mkdtemp(prefix="c05-h1-")
    try:
        if shutil.which("git"):
            ref_missing = scenario(root, "cgit-server")  # reference behaviour
            if ref_missing:
                print("note: reference run against C git upload-pack was incomplete too")
        missing = scenario(root, "dulwich-server")
    finally:
        shutil.rmtree(root, ignore_errors=True)
    if missing:
        print("VIOLATION: successful depth-limited fetch from the dulwich server left the "
              "receiver incomplete: the server ignored `shallow C3` from the client and pruned "
              "below `have C3`.")
        return 1
    print("OK: receiver complete after the fetch")
    return 0


if __name__ == "__main__":
    sys.exit(main())
