"""C11/C04: an index file whose 20-byte trailer is cut short is accepted.

SHA1Reader.check_sha(allow_empty=True) (used by Index.read for index.skipHash) raised only when the stored trailer
differed from the digest AND was a full 20 bytes that are not all zero: a trailer of 0..19 bytes passed.  Expected:
ChecksumMismatch for every truncation inside the trailer; the all-zero trailer (skipHash) stays accepted.
Exit 1 when a truncated index is read without an error."""
import os, sys, tempfile, shutil
from dulwich.index import Index, IndexEntry
from dulwich.errors import ChecksumMismatch

d = tempfile.mkdtemp()
bad = 0
try:
    p = os.path.join(d, "index")
    idx = Index(p)
    idx[b"a.txt"] = IndexEntry((0, 0), (0, 0), 0, 0, 0o100644, 0, 0, 3, b"a" * 40, 0, 0)
    idx.write()
    whole = open(p, "rb").read()
    for cut in range(1, 21):
        open(p, "wb").write(whole[:-cut])
        try:
            Index(p)
            print(f"trailer cut by {cut:2d} bytes: accepted")
            bad += 1
        except ChecksumMismatch:
            pass
        except Exception as e:  # noqa: BLE001
            print(f"trailer cut by {cut:2d} bytes: {type(e).__name__}")
    open(p, "wb").write(whole[:-20] + b"\0" * 20)
    Index(p)   # skipHash form must stay readable
    open(p, "wb").write(whole[:-1] + bytes([whole[-1] ^ 1]))
    try:
        Index(p); print("flipped trailer accepted"); bad += 1
    except ChecksumMismatch:
        pass
finally:
    shutil.rmtree(d)
print("accepted truncated/corrupt trailers:", bad)
sys.exit(1 if bad else 0)
