#!/usr/bin/env python
"""C04 / h3 -- a damaged bundle is half imported: Bundle.store_objects() is not all-or-nothing
and never looks at the pack checksum.

A bundle carries an ordinary pack stream.  dulwich ingests it with
Bundle.store_objects(object_store) (used by `dulwich bundle unbundle` and by
the bundle-URI fetch code in dulwich/bundle_uri.py, i.e. for data that was
downloaded).  That method

  * never verifies the SHA-1 trailer of the pack (PackData.check() is not
    called anywhere on the way), so a flipped bit is not noticed up front, and
  * calls object_store.add_object() for every object AS IT IS INFLATED, so when
    a later object turns out to be broken the earlier ones are already in the
    store.

The demo builds a valid bundle (C git verifies and unbundles it), flips ONE
BIT in it (the type field of the last pack entry, blob -> tree) and ingests
it into a disk store and a memory store.

exit 1 = the ingestion failed AND left new objects behind
exit 0 = the ingestion failed cleanly (or the damage was rejected up front)
"""

import hashlib
import io
import os
import shutil
import struct
import subprocess
import sys
import tempfile
import warnings
import zlib

import dulwich

assert os.path.dirname(dulwich.__file__) == os.path.join(os.environ.get("VERIF_REPO", "/repo"), "dulwich"), dulwich.__file__

from dulwich.bundle import read_bundle
from dulwich.object_store import DiskObjectStore, MemoryObjectStore
from dulwich.objects import Blob, Commit, Tree

warnings.simplefilter("ignore")


def objhdr(type_num, size):
    b = (type_num << 4) | (size & 0x0F)
    size >>= 4
    out = []
    while size:
        out.append(b | 0x80)
        b = size & 0x7F
        size >>= 7
    out.append(b)
    return bytes(out)


def entry(obj):
    data = obj.as_raw_string()
    return objhdr(obj.type_num, len(data)) + zlib.compress(data)


def build():
    blob = Blob.from_string(b"hello bundle\n")
    tree = Tree()
    tree.add(b"hello.txt", 0o100644, blob.id)
    commit = Commit()
    commit.tree = tree.id
    commit.author = commit.committer = b"A U Thor <author@example.com>"
    commit.author_time = commit.commit_time = 1700000000
    commit.author_timezone = commit.commit_timezone = 0
    commit.message = b"initial\n"
    entries = [entry(commit), entry(tree), entry(blob)]
    body = b"PACK" + struct.pack(">LL", 2, len(entries)) + b"".join(entries)
    pack = body + hashlib.sha1(body).digest()
    header = b"# v2 git bundle\n" + commit.id + b" refs/heads/main\n\n"
    # offset (inside the bundle file) of the header byte of the last pack entry
    last_entry_ofs = len(header) + 12 + len(entries[0]) + len(entries[1])
    return header + pack, last_entry_ofs, (commit, tree, blob)


def listing(path):
    out = []
    for d, _dirs, files in os.walk(path):
        for f in files:
            out.append(os.path.relpath(os.path.join(d, f), path))
    return sorted(out)


def cgit_unbundle(bundle_bytes, label):
    tmp = tempfile.mkdtemp(prefix="c04-h3-git-")
    try:
        subprocess.check_call(["git", "init", "-q", "--bare", tmp])
        path = os.path.join(tmp, "x.bundle")
        with open(path, "wb") as f:
            f.write(bundle_bytes)
        r = subprocess.run(["git", "-C", tmp, "bundle", "unbundle", path], capture_output=True)
        count = subprocess.run(
            ["git", "-C", tmp, "cat-file", "--batch-all-objects", "--batch-check"],
            capture_output=True,
        ).stdout.count(b"\n")
        print(f"  C git unbundle of the {label} bundle: rc={r.returncode}, "
              f"objects in the repository afterwards: {count}"
              + (f"  ({r.stderr.decode().strip().splitlines()[0]})" if r.returncode else ""))
    finally:
        shutil.rmtree(tmp, ignore_errors=True)


def ingest(kind, bundle_bytes, findings):
    tmp = tempfile.mkdtemp(prefix="c04-h3-")
    try:
        if kind == "disk":
            store = DiskObjectStore.init(os.path.join(tmp, "objects"))
            before_files = listing(tmp)
        else:
            store = MemoryObjectStore()
            before_files = None
        before = set(store)
        error = None
        bundle = read_bundle(io.BytesIO(bundle_bytes))
        try:
            bundle.store_objects(store)
        except Exception as exc:  # noqa: BLE001
            error = exc
        finally:
            bundle.close()
        new = sorted(set(store) - before)
        new_files = [f for f in listing(tmp) if f not in before_files] if kind == "disk" else []
        print(f"  {kind:6s} store: store_objects -> "
              f"{type(error).__name__ + ': ' + str(error) if error else 'accepted'}")
        print(f"           new objects visible afterwards: {[n.decode() for n in new]}")
        if kind == "disk":
            print(f"           new files: {new_files}")
        if error is not None and (new or new_files):
            findings.append(
                f"{kind} store: ingestion of the damaged bundle failed with "
                f"{type(error).__name__} but {len(new)} object(s) of it are now in the store"
            )
        store.close()
    finally:
        shutil.rmtree(tmp, ignore_errors=True)


def main():
    good, last_entry_ofs, (commit, tree, blob) = build()
    print(f"bundle: commit {commit.id.decode()}, tree {tree.id.decode()}, blob {blob.id.decode()}")
    assert good[last_entry_ofs] >> 4 == 3  # header byte of the blob entry
    damaged = bytearray(good)
    damaged[last_entry_ofs] ^= 0x10  # one bit: type 3 (blob) -> type 2 (tree)
    damaged = bytes(damaged)
    differing_bits = sum(bin(a ^ b).count("1") for a, b in zip(good, damaged))
    print(f"damage: {differing_bits} bit flipped at byte {last_entry_ofs} of {len(good)}; "
          f"the pack trailer no longer matches")

    cgit_unbundle(good, "intact")
    cgit_unbundle(damaged, "damaged")

    findings = []
    print("dulwich, damaged bundle:")
    for kind in ("disk", "memory"):
        ingest(kind, damaged, findings)

    if findings:
        print()
        print("VIOLATION: a failed ingestion left objects behind:")
        for f in findings:
            print("  -", f)
        return 1
    print("OK: the damaged bundle left no trace")
    return 0


if __name__ == "__main__":
    sys.exit(main())
