#!/usr/bin/env python
"""C11 / h2: time stamps outside 0 .. 2**32-1 make the index unwritable.

The ctime/mtime fields of an index entry are 32 bits wide.  C git stores the low
32 bits of the seconds ((unsigned int)st->st_mtime), exactly as it does for size,
dev and ino.  dulwich masks dev, ino and (since an earlier repair) size, but
write_cache_time() hands the seconds to struct.pack(">LL") unmasked, so a file
whose mtime lies before 1970 (negative) or after 2106 (>= 2**32) cannot be
written at all: Index.write() raises struct.error.  The property quantifies over
"all stat values ... and float or (sec,nsec) times" and demands agreement with
C git.

Exit status: 1 = violation observed, 0 = library behaves as the property says.
"""

import os
import re
import shutil
import subprocess
import sys
import tempfile

sys.path.insert(0, "/repo")
import dulwich  # noqa: E402

pass  # run against the installed dulwich (/repo)
from dulwich import porcelain  # noqa: E402
from dulwich.index import Index, IndexEntry  # noqa: E402

ENV = dict(
    os.environ,
    GIT_CONFIG_GLOBAL="/dev/null",
    GIT_CONFIG_SYSTEM="/dev/null",
    GIT_CONFIG_NOSYSTEM="1",
)
EMPTY_BLOB = b"e69de29bb2d1d6434b8b29ae775ad8c2e48c5391"
problems = []


def git(cwd, *args, check=True):
    return subprocess.run(
        ["git", *args], cwd=cwd, env=ENV, check=check, capture_output=True
    )


def git_mtimes(repo):
    out = git(repo, "ls-files", "--stage", "--debug").stdout.decode()
    res = {}
    name = None
    for line in out.splitlines():
        if "\t" in line and not line.startswith(" "):
            name = line.split("\t", 1)[1]
        m = re.match(r"\s+mtime: (\d+):(\d+)", line)
        if m:
            res[name] = (int(m.group(1)), int(m.group(2)))
    return res


def secs_of(t):
    return t[0] if isinstance(t, tuple) else int(t)


def api_level(tmp):
    """Index.write()/Index.read() on entries carrying such times (versions 2,3,4)."""
    cases = {
        b"tuple-before-1970": (-315619200, 0),  # 1960-01-01
        b"tuple-minus-one": (-1, 999999999),  # 1969-12-31 23:59:59.999999999
        b"tuple-after-2106": (2**32 + 1000, 5),
        b"int-after-2106": 2**32 + 1000,
        b"float-before-1970": -315619200.5,
    }
    for version in (2, 3, 4):
        for name, t in cases.items():
            path = os.path.join(tmp, f"idx-{version}-{name.decode()}")
            idx = Index(path, read=False, version=version)
            idx[name] = IndexEntry(
                ctime=t, mtime=t, dev=1, ino=2, mode=0o100644, uid=3, gid=4,
                size=0, sha=EMPTY_BLOB,
            )
            try:
                idx.write()
            except BaseException as e:  # noqa: BLE001
                problems.append(
                    f"v{version} {name.decode()}: Index.write() with mtime={t!r} raised "
                    f"{type(e).__name__}: {e}"
                )
                continue
            back = Index(path)[name]
            # git keeps the low 32 bits of the (floored) seconds
            import math
            want = (math.floor(t[0] if isinstance(t, tuple) else t)) & 0xFFFFFFFF
            if secs_of(back.mtime) != want or secs_of(back.ctime) != want:
                problems.append(
                    f"v{version} {name.decode()}: wrote {t!r}, read back mtime={back.mtime!r} "
                    f"ctime={back.ctime!r}; git would store seconds {want}"
                )


def end_to_end(tmp):
    """`git add` vs porcelain.add of files with such an mtime."""
    stamps = {"old-1960": -315619200, "future-2106": 2**32 + 1000}
    ref = os.path.join(tmp, "ref")
    dul = os.path.join(tmp, "dul")
    usable = {}
    for repo in (ref, dul):
        os.mkdir(repo)
        git(repo, "init", "-q")
        for name, ts in stamps.items():
            p = os.path.join(repo, name)
            with open(p, "w") as f:
                f.write(name)
            try:
                os.utime(p, (ts, ts))
            except (OSError, OverflowError):
                continue
            if int(os.stat(p).st_mtime) == ts:  # the file system kept the stamp
                usable[name] = ts
    if not usable:
        print("note: this file system does not keep such time stamps; end-to-end part skipped")
        return
    names = sorted(usable)
    git(ref, "add", *names)
    reference = git_mtimes(ref)
    print("C git stores:", {n: reference[n] for n in names})
    for name in names:
        try:
            porcelain.add(dul, [os.path.join(dul, name)])
        except BaseException as e:  # noqa: BLE001
            problems.append(
                f"porcelain.add of a file with mtime {usable[name]} ({name}) raised "
                f"{type(e).__name__}: {e}  (C git adds it and stores mtime "
                f"{reference[name][0]})"
            )
    listed = git_mtimes(dul) if os.path.exists(os.path.join(dul, ".git", "index")) else {}
    for name in names:
        if name not in listed:
            problems.append(f"{name}: not in the index dulwich wrote (C git lists it)")
        elif listed[name] != reference[name]:
            problems.append(
                f"{name}: dulwich stored mtime {listed[name]}, C git stores {reference[name]}"
            )


def main():
    tmp = tempfile.mkdtemp(prefix="c11-h2-")
    try:
        api_level(tmp)
        end_to_end(tmp)
    finally:
        shutil.rmtree(tmp, ignore_errors=True)
    if problems:
        print("VIOLATION (C11: round trip of all stat fields / agreement with C git):")
        for p in problems:
            print(" -", p)
        return 1
    print("ok: out-of-range times are stored modulo 2**32 like C git does")
    return 0


if __name__ == "__main__":
    sys.exit(main())
