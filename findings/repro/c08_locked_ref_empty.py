"""C08/C07: leaving `with locked_ref(..)` without having written anything replaces the ref by an EMPTY file.

locked_ref is the public compare-and-update primitive of refs.py:
    with locked_ref(refs, name) as lr:
        if lr.ensure_equals(expected): lr.set(new)
When the comparison fails nothing is written, and __exit__ then COMMITTED the still empty lock file over the ref: the
ref that "no longer matches and must be left untouched" was destroyed (reads back as b"", the branch is gone).
Exit 1 when the ref changes."""
import os, sys, tempfile, shutil
from dulwich.repo import Repo
from dulwich.refs import locked_ref, Ref
base = tempfile.mkdtemp(); path = os.path.join(base, "r")
r = Repo.init(path, mkdir=True)
name = Ref(b"refs/heads/topic"); A = b"1" * 40; B = b"2" * 40; C = b"3" * 40
r.refs[name] = A
with locked_ref(r.refs, name) as lr:
    if lr.ensure_equals(B):          # stale expectation: the ref is at A
        lr.set(C)
raw = open(os.path.join(path, ".git", "refs", "heads", "topic"), "rb").read()
print("ref file after a failed compare-and-update:", raw)
ok = raw.strip() == A
assert not os.path.exists(os.path.join(path, ".git", "refs", "heads", "topic.lock")), "lock left behind"
r.close(); shutil.rmtree(base); sys.exit(0 if ok else 1)
