"""C14: the bitmap reachability provider drops the exclude set when an excluded commit has no bitmap."""
import glob, os, shutil, sys, tempfile, warnings
warnings.simplefilter("ignore")
from dulwich.objects import Blob, Commit, Tree
from dulwich.repo import Repo

def make_commit(repo, parents, n):
    blob = Blob.from_string(b"content %d\n" % n)
    tree = Tree(); tree.add(b"file%d" % n, 0o100644, blob.id)
    c = Commit(); c.tree = tree.id; c.parents = list(parents)
    c.author = c.committer = b"Demo <demo@example.com>"
    c.author_time = c.commit_time = 1700000000 + n
    c.author_timezone = c.commit_timezone = 0
    c.message = b"commit %d\n" % n
    for o in (blob, tree, c): repo.object_store.add_object(o)
    return c.id

tmp = tempfile.mkdtemp(prefix="c14-probe-")
try:
    path = os.path.join(tmp, "repo.git"); os.mkdir(path)
    repo = Repo.init_bare(path)
    cs = []; parents = []
    for i in range(40):
        c = make_commit(repo, parents, i); cs.append(c); parents = [c]
    repo.refs[b"refs/heads/main"] = cs[-1]
    repo.object_store.pack_loose_objects(); repo.close()
    server = Repo(path)
    server.object_store.generate_pack_bitmaps(server.refs.as_dict())
    pb = server.object_store.packs[0].bitmap
    with_bm = set(pb.entries)
    no_bm = [c for c in cs if c not in with_bm]
    print("commits with a bitmap:", len(with_bm), "without:", len(no_bm))
    prov = server.object_store.get_reachability_provider()
    print("provider:", type(prov).__name__)
    tip = cs[-1]
    ex = no_bm[len(no_bm)//2]
    a = prov.get_reachable_commits([tip], exclude=[ex])
    from dulwich.object_store import GraphTraversalReachability
    b = GraphTraversalReachability(server.object_store).get_reachable_commits([tip], exclude=[ex])
    print("with bitmaps:", len(a), "plain traversal:", len(b))
    a2 = prov.get_reachable_objects([tip], exclude_commits=[ex])
    b2 = GraphTraversalReachability(server.object_store).get_reachable_objects([tip], exclude_commits=[ex])
    print("objects with bitmaps:", len(a2), "plain traversal:", len(b2))
    bad = (a != b) or (a2 != b2)
    print("FAIL: bitmaps changed an answer" if bad else "ok")
    sys.exit(1 if bad else 0)
finally:
    shutil.rmtree(tmp, ignore_errors=True)
