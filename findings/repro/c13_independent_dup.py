"""C13: independent() drops a commit that is listed twice.

independent(repo, [A, A]) compared each entry with every OTHER POSITION of the list; the merge base of (A, A) is A, so
both copies were judged "ancestor of another commit" and the answer was [] - the graph-theoretic answer for the set {A}
is [A], and `git merge-base --independent A A` prints A.  Also [A, B, A] with unrelated B lost A.  Exit 1 when A is lost."""
import os, sys, tempfile, shutil
from dulwich.repo import Repo
from dulwich.objects import Tree, Commit
from dulwich.graph import independent
base = tempfile.mkdtemp(); path = os.path.join(base, "r")
r = Repo.init(path, mkdir=True)
t = Tree(); r.object_store.add_object(t)
def commit(n, parents):
    c = Commit(); c.tree = t.id; c.parents = parents; c.author = c.committer = b"a <a@b>"
    c.author_time = c.commit_time = n; c.author_timezone = c.commit_timezone = 0; c.message = b"m%d" % n
    r.object_store.add_object(c); return c.id
A = commit(1, []); B = commit(2, [])
got1 = independent(r, [A, A]); got2 = independent(r, [A, B, A])
print("independent([A, A]) =", ["A" if x == A else "B" for x in got1], " independent([A, B, A]) =", ["A" if x == A else "B" for x in got2])
bad = A not in got1 or A not in got2 or B not in got2
r.close(); shutil.rmtree(base); sys.exit(1 if bad else 0)
