import os, tempfile, sys, glob
sys.path.insert(0,'/repo')
from dulwich.repo import Repo
from dulwich.objects import Blob
d = tempfile.mkdtemp(dir=os.environ.get('TMPDIR','/tmp'))
r = Repo.init(d)
b = Blob.from_string(b"x"); r.object_store.add_object(b); r.object_store.pack_loose_objects()
r.close()
reader = Repo(d)
_ = reader.object_store.packs          # reader snapshots the pack directory (not yet opened .idx)
# concurrent repack: the same object moves to a new pack under another name; old pack removed
w = Repo(d)
b2 = Blob.from_string(b"y"); w.object_store.add_object(b2)
w.object_store.repack()
w.close()
try:
    print("get_raw survives:", reader.object_store.get_raw(b.id)[1])
except Exception as e: print("get_raw:", type(e).__name__)
reader.close(); reader = Repo(d); _ = reader.object_store.packs
w = Repo(d); b3 = Blob.from_string(b"z"); w.object_store.add_object(b3); w.object_store.repack(); w.close()
try:
    print("iter_prefix:", list(reader.object_store.iter_prefix(b.id[:6])))
except Exception as e: print("iter_prefix raised:", type(e).__name__)
reader.close()
